import MemVerif.Props.C16
import MemVerif.Props.C04Lists
import MemVerif.Lemmas.C01Gen
import MemVerif.Lemmas.C18
/-!
C01 for the small node free list (`small_free_memory_list`): the list's own invariant `SmallOk` (free chains
duplicate-free and in range, counters exact, chunk ring sorted with disjoint extents and valid cursors, every chunk
inside a used block, every live node on the node grid of a chunk) is kept by `allocate`, by the release of a live node
and by the insertion of a new block, and each of them changes the free cells exactly as the generic cell invariant
expects.
-/
namespace MemVerif.Model
open MemVerif.Gen

/-! ### cells of chunks -/

def Chunk.cellAt (ns : Nat) (c : Chunk) (i : Nat) : Nat := c.base + chunkOff + i * ns

/-- the free cells of a chunk, in chain order -/
def Chunk.freeCells (ns : Nat) (c : Chunk) : List Nat := c.free.map (c.cellAt ns)

/-- all cells of a chunk -/
def Chunk.allCells (ns : Nat) (c : Chunk) : List Nat := (List.range c.noNodes).map (c.cellAt ns)

/-- free cells of the whole list, in ring order -/
def SmallList.cells (l : SmallList) : List Nat := l.chunks.flatMap (Chunk.freeCells l.ns)

theorem flatMap_set {α β} (f : α → List β) (xs : List α) (i : Nat) (x y : α) (h : xs[i]? = some x) :
    xs.flatMap f = (xs.take i).flatMap f ++ f x ++ (xs.drop (i + 1)).flatMap f ∧
    (xs.set i y).flatMap f = (xs.take i).flatMap f ++ f y ++ (xs.drop (i + 1)).flatMap f := by
  have hlt : i < xs.length := by
    rcases Nat.lt_or_ge i xs.length with h' | h'
    · exact h'
    · rw [List.getElem?_eq_none h'] at h; cases h
  have hx : xs[i] = x := by
    have := List.getElem?_eq_getElem hlt; rw [h] at this; exact (Option.some.inj this).symm
  constructor
  · conv => lhs; rw [← List.take_append_drop i xs, List.drop_eq_getElem_cons hlt, hx]
    simp [List.flatMap_append, List.flatMap_cons]
  · rw [List.set_eq_take_append_cons_drop, if_pos hlt]
    simp [List.flatMap_append, List.flatMap_cons]

/-! ### the ring depends only on the geometry of the chunks -/

/-- chunk extents in list order: each ends before the next begins -/
def ChunksSorted (ns : Nat) (cs : List Chunk) : Prop := cs.Pairwise fun a b => a.endOf ns ≤ b.base

theorem sorted_iff (l : SmallList) :
    (∀ (i j : Nat) (ci cj : Chunk), l.chunks[i]? = some ci → l.chunks[j]? = some cj → i < j → ci.endOf l.ns ≤ cj.base) ↔
      ChunksSorted l.ns l.chunks := by
  unfold ChunksSorted
  rw [List.pairwise_iff_getElem]
  constructor
  · intro h i j hi hj hij
    exact h i j _ _ (List.getElem?_eq_getElem hi) (List.getElem?_eq_getElem hj) hij
  · intro h i j ci cj hci hcj hij
    have hi : i < l.chunks.length := by
      rcases Nat.lt_or_ge i l.chunks.length with h' | h'
      · exact h'
      · rw [List.getElem?_eq_none h'] at hci; cases hci
    have hj : j < l.chunks.length := by
      rcases Nat.lt_or_ge j l.chunks.length with h' | h'
      · exact h'
      · rw [List.getElem?_eq_none h'] at hcj; cases hcj
    have := h i j hi hj hij
    rw [List.getElem?_eq_getElem hi] at hci
    rw [List.getElem?_eq_getElem hj] at hcj
    cases hci; cases hcj
    exact this

/-- the geometry of a chunk: where it is and how many nodes it has -/
def Chunk.geo (c : Chunk) : Nat × Nat := (c.base, c.noNodes)

theorem posOf_congr (l l' : SmallList) (hP : l'.P = l.P) (hb : l'.chunks.map Chunk.base = l.chunks.map Chunk.base)
    (a : Nat) : l'.posOf a = l.posOf a := by
  unfold SmallList.posOf
  rw [hP]
  have e : ∀ cs : List Chunk, (cs.findIdx? fun c => decide (c.base = a)) = (cs.map Chunk.base).findIdx? (fun b => decide (b = a)) := by
    intro cs; rw [List.findIdx?_map]; rfl
  rw [e l'.chunks, e l.chunks, hb]

theorem sorted_congr (ns : Nat) (cs cs' : List Chunk) (hg : cs'.map Chunk.geo = cs.map Chunk.geo)
    (h : ChunksSorted ns cs) : ChunksSorted ns cs' := by
  unfold ChunksSorted at h ⊢
  have h1 : (cs.map Chunk.geo).Pairwise (fun a b => a.1 + chunkOff + a.2 * ns ≤ b.1) := by
    rw [List.pairwise_map]; exact h
  rw [← hg, List.pairwise_map] at h1
  exact h1

/-- the base of a chunk of a sorted ring that does not contain the proxy is found at its own position -/
theorem posOf_base (l : SmallList) (hs : ChunksSorted l.ns l.chunks) (hpo : ∀ c ∈ l.chunks, l.P < c.base ∨ c.endOf l.ns ≤ l.P)
    (i : Nat) (c : Chunk) (hc : l.chunks[i]? = some c) : l.posOf c.base = some (i + 1) := by
  have hlen : i < l.chunks.length := by
    rcases Nat.lt_or_ge i l.chunks.length with h | h
    · exact h
    · rw [List.getElem?_eq_none h] at hc; cases hc
  have hci : l.chunks[i] = c := by
    have := List.getElem?_eq_getElem hlen; rw [hc] at this; exact (Option.some.inj this).symm
  have hne : c.base ≠ l.P := by
    intro h
    have := hpo c (List.mem_of_getElem? hc)
    unfold Chunk.endOf at this
    have := chunkOff_pos
    omega
  unfold SmallList.posOf
  rw [if_neg hne]
  simp only [Option.map_eq_some_iff]
  refine ⟨i, ?_, rfl⟩
  rw [List.findIdx?_eq_some_iff_getElem]
  refine ⟨hlen, by simp [hci], ?_⟩
  intro j hj
  have hjl : j < l.chunks.length := by omega
  have := (List.pairwise_iff_getElem.mp hs) j i hjl hlen hj
  rw [hci] at this
  unfold Chunk.endOf at this
  have := chunkOff_pos
  simp only [decide_eq_true_eq]
  omega

/-- **Transport of the ring invariant**: a list with the same proxy, node size and chunk geometry, whose cursors
are old cursors or chunk bases, is again a ring. -/
theorem ring_transport (l l' : SmallList) (hR : SmallRing l) (hP : l'.P = l.P) (hns : l'.ns = l.ns)
    (hg : l'.chunks.map Chunk.geo = l.chunks.map Chunk.geo)
    (hA : l'.allocChunk = l.allocChunk ∨ ∃ c ∈ l.chunks, l'.allocChunk = c.base)
    (hD : l'.deallocChunk = l.deallocChunk ∨ ∃ c ∈ l.chunks, l'.deallocChunk = c.base) : SmallRing l' := by
  have hb : l'.chunks.map Chunk.base = l.chunks.map Chunk.base := by
    have := congrArg (List.map Prod.fst) hg
    simpa [List.map_map, Function.comp_def, Chunk.geo] using this
  have hsorted := (sorted_iff l).mp hR.sorted
  have hpos := posOf_congr l l' hP hb
  have hmem : ∀ c' ∈ l'.chunks, ∃ c ∈ l.chunks, c.geo = c'.geo := by
    intro c' hc'
    have : c'.geo ∈ l'.chunks.map Chunk.geo := List.mem_map.mpr ⟨c', hc', rfl⟩
    rw [hg] at this
    obtain ⟨c, hc, e⟩ := List.mem_map.mp this
    exact ⟨c, hc, e⟩
  have cursor : ∀ a a', (a' = a ∨ ∃ c ∈ l.chunks, a' = c.base) → (∃ d, l.posOf a = some d) → ∃ d, l'.posOf a' = some d := by
    intro a a' h hd
    rw [hpos]
    rcases h with rfl | ⟨c, hc, rfl⟩
    · exact hd
    · obtain ⟨i, hi, hci⟩ := List.getElem_of_mem hc
      exact ⟨i + 1, posOf_base l hsorted hR.proxyOut i c (by rw [List.getElem?_eq_getElem hi, hci])⟩
  refine ⟨?_, cursor _ _ hD hR.cursorD, cursor _ _ hA hR.cursorA, ?_⟩
  · rw [sorted_iff, hns]
    exact sorted_congr l.ns _ _ hg hsorted
  · intro c' hc'
    obtain ⟨c, hc, e⟩ := hmem c' hc'
    have := hR.proxyOut c hc
    unfold Chunk.geo at e
    simp only [Prod.mk.injEq] at e
    unfold Chunk.endOf at this ⊢
    rw [hP, hns, ← e.1, ← e.2]
    exact this

/-! ### the invariant -/

/-- the small list's own invariant inside a pool that uses `used`, with the caller holding `live` -/
structure SmallOk (l : SmallList) (used : List Blk) (live : List (Nat × Nat)) : Prop where
  invS : Props.C04Lists.SmallInvS l
  ring : SmallRing l
  nsPos : 0 < l.ns
  /-- every chunk lies inside the usable part of a used block -/
  chunkIn : ∀ c ∈ l.chunks, ∃ b ∈ used, b.usable.base ≤ c.base ∧ c.endOf l.ns ≤ b.usable.base + b.usable.size
  /-- every live allocation is one node, on the node grid of a chunk -/
  liveGrid : ∀ ab ∈ live, ab.2 ≤ l.ns ∧ ∃ c ∈ l.chunks, ∃ idx, idx < c.noNodes ∧ ab.1 = c.cellAt l.ns idx

theorem SmallOk.mono {l : SmallList} {used used' : List Blk} {live : List (Nat × Nat)} (h : SmallOk l used live)
    (hsub : ∀ b ∈ used, b ∈ used') : SmallOk l used' live :=
  { h with chunkIn := fun c hc => let ⟨b, hb, hi⟩ := h.chunkIn c hc; ⟨b, hsub b hb, hi⟩ }

/-- replacing the chunk at index `i` by one with the same geometry keeps memberships up to geometry -/
theorem mem_set_geo {cs : List Chunk} {i : Nat} {c c' : Chunk} (hc : cs[i]? = some c) (hg : c'.geo = c.geo) :
    (cs.set i c').map Chunk.geo = cs.map Chunk.geo := by
  have hlt : i < cs.length := by
    rcases Nat.lt_or_ge i cs.length with h | h
    · exact h
    · rw [List.getElem?_eq_none h] at hc; cases hc
  have hci : cs[i] = c := by
    have := List.getElem?_eq_getElem hlt; rw [hc] at this; exact (Option.some.inj this).symm
  apply List.ext_getElem?
  intro k
  simp only [List.getElem?_map, List.getElem?_set]
  by_cases hk : i = k
  · subst hk
    simp only [hlt, ↓reduceIte, Option.map_some, hc, hg]
  · simp only [hk, ↓reduceIte]

/-- a chunk with the geometry of a member, found in the updated list -/
theorem mem_set_exists {cs : List Chunk} {i : Nat} {c c' : Chunk} (hc : cs[i]? = some c) (hg : c'.geo = c.geo)
    {x : Chunk} (hx : x ∈ cs) : ∃ y ∈ cs.set i c', y.geo = x.geo := by
  have : x.geo ∈ (cs.set i c').map Chunk.geo := by
    rw [mem_set_geo hc hg]; exact List.mem_map.mpr ⟨x, hx, rfl⟩
  obtain ⟨y, hy, e⟩ := List.mem_map.mp this
  exact ⟨y, hy, e⟩

theorem geo_cellAt {c c' : Chunk} (hg : c'.geo = c.geo) (ns i : Nat) : c'.cellAt ns i = c.cellAt ns i := by
  unfold Chunk.geo at hg
  simp only [Prod.mk.injEq] at hg
  unfold Chunk.cellAt; rw [hg.1]

/-! ### allocate -/

/-- `allocate()`: the head of the free chain of one chunk leaves; everything else is unchanged -/
theorem SmallList.allocate_spec {l l' : SmallList} {used : List Blk} {live : List (Nat × Nat)} {x bytes : Nat}
    (hS : SmallOk l used live) (hb : bytes ≤ l.ns) (h : l.allocate = some (l', x)) :
    ∃ A B, l.cells = A ++ [x] ++ B ∧ l'.cells = A ++ B ∧ l'.ns = l.ns ∧ l'.P = l.P ∧
      SmallOk l' used ((x, bytes) :: live) := by
  -- shape of the result, with the returned address
  have hshape : ∃ i c idx rest, l.chunks[i]? = some c ∧ c.free = idx :: rest ∧ l' = l.allocResult i c rest ∧
      x = c.cellAt l.ns idx := by
    unfold SmallList.allocate at h
    split at h
    · exact absurd h (by simp)
    · exact absurd h (by simp)
    · rename_i i _
      split at h
      · exact absurd h (by simp)
      · rename_i c hc
        split at h
        · exact absurd h (by simp)
        · rename_i idx rest hfree
          simp only [Option.some.injEq, Prod.mk.injEq] at h
          exact ⟨i, c, idx, rest, hc, hfree, h.1.symm, h.2.symm⟩
  obtain ⟨i, c, idx, rest, hc, hfree, rfl, rfl⟩ := hshape
  have hmem := List.mem_of_getElem? hc
  let c' : Chunk := { c with capacity := c.capacity - 1, free := rest }
  have hg : c'.geo = c.geo := rfl
  have hch : (l.allocResult i c rest).chunks = l.chunks.set i c' := rfl
  obtain ⟨e1, e2⟩ := flatMap_set (Chunk.freeCells l.ns) l.chunks i c c' hc
  have hidx : idx < c.noNodes := (hS.invS.2 c hmem).2.2 idx (by rw [hfree]; simp)
  refine ⟨(l.chunks.take i).flatMap (Chunk.freeCells l.ns),
    rest.map (c.cellAt l.ns) ++ (l.chunks.drop (i + 1)).flatMap (Chunk.freeCells l.ns), ?_, ?_, rfl, rfl, ?_⟩
  · show l.chunks.flatMap _ = _
    rw [e1]
    simp [Chunk.freeCells, hfree]
  · show (l.chunks.set i c').flatMap (Chunk.freeCells l.ns) = _
    rw [e2]
    simp [Chunk.freeCells, c', Chunk.cellAt]
  · refine ⟨(Props.C04Lists.C04_small_allocate l _ _ h).2.2 hS.invS, ?_, hS.nsPos, ?_, ?_⟩
    · exact ring_transport l _ hS.ring rfl rfl (by rw [hch]; exact mem_set_geo hc hg) (Or.inr ⟨c, hmem, rfl⟩) (Or.inl rfl)
    · intro y hy
      rw [hch] at hy
      rcases List.mem_or_eq_of_mem_set hy with hy | rfl
      · exact hS.chunkIn y hy
      · exact hS.chunkIn c hmem
    · intro ab hab
      rcases List.mem_cons.mp hab with rfl | hab
      · refine ⟨hb, c', ?_, idx, hidx, rfl⟩
        rw [hch]
        have hlt : i < l.chunks.length := by
          rcases Nat.lt_or_ge i l.chunks.length with h' | h'
          · exact h'
          · rw [List.getElem?_eq_none h'] at hc; cases hc
        exact List.mem_of_getElem? (show (l.chunks.set i c')[i]? = some c' by simp [List.getElem?_set, hlt])
      · obtain ⟨h1, y, hy, k, hk, e⟩ := hS.liveGrid ab hab
        obtain ⟨y', hy', eg⟩ := mem_set_exists hc hg hy
        refine ⟨h1, y', by rw [hch]; exact hy', k, ?_, ?_⟩
        · have : y'.noNodes = y.noNodes := congrArg Prod.snd eg
          omega
        · rw [e]; exact (geo_cellAt eg l.ns k).symm

/-! ### release of a live node -/

/-- `deallocate(p)` of the `i`-th live allocation: the chunk search finds its chunk from every cursor state, the three
pointer checks pass in every configuration, the node index goes on the chunk's free chain. -/
theorem SmallList.deallocate_spec (cfg : Cfg) {l : SmallList} {used : List Blk} {live : List (Nat × Nat)} {i p b : Nat}
    (hS : SmallOk l used live) (hi : live[i]? = some (p, b))
    (hap : ∀ y ∈ l.cells, y + l.ns ≤ p ∨ p + l.ns ≤ y) :
    ∃ l', l.deallocate cfg p = .ok l' ∧ l'.cells.Perm (p :: l.cells) ∧ l'.ns = l.ns ∧ l'.P = l.P ∧
      SmallOk l' used (live.eraseIdx i) := by
  have hmemL : (p, b) ∈ live := List.mem_of_getElem? hi
  obtain ⟨_, c, hcm, idx, hidx, hp⟩ := hS.liveGrid (p, b) hmemL
  simp only at hp
  obtain ⟨j, hj, hcj⟩ := List.getElem_of_mem hcm
  have hc : l.chunks[j]? = some c := by rw [List.getElem?_eq_getElem hj, hcj]
  have hns := hS.nsPos
  have hoff : p - (c.base + chunkOff) = idx * l.ns := by rw [hp]; unfold Chunk.cellAt; omega
  have harea : Props.C16.InArea l c p := by
    unfold Props.C16.InArea
    rw [hp]; unfold Chunk.cellAt
    have : (idx + 1) * l.ns ≤ c.noNodes * l.ns := Nat.mul_le_mul_right _ hidx
    rw [Nat.add_mul] at this
    exact ⟨by omega, by omega⟩
  have hmod : (p - (c.base + chunkOff)) % l.ns = 0 := by rw [hoff]; exact Nat.mul_mod_left _ _
  have hdiv : (p - (c.base + chunkOff)) / l.ns = idx := by rw [hoff]; exact Nat.mul_div_cancel _ hns
  have hnot : (p - (c.base + chunkOff)) / l.ns ∉ c.free := by
    rw [hdiv]
    intro hin
    have : p ∈ l.cells := by
      unfold SmallList.cells
      exact List.mem_flatMap.mpr ⟨c, hcm, List.mem_map.mpr ⟨idx, hin, hp.symm⟩⟩
    have := hap p this
    omega
  have hd := Props.C16.C16_small_valid_never_reported cfg l hS.ring j c p hc harea hmod hnot
  refine ⟨_, hd, ?_, rfl, rfl, ?_⟩
  · -- cells
    let c' : Chunk := { c with capacity := c.capacity + 1, free := (p - (c.base + chunkOff)) / l.ns :: c.free }
    obtain ⟨e1, e2⟩ := flatMap_set (Chunk.freeCells l.ns) l.chunks j c c' hc
    show ((l.chunks.set j c').flatMap (Chunk.freeCells l.ns)).Perm (p :: l.chunks.flatMap (Chunk.freeCells l.ns))
    rw [e1, e2]
    have : Chunk.freeCells l.ns c' = p :: Chunk.freeCells l.ns c := by
      simp only [Chunk.freeCells, c', List.map_cons, hdiv]
      rw [hp]; rfl
    rw [this]
    simp only [List.append_assoc, List.cons_append]
    exact List.perm_middle
  · have hcap := (Props.C04Lists.C04_small_deallocate_cap cfg l _ p hS.invS.toInv.toCap hd).1
    let c' : Chunk := { c with capacity := c.capacity + 1, free := (p - (c.base + chunkOff)) / l.ns :: c.free }
    have hg : c'.geo = c.geo := rfl
    have hch : (l.deallocResult j c p).chunks = l.chunks.set j c' := rfl
    refine ⟨Props.C04Lists.deallocResult_invS l j c p hS.invS hns hc harea hnot hcap,
      Props.C16.C16_small_ring_deallocate l hS.ring j c p hc, hns, ?_, ?_⟩
    · intro y hy
      rw [hch] at hy
      rcases List.mem_or_eq_of_mem_set hy with hy | rfl
      · exact hS.chunkIn y hy
      · exact hS.chunkIn c hcm
    · intro ab hab
      obtain ⟨h1, y, hy, k, hk, e⟩ := hS.liveGrid ab ((List.eraseIdx_sublist live i).subset hab)
      obtain ⟨y', hy', eg⟩ := mem_set_exists hc hg hy
      refine ⟨h1, y', by rw [hch]; exact hy', k, ?_, ?_⟩
      · have : y'.noNodes = y.noNodes := congrArg Prod.snd eg
        omega
      · rw [e]; exact (geo_cellAt eg l.ns k).symm

/-! ### the chunks `insert` builds -/

/-- cells of a chunk: pairwise apart and inside the chunk's node area -/
theorem Chunk.allCells_spec (ns : Nat) (c : Chunk) :
    (c.allCells ns).Pairwise (Apart ns) ∧ ∀ x ∈ c.allCells ns, c.base + chunkOff ≤ x ∧ x + ns ≤ c.endOf ns := by
  constructor
  · unfold Chunk.allCells
    rw [List.pairwise_map]
    refine List.Pairwise.imp ?_ (List.pairwise_lt_range (n := c.noNodes))
    intro a b hab
    unfold Apart Chunk.cellAt
    left
    have : (a + 1) * ns ≤ b * ns := Nat.mul_le_mul_right _ hab
    rw [Nat.add_mul] at this
    omega
  · intro x hx
    unfold Chunk.allCells at hx
    obtain ⟨i, hi, rfl⟩ := List.mem_map.mp hx
    rw [List.mem_range] at hi
    unfold Chunk.cellAt Chunk.endOf
    have : (i + 1) * ns ≤ c.noNodes * ns := Nat.mul_le_mul_right _ hi
    rw [Nat.add_mul] at this
    omega

theorem Chunk.make_extent (base total ns : Nat) (h : chunkOff ≤ total) :
    (Chunk.make base total ns).base = base ∧ (Chunk.make base total ns).endOf ns ≤ base + total := by
  refine ⟨rfl, ?_⟩
  unfold Chunk.endOf Chunk.make
  simp only
  have h1 : (total - chunkOff) / ns % 256 ≤ (total - chunkOff) / ns := Nat.mod_le _ _
  have h2 := Nat.div_mul_le_self (total - chunkOff) ns
  have h3 : (total - chunkOff) / ns % 256 * ns ≤ (total - chunkOff) / ns * ns := Nat.mul_le_mul_right _ h1
  omega

/-- **Geometry of the chunks `insert(mem, size)` builds**: in ascending order with disjoint extents, all inside
`[mem, mem + size)`, the first one at `mem`. -/
theorem smallInsertChunks_geo (ns mem size : Nat) :
    ChunksSorted ns (smallInsertChunks ns mem size).1 ∧
    (∀ c ∈ (smallInsertChunks ns mem size).1, mem ≤ c.base ∧ c.endOf ns ≤ mem + size) ∧
    (∀ b bs, (smallInsertChunks ns mem size).1 = b :: bs → b.base = mem) := by
  rw [smallInsertChunks_eq]
  have hsp := smallStride_pos ns
  have hsg := smallStride_ge ns
  have hoff : chunkOff = 32 := chunkOff_eq
  have hmax : chunkMax = 255 := chunkMax_eq
  generalize hq : size / smallStride ns = q
  generalize hr : size % smallStride ns = r
  have hsize : size = smallStride ns * q + r := by rw [← hq, ← hr]; exact (Nat.div_add_mod size _).symm
  have hrl : r < smallStride ns := by rw [← hr]; exact Nat.mod_lt _ hsp
  -- the full chunks
  let full := (List.range q).map fun i => Chunk.make (mem + i * smallStride ns) (chunkOff + ns * chunkMax) ns
  have hfull_ext : ∀ i, i < q → (Chunk.make (mem + i * smallStride ns) (chunkOff + ns * chunkMax) ns).base = mem + i * smallStride ns ∧
      (Chunk.make (mem + i * smallStride ns) (chunkOff + ns * chunkMax) ns).endOf ns ≤ mem + (i + 1) * smallStride ns := by
    intro i _
    have := Chunk.make_extent (mem + i * smallStride ns) (chunkOff + ns * chunkMax) ns (by omega)
    refine ⟨this.1, ?_⟩
    rw [Nat.add_mul, Nat.one_mul]
    have hle : chunkOff + ns * chunkMax ≤ smallStride ns := by rw [hoff, hmax]; omega
    have := this.2
    omega
  have hfull_sorted : ChunksSorted ns full := by
    unfold ChunksSorted
    show List.Pairwise _ (List.map _ (List.range q))
    rw [List.pairwise_map]
    have hp : (List.range q).Pairwise (fun a b => a < b ∧ a < q ∧ b < q) := by
      rw [List.pairwise_iff_getElem]
      intro i j hi hj hij
      simp only [List.getElem_range]
      simp at hi hj
      exact ⟨hij, hi, hj⟩
    refine hp.imp ?_
    intro a b ⟨hab, ha, hb⟩
    have h1 := (hfull_ext a ha).2
    have h2 := (hfull_ext b hb).1
    rw [h2]
    have : (a + 1) * smallStride ns ≤ b * smallStride ns := Nat.mul_le_mul_right _ hab
    omega
  have hfull_in : ∀ c ∈ full, mem ≤ c.base ∧ c.endOf ns ≤ mem + q * smallStride ns := by
    intro c hc
    obtain ⟨i, hi, rfl⟩ := List.mem_map.mp hc
    rw [List.mem_range] at hi
    have := hfull_ext i hi
    have h3 : (i + 1) * smallStride ns ≤ q * smallStride ns := Nat.mul_le_mul_right _ hi
    rw [this.1]
    exact ⟨by omega, by omega⟩
  have hqs : q * smallStride ns ≤ size := by rw [hsize, Nat.mul_comm]; omega
  have hhead : ∀ b bs, full = b :: bs → b.base = mem := by
    intro b bs hb
    cases q with
    | zero => simp [full] at hb
    | succ q' =>
      simp only [full, List.range_succ_eq_map, List.map_cons, List.cons.injEq] at hb
      rw [← hb.1]
      show mem + 0 * _ = mem
      omega
  split
  · rename_i hrem
    -- with a remainder chunk
    have hlast := Chunk.make_extent (mem + q * smallStride ns) r ns (by omega)
    refine ⟨?_, ?_, ?_⟩
    · unfold ChunksSorted
      rw [List.pairwise_append]
      refine ⟨hfull_sorted, by simp, ?_⟩
      intro a ha b hb
      simp only [List.mem_singleton] at hb
      subst hb
      rw [hlast.1]
      exact (hfull_in a ha).2
    · intro c hc
      rcases List.mem_append.mp hc with hc | hc
      · have := hfull_in c hc; exact ⟨this.1, by omega⟩
      · simp only [List.mem_singleton] at hc
        subst hc
        rw [hlast.1]
        refine ⟨by omega, ?_⟩
        have := hlast.2
        rw [hsize, Nat.mul_comm (smallStride ns) q]
        omega
    · intro b bs hb
      cases q with
      | zero =>
        simp only [List.range_zero, List.map_nil, List.nil_append, List.cons.injEq] at hb
        rw [← hb.1, hlast.1]; omega
      | succ q' =>
        simp only [List.range_succ_eq_map, List.map_cons, List.cons_append, List.cons.injEq] at hb
        rw [← hb.1]
        show mem + 0 * _ = mem
        omega
  · exact ⟨hfull_sorted, fun c hc => let h := hfull_in c hc; ⟨h.1, by omega⟩, hhead⟩

/-! ### insertion of a new block -/

/-- the cells a block is cut into by the small list: all nodes of the chunks `insert` builds over its usable part -/
def smallBlockCells (ns : Nat) (b : Blk) : List Nat :=
  (smallInsertChunks ns b.usable.base b.usable.size).1.flatMap (Chunk.allCells ns)

theorem takeWhile_split {α} (p : α → Bool) (l : List α) :
    ∃ before rest, l = before ++ rest ∧ l.takeWhile p = before ∧ l.drop before.length = rest ∧
      (∀ x ∈ before, p x = true) ∧ (∀ r rs, rest = r :: rs → p r = false) := by
  induction l with
  | nil => exact ⟨[], [], rfl, rfl, rfl, by simp, by simp⟩
  | cons x xs ih =>
    by_cases hx : p x = true
    · obtain ⟨b, r, h1, h2, h3, h4, h5⟩ := ih
      refine ⟨x :: b, r, by rw [h1]; rfl, by simp [List.takeWhile, hx, h2], by simpa using h3, ?_, h5⟩
      intro y hy
      rcases List.mem_cons.mp hy with rfl | hy
      · exact hx
      · exact h4 y hy
    · refine ⟨[], x :: xs, rfl, by simp [List.takeWhile, hx], rfl, by simp, ?_⟩
      intro r rs h
      simp only [List.cons.injEq] at h
      rw [← h.1]; simpa using hx

/-- new cells of fresh chunks: the free cells are all cells -/
theorem fresh_cells (ns : Nat) (cs : List Chunk) (h : ∀ c ∈ cs, c.free = List.range c.noNodes) :
    cs.flatMap (Chunk.freeCells ns) = cs.flatMap (Chunk.allCells ns) := by
  induction cs with
  | nil => rfl
  | cons c cs ih =>
    simp only [List.flatMap_cons]
    rw [ih (fun x hx => h x (List.mem_cons_of_mem _ hx))]
    congr 1
    unfold Chunk.freeCells Chunk.allCells
    rw [h c List.mem_cons_self]

/-- cells of a sorted list of chunks: pairwise apart, each inside the extent of its chunk -/
theorem chunks_cells_apart (ns : Nat) (cs : List Chunk) (hs : ChunksSorted ns cs) :
    (cs.flatMap (Chunk.allCells ns)).Pairwise (Apart ns) := by
  rw [List.pairwise_flatMap]
  refine ⟨fun c _ => (c.allCells_spec ns).1, ?_⟩
  unfold ChunksSorted at hs
  refine hs.imp ?_
  intro a b hab x hx y hy
  have h1 := (a.allCells_spec ns).2 x hx
  have h2 := (b.allCells_spec ns).2 y hy
  unfold Apart
  omega

/-- **`insert(mem, size)` of the usable part of a new block.** -/
theorem SmallList.insert_spec {l l' : SmallList} {used : List Blk} {live : List (Nat × Nat)} {blk : Blk}
    (hS : SmallOk l used live) (hb : BlocksOk (blk :: used))
    (hobj : blk.usable.base + blk.usable.size ≤ l.P ∨ l.P < blk.usable.base)
    (h : l.insert blk.usable.base blk.usable.size = some l') :
    l'.cells.Perm (smallBlockCells l.ns blk ++ l.cells) ∧ l'.ns = l.ns ∧ l'.P = l.P ∧
      SmallOk l' (blk :: used) live ∧
      (smallBlockCells l.ns blk).Pairwise (Apart l.ns) ∧
      ∀ x ∈ smallBlockCells l.ns blk, blk.usable.base ≤ x ∧ x + l.ns ≤ blk.usable.base + blk.usable.size := by
  have hns := hS.nsPos
  have hinv := (Props.C04Lists.C04_small_insert l l' _ _ hns h).2.2.1 hS.invS
  obtain ⟨hgs, hgin, hghead⟩ := smallInsertChunks_geo l.ns blk.usable.base blk.usable.size
  have hfresh := smallInsertChunks_fresh l.ns blk.usable.base blk.usable.size
  unfold SmallList.insert at h
  generalize hcs : smallInsertChunks l.ns blk.usable.base blk.usable.size = r at h hgs hgin hghead hfresh
  obtain ⟨cs, n⟩ := r
  simp only at h hgs hgin hghead hfresh
  have hN : smallBlockCells l.ns blk = cs.flatMap (Chunk.allCells l.ns) := by unfold smallBlockCells; rw [hcs]
  split at h
  · cases h
  · rename_i hne
    simp only [Option.some.injEq] at h
    subst h
    -- the first new chunk
    obtain ⟨b0, bs, hcs0⟩ : ∃ b0 bs, cs = b0 :: bs := by
      cases cs with
      | nil => simp at hne
      | cons b0 bs => exact ⟨b0, bs, rfl⟩
    have hb0 : b0.base = blk.usable.base := hghead b0 bs hcs0
    -- split of the old chunks
    obtain ⟨before, rest, hsplit, htw, hdrop, hbef, hrest⟩ :=
      takeWhile_split (fun c : Chunk => decide (c.base < b0.base)) l.chunks
    have hnewchunks : insertSorted l.chunks cs = before ++ cs ++ rest := by
      rw [hcs0]; unfold insertSorted; simp only; rw [htw, hdrop]
    -- every old chunk lies outside the new block
    have hw := hb.1 blk (by simp)
    unfold Blk.Wf at hw
    have hout : ∀ c ∈ l.chunks, c.endOf l.ns ≤ blk.usable.base ∨ blk.usable.base + blk.usable.size ≤ c.base := by
      intro c hc
      obtain ⟨b, hbu, h1, h2⟩ := hS.chunkIn c hc
      have hd : blk.Disj b := (List.pairwise_cons.mp hb.2).1 b hbu
      have hwb := hb.1 b (by simp [hbu])
      unfold Blk.Wf at hwb
      unfold Blk.Disj at hd
      unfold Blk.usable at h1 h2 ⊢
      simp only at h1 h2 ⊢
      have := implOff_eq
      omega
    have hco := chunkOff_pos
    have hsorted := (sorted_iff l).mp hS.ring.sorted
    rw [hsplit] at hsorted
    unfold ChunksSorted at hsorted
    rw [List.pairwise_append] at hsorted
    have hbefore_end : ∀ x ∈ before, x.endOf l.ns ≤ blk.usable.base := by
      intro x hx
      have h1 := hbef x hx
      simp only [decide_eq_true_eq] at h1
      rcases hout x (by rw [hsplit]; simp [hx]) with h2 | h2
      · exact h2
      · omega
    have hrest_base : ∀ y ∈ rest, blk.usable.base + blk.usable.size ≤ y.base := by
      intro y hy
      cases hr : rest with
      | nil => rw [hr] at hy; cases hy
      | cons r rs =>
        have hr0 := hrest r rs hr
        simp only [decide_eq_false_iff_not] at hr0
        have hrout := hout r (by rw [hsplit, hr]; simp)
        have hre : r.base < r.endOf l.ns := by unfold Chunk.endOf; omega
        have hrb : blk.usable.base + blk.usable.size ≤ r.base := by omega
        rw [hr] at hy
        rcases List.mem_cons.mp hy with rfl | hy
        · exact hrb
        · have := hsorted.2.1
          rw [hr, List.pairwise_cons] at this
          have := this.1 y hy
          omega
    -- the new chunk list is sorted
    have hsorted' : ChunksSorted l.ns (before ++ cs ++ rest) := by
      unfold ChunksSorted
      rw [List.pairwise_append, List.pairwise_append]
      refine ⟨⟨hsorted.1, hgs, ?_⟩, hsorted.2.1, ?_⟩
      · intro x hx c hc
        have := hbefore_end x hx
        have := (hgin c hc).1
        omega
      · intro x hx y hy
        rcases List.mem_append.mp hx with hx | hx
        · exact hsorted.2.2 x hx y hy
        · have := (hgin x hx).2
          have := hrest_base y hy
          omega
    have hmem' : ∀ c, c ∈ before ++ cs ++ rest ↔ c ∈ l.chunks ∨ c ∈ cs := by
      intro c
      rw [hsplit]
      simp only [List.mem_append]
      constructor
      · rintro ((h1 | h1) | h1)
        · exact Or.inl (Or.inl h1)
        · exact Or.inr h1
        · exact Or.inl (Or.inr h1)
      · rintro ((h1 | h1) | h1)
        · exact Or.inl (Or.inl h1)
        · exact Or.inr h1
        · exact Or.inl (Or.inr h1)
    have hpo' : ∀ c ∈ before ++ cs ++ rest, l.P < c.base ∨ c.endOf l.ns ≤ l.P := by
      intro c hc
      rcases (hmem' c).mp hc with h1 | h1
      · exact hS.ring.proxyOut c h1
      · have := hgin c h1
        omega
    refine ⟨?_, rfl, rfl, ⟨?_, ?_, hns, ?_, ?_⟩, ?_, ?_⟩
    · -- cells
      show ((insertSorted l.chunks cs).flatMap (Chunk.freeCells l.ns)).Perm _
      rw [hnewchunks, hN, ← fresh_cells l.ns cs (fun c hc => (hfresh c hc).2.1)]
      show List.Perm _ (cs.flatMap (Chunk.freeCells l.ns) ++ l.chunks.flatMap (Chunk.freeCells l.ns))
      rw [hsplit]
      simp only [List.flatMap_append, List.append_assoc]
      exact List.perm_append_comm_assoc _ _ _
    · exact hinv
    · -- ring
      let l1 : SmallList := { l with chunks := insertSorted l.chunks cs, cap := l.cap + n }
      have hl1 : l1.chunks = before ++ cs ++ rest := hnewchunks
      have cursor : ∀ a, (∃ d, l.posOf a = some d) → ∃ d, l1.posOf a = some d := by
        intro a ⟨d, hd⟩
        by_cases haP : a = l.P
        · exact ⟨0, by simp [SmallList.posOf, haP, l1]⟩
        · unfold SmallList.posOf at hd
          rw [if_neg haP] at hd
          simp only [Option.map_eq_some_iff] at hd
          obtain ⟨k, hk, _⟩ := hd
          obtain ⟨hkl, hkp, _⟩ := List.findIdx?_eq_some_iff_getElem.1 hk
          simp only [decide_eq_true_eq] at hkp
          have hmem1 : l.chunks[k] ∈ l1.chunks := by
            rw [hl1]; exact (hmem' _).mpr (Or.inl (List.getElem_mem hkl))
          obtain ⟨k', hk', e'⟩ := List.getElem_of_mem hmem1
          have := posOf_base l1 (by rw [hl1]; exact hsorted') (by rw [hl1]; exact hpo') k' l.chunks[k]
            (by rw [List.getElem?_eq_getElem hk', e'])
          rw [hkp] at this
          exact ⟨k' + 1, this⟩
      refine ⟨?_, cursor _ hS.ring.cursorD, cursor _ hS.ring.cursorA, ?_⟩
      · rw [sorted_iff]; show ChunksSorted l.ns (insertSorted l.chunks cs); rw [hnewchunks]; exact hsorted'
      · show ∀ c ∈ insertSorted l.chunks cs, _; rw [hnewchunks]; exact hpo'
    · -- chunks inside used blocks
      show ∀ c ∈ insertSorted l.chunks cs, _
      rw [hnewchunks]
      intro c hc
      rcases (hmem' c).mp hc with h1 | h1
      · obtain ⟨b, hbu, hi⟩ := hS.chunkIn c h1
        exact ⟨b, by simp [hbu], hi⟩
      · exact ⟨blk, by simp, hgin c h1⟩
    · -- live nodes stay on the grid
      intro ab hab
      obtain ⟨h1, y, hy, k, hk, e⟩ := hS.liveGrid ab hab
      refine ⟨h1, y, ?_, k, hk, e⟩
      show y ∈ insertSorted l.chunks cs
      rw [hnewchunks]; exact (hmem' y).mpr (Or.inl hy)
    · rw [hN]; exact chunks_cells_apart l.ns cs hgs
    · rw [hN]
      intro x hx
      obtain ⟨c, hc, hxc⟩ := List.mem_flatMap.mp hx
      have h1 := (c.allCells_spec l.ns).2 x hxc
      have h2 := hgin c hc
      omega

end MemVerif.Model
