import MemVerif.Model.PoolRun
import MemVerif.Lemmas.C01Cells
/-!
C01, invariant level: the inductive invariant `ListInv` (free cells + cells of live allocations are pairwise apart
and inside used blocks) and the four ways a pool changes it: a new block is cut into cells (`insert`), a run of
cells leaves the free list (`take`), a run comes back (`give`), the used-block list grows (`mono`).
-/
namespace MemVerif.Model

theorem implOff_eq : implOff = 16 := by decide

/-- two blocks do not overlap -/
def Blk.Disj (b c : Blk) : Prop := b.base + b.size ≤ c.base ∨ c.base + c.size ≤ b.base

theorem Blk.Disj.symm {b c : Blk} (h : b.Disj c) : c.Disj b := Or.symm h

instance (b c : Blk) : Decidable (b.Disj c) := by unfold Blk.Disj; exact inferInstance
instance (b : Blk) : Decidable b.Wf := by unfold Blk.Wf; exact inferInstance

/-- The environment's obligation (EnvOk) on a list of blocks: each is well formed (non-null, holds the arena's
header, below 2^62) and no two overlap. -/
def BlocksOk (used : List Blk) : Prop := (∀ b ∈ used, b.Wf) ∧ used.Pairwise Blk.Disj

instance (used : List Blk) : Decidable (BlocksOk used) := by unfold BlocksOk; exact inferInstance

theorem BlocksOk.suffix {u u' : List Blk} (h : BlocksOk u') (hs : u <:+ u') : BlocksOk u :=
  ⟨fun b hb => h.1 b (hs.subset hb), h.2.sublist hs.sublist⟩

theorem pairwise_mem_or {α} {R : α → α → Prop} (hR : ∀ {x y}, R x y → R y x) {l : List α} (h : l.Pairwise R)
    {x y : α} (hx : x ∈ l) (hy : y ∈ l) : x = y ∨ R x y := by
  induction l with
  | nil => cases hx
  | cons a l ih =>
    rw [List.pairwise_cons] at h
    rcases List.mem_cons.mp hx with rfl | hx' <;> rcases List.mem_cons.mp hy with rfl | hy'
    · exact Or.inl rfl
    · exact Or.inr (h.1 _ hy')
    · exact Or.inr (hR (h.1 _ hx'))
    · exact ih h.2 hx' hy'

/-- the byte range `[a, a + len)` lies in the usable part of the block (after the arena's header) -/
def InBlk (b : Blk) (a len : Nat) : Prop := b.base + implOff ≤ a ∧ a + len ≤ b.base + b.size

instance (b : Blk) (a len : Nat) : Decidable (InBlk b a len) := by unfold InBlk; exact inferInstance

/-- cells of the live allocations: `cellsOf ns bytes` consecutive cells from the allocation's address -/
def liveCells (ns : Nat) (live : List (Nat × Nat)) : List Nat :=
  live.flatMap fun ab => blockNodes ab.1 ns (cellsOf ns ab.2)

@[simp] theorem liveCells_nil (ns : Nat) : liveCells ns [] = [] := rfl
@[simp] theorem liveCells_cons (ns : Nat) (ab : Nat × Nat) (live : List (Nat × Nat)) :
    liveCells ns (ab :: live) = blockNodes ab.1 ns (cellsOf ns ab.2) ++ liveCells ns live := by
  simp [liveCells]

theorem liveCells_erase {ns : Nat} {live : List (Nat × Nat)} {i : Nat} {ab : Nat × Nat} (h : live[i]? = some ab) :
    (liveCells ns live).Perm (blockNodes ab.1 ns (cellsOf ns ab.2) ++ liveCells ns (live.eraseIdx i)) := by
  induction live generalizing i with
  | nil => simp at h
  | cons c live ih =>
    cases i with
    | zero =>
      simp only [List.getElem?_cons_zero, Option.some.injEq] at h
      subst h
      simp
    | succ i =>
      simp only [List.getElem?_cons_succ] at h
      simp only [liveCells_cons, List.eraseIdx_cons_succ]
      exact (List.Perm.append_left _ (ih h)).trans (List.perm_append_comm_assoc _ _ _)

/-- **The invariant** of an unordered free list `l` inside a pool whose arena uses `used`, with the caller holding
`live`. -/
structure ListInv (l : FreeList) (used : List Blk) (live : List (Nat × Nat)) : Prop where
  nsPos : 0 < l.ns
  cap : l.cap = l.nodes.length
  blocks : BlocksOk used
  /-- free cells and the cells of live allocations: no two overlap -/
  apart : (l.nodes ++ liveCells l.ns live).Pairwise (Apart l.ns)
  /-- every free cell lies in the usable part of a used block -/
  freeIn : ∀ x ∈ l.nodes, ∃ b ∈ used, InBlk b x l.ns
  /-- every live allocation lies, with all its cells, in the usable part of one used block -/
  liveIn : ∀ ab ∈ live, ∃ b ∈ used, InBlk b ab.1 (cellsOf l.ns ab.2 * l.ns)

/-- every cell the invariant talks about lies in a used block -/
theorem ListInv.cellIn {l : FreeList} {used : List Blk} {live : List (Nat × Nat)} (h : ListInv l used live)
    {y : Nat} (hy : y ∈ l.nodes ++ liveCells l.ns live) : ∃ b ∈ used, InBlk b y l.ns := by
  rcases List.mem_append.mp hy with hy | hy
  · exact h.freeIn y hy
  · obtain ⟨ab, hab, hy⟩ := List.mem_flatMap.mp hy
    obtain ⟨b, hb, h1, h2⟩ := h.liveIn ab hab
    have := blockNodes_bounds hy
    exact ⟨b, hb, by unfold InBlk; omega⟩

/-- the used-block list may grow -/
theorem ListInv.mono {l : FreeList} {used used' : List Blk} {live : List (Nat × Nat)} (h : ListInv l used live)
    (hb : BlocksOk used') (hsub : ∀ b ∈ used, b ∈ used') : ListInv l used' live :=
  { h with
    blocks := hb
    freeIn := fun x hx => let ⟨b, hb, hi⟩ := h.freeIn x hx; ⟨b, hsub b hb, hi⟩
    liveIn := fun ab hab => let ⟨b, hb, hi⟩ := h.liveIn ab hab; ⟨b, hsub b hb, hi⟩ }

/-- consecutive cells that each lie in some used block all lie in the *same* block: the arena's header separates
the cells of different blocks, so a run of address-consecutive cells never straddles two blocks -/
theorem run_in_block {used : List Blk} (hb : BlocksOk used) {ns f c : Nat} (hc : 0 < c)
    (h : ∀ x ∈ blockNodes f ns c, ∃ b ∈ used, InBlk b x ns) : ∃ b ∈ used, InBlk b f (c * ns) := by
  induction c with
  | zero => omega
  | succ c ih =>
    rcases Nat.eq_zero_or_pos c with hc0 | hc0
    · subst hc0
      obtain ⟨b, hbu, hi⟩ := h f (by simp [blockNodes])
      exact ⟨b, hbu, by simpa using hi⟩
    · rw [blockNodes_succ_append] at h
      obtain ⟨b, hbu, h1, h2⟩ := ih hc0 (fun x hx => h x (List.mem_append_left _ hx))
      obtain ⟨b', hbu', h1', h2'⟩ := h (f + c * ns) (by simp)
      have hpos : 1 * ns ≤ c * ns := Nat.mul_le_mul_right _ hc0
      have hw := hb.1 b hbu
      have hw' := hb.1 b' hbu'
      unfold Blk.Wf at hw hw'
      rw [implOff_eq] at *
      rcases pairwise_mem_or Blk.Disj.symm hb.2 hbu hbu' with rfl | hd
      · exact ⟨b, hbu, by unfold InBlk; rw [Nat.add_mul, implOff_eq]; omega⟩
      · unfold Blk.Disj at hd
        omega

theorem perm_take {α} (A B R C : List α) : (A ++ B ++ (R ++ C)).Perm (A ++ R ++ B ++ C) := by
  rw [List.append_assoc, List.append_assoc, List.append_assoc]
  exact List.Perm.append_left A (List.perm_append_comm_assoc B R C)

/-- A run of `cellsOf ns bytes` consecutive cells at `f` leaves the free list and becomes the live allocation
`(f, bytes)` (one cell: `allocate()`; several: `allocate(n)`). -/
theorem ListInv.take {l l' : FreeList} {used : List Blk} {live : List (Nat × Nat)} (h : ListInv l used live)
    {A B : List Nat} {f bytes : Nat} (hn : l.nodes = A ++ blockNodes f l.ns (cellsOf l.ns bytes) ++ B)
    (hns : l'.ns = l.ns) (hnodes : l'.nodes = A ++ B) (hcap : l'.cap = l.cap - cellsOf l.ns bytes) :
    ListInv l' used ((f, bytes) :: live) := by
  have hpos := cellsOf_pos l.ns bytes h.nsPos
  refine ⟨hns ▸ h.nsPos, ?_, h.blocks, ?_, ?_, ?_⟩
  · rw [hcap, hnodes, h.cap, hn]; simp; omega
  · rw [hns, hnodes, liveCells_cons]
    have := h.apart
    rw [hn] at this
    exact (List.Perm.pairwise_iff Apart.symm (perm_take _ _ _ _)).mpr this
  · intro x hx
    rw [hns]
    apply h.freeIn
    rw [hn]; rw [hnodes] at hx
    rcases List.mem_append.mp hx with hx | hx <;> simp [hx]
  · intro ab hab
    rw [hns]
    rcases List.mem_cons.mp hab with rfl | hab
    · apply run_in_block h.blocks hpos
      intro x hx
      apply h.freeIn
      rw [hn]; simp [hx]
    · exact h.liveIn ab hab

/-- The `i`-th live allocation `(a, b)` goes back: its `cellsOf ns b` cells are pushed on the free list
(one cell: `deallocate(ptr)`; several: `deallocate(ptr, n)`, which re-inserts `ceilNodes n ns` cells). -/
theorem ListInv.give {l l' : FreeList} {used : List Blk} {live : List (Nat × Nat)} (h : ListInv l used live)
    {i a b : Nat} (hi : live[i]? = some (a, b)) (hns : l'.ns = l.ns)
    (hnodes : l'.nodes = blockNodes a l.ns (cellsOf l.ns b) ++ l.nodes) (hcap : l'.cap = l.cap + cellsOf l.ns b) :
    ListInv l' used (live.eraseIdx i) := by
  have hmem : (a, b) ∈ live := List.mem_of_getElem? hi
  refine ⟨hns ▸ h.nsPos, ?_, h.blocks, ?_, ?_, ?_⟩
  · rw [hcap, hnodes, h.cap]; simp; omega
  · rw [hns, hnodes]
    have p1 : (blockNodes a l.ns (cellsOf l.ns b) ++ l.nodes ++ liveCells l.ns (live.eraseIdx i)).Perm
        (l.nodes ++ liveCells l.ns live) := by
      rw [List.append_assoc]
      exact (List.perm_append_comm_assoc _ _ _).trans (List.Perm.append_left _ (liveCells_erase hi).symm)
    exact (List.Perm.pairwise_iff Apart.symm p1).mpr h.apart
  · intro x hx
    rw [hns]
    rw [hnodes] at hx
    rcases List.mem_append.mp hx with hx | hx
    · obtain ⟨blk, hblk, h1, h2⟩ := h.liveIn (a, b) hmem
      have := blockNodes_bounds hx
      exact ⟨blk, hblk, by unfold InBlk; simp only at h1 h2; omega⟩
    · exact h.freeIn x hx
  · intro ab hab
    rw [hns]
    exact h.liveIn ab ((List.eraseIdx_sublist live i).subset hab)

/-- A new block `b` (disjoint from the blocks in use) is pushed and its usable part is cut into cells. -/
theorem ListInv.insert {l l' : FreeList} {used : List Blk} {live : List (Nat × Nat)} (h : ListInv l used live)
    {b : Blk} (hb : BlocksOk (b :: used)) (hins : l.insert b.usable.base b.usable.size = some l') :
    ListInv l' (b :: used) live ∧ l'.ns = l.ns := by
  unfold FreeList.insert FreeList.insertImpl at hins
  simp only at hins
  split at hins
  · simp at hins
  · simp only [Option.some.injEq] at hins
    subst hins
    refine ⟨⟨h.nsPos, ?_, hb, ?_, ?_, ?_⟩, rfl⟩
    · simp [h.cap]; omega
    · show ((blockNodes _ _ _ ++ l.nodes) ++ liveCells l.ns live).Pairwise (Apart l.ns)
      rw [List.append_assoc, List.pairwise_append]
      refine ⟨blockNodes_pairwise _ _ _, h.apart, ?_⟩
      intro x hx y hy
      obtain ⟨c, hc, hy1, hy2⟩ := h.cellIn hy
      have hx' := blockNodes_bounds hx
      have hdiv := Nat.div_mul_le_self b.usable.size l.ns
      have hd : b.Disj c := (List.pairwise_cons.mp hb.2).1 c hc
      have hw := hb.1 b (by simp)
      have hw' := hb.1 c (by simp [hc])
      unfold Blk.Wf at hw hw'
      unfold Blk.Disj at hd
      unfold Blk.usable at hx' hdiv
      simp only at hx' hdiv
      rw [implOff_eq] at *
      unfold Apart
      omega
    · intro x hx
      show ∃ c ∈ b :: used, InBlk c x l.ns
      rcases List.mem_append.mp hx with hx | hx
      · have hx' := blockNodes_bounds hx
        have hdiv := Nat.div_mul_le_self b.usable.size l.ns
        have hw := hb.1 b (by simp)
        unfold Blk.Wf at hw
        unfold Blk.usable at hx' hdiv
        simp only at hx' hdiv
        refine ⟨b, by simp, ?_⟩
        unfold InBlk
        rw [implOff_eq] at *
        omega
      · obtain ⟨c, hc, hi⟩ := h.freeIn x hx
        exact ⟨c, by simp [hc], hi⟩
    · intro ab hab
      obtain ⟨c, hc, hi⟩ := h.liveIn ab hab
      exact ⟨c, by simp [hc], hi⟩

/-! ### the list operations -/

theorem FreeList.allocate_inv {l l' : FreeList} {used : List Blk} {live : List (Nat × Nat)} (h : ListInv l used live)
    {x bytes : Nat} (hb : bytes ≤ l.ns) (ha : l.allocate = some (l', x)) :
    ListInv l' used ((x, bytes) :: live) ∧ l'.ns = l.ns := by
  unfold FreeList.allocate at ha
  split at ha
  · simp at ha
  · rename_i y ys hn
    simp only [Option.some.injEq, Prod.mk.injEq] at ha
    obtain ⟨rfl, rfl⟩ := ha
    have hc : cellsOf l.ns bytes = 1 := by simp [cellsOf, hb]
    refine ⟨h.take (A := []) (B := ys) (f := y) (bytes := bytes) ?_ rfl rfl ?_, rfl⟩
    · rw [hc, hn]; rfl
    · rw [hc]

/-- `allocate(n)` that returns an address: the allocation `(x, n)` becomes live -/
theorem FreeList.allocateBytes_inv {l l' : FreeList} {used : List Blk} {live : List (Nat × Nat)}
    (h : ListInv l used live) {x n : Nat} (ha : l.allocateBytes n = some (l', some x)) :
    ListInv l' used ((x, n) :: live) ∧ l'.ns = l.ns := by
  unfold FreeList.allocateBytes at ha
  split at ha
  · rename_i hle
    cases hal : l.allocate with
    | none => simp [hal] at ha
    | some r =>
      obtain ⟨l1, y⟩ := r
      simp only [hal, Option.map_some, Option.some.injEq, Prod.mk.injEq] at ha
      obtain ⟨rfl, rfl⟩ := ha
      exact FreeList.allocate_inv h hle hal
  · rename_i hgt
    split at ha
    · simp at ha
    · split at ha
      · simp at ha
      · rename_i start len hs
        obtain ⟨A, f, B, hn, hA, hL, h2⟩ := searchArray_spec h.nsPos (by omega) hs
        have hsp := split_run (A := A) (B := B) (f := f) (ns := l.ns) (L := len) (by omega)
        rw [← hn, hA] at hsp
        simp only [Option.some.injEq, Prod.mk.injEq] at ha
        obtain ⟨rfl, hx⟩ := ha
        rw [hsp.2.2] at hx
        simp only [Option.some.injEq] at hx
        subst hx
        have hc : cellsOf l.ns n = len := by simp [cellsOf, hgt, hL]
        refine ⟨h.take (A := A) (B := B) (f := f) (bytes := n) (by rw [hc]; exact hn) rfl ?_ (by rw [hc]), rfl⟩
        show l.nodes.take start ++ l.nodes.drop (start + len) = A ++ B
        rw [hsp.1, hsp.2.1]

theorem FreeList.deallocateBytes_inv {l : FreeList} {used : List Blk} {live : List (Nat × Nat)}
    (h : ListInv l used live) {i a b : Nat} (hi : live[i]? = some (a, b)) (hb : l.ns < b) :
    ∃ l', l.deallocateBytes a b = some l' ∧ ListInv l' used (live.eraseIdx i) ∧ l'.ns = l.ns := by
  have hc : cellsOf l.ns b = ceilNodes b l.ns := by simp [cellsOf]; omega
  have hpos := cellsOf_pos l.ns b h.nsPos
  have hk : ceilNodes b l.ns * l.ns / l.ns = ceilNodes b l.ns := Nat.mul_div_cancel _ h.nsPos
  unfold FreeList.deallocateBytes FreeList.insertImpl
  rw [if_neg (by omega)]
  simp only [hk]
  rw [if_neg (by omega)]
  refine ⟨_, rfl, h.give hi rfl (by rw [hc]) (by rw [hc]), rfl⟩

theorem FreeList.deallocate_inv {l : FreeList} {used : List Blk} {live : List (Nat × Nat)}
    (h : ListInv l used live) {i a b : Nat} (hi : live[i]? = some (a, b)) (hb : b ≤ l.ns) :
    ListInv (l.deallocate a) used (live.eraseIdx i) := by
  have hc : cellsOf l.ns b = 1 := by simp [cellsOf, hb]
  exact h.give hi rfl (by rw [hc]; rfl) (by rw [hc]; rfl)

end MemVerif.Model
