import MemVerif.Lemmas.C01Inv
/-!
C01, generic cell level: the partition invariant `CellInv` over an arbitrary list of free cells — independent of the
list implementation and of the *order* of the cells (`CellInv.perm`) — and the ways a pool changes it:
`take` (a run of cells leaves the free cells and becomes a live allocation), `give` (the cells of a live allocation
come back, anywhere in the list), `insertCells` (a new block contributes cells), `mono` (the used-block list grows).
The three free lists instantiate it with their own notion of "free cells" (`AnyList.cells`).
-/
namespace MemVerif.Model

/-- **The partition invariant** over the free cells `cells` (cell size `ns`) of a pool whose arena uses `used`, with
the caller holding `live`. -/
structure CellInv (ns : Nat) (cells : List Nat) (used : List Blk) (live : List (Nat × Nat)) : Prop where
  nsPos : 0 < ns
  blocks : BlocksOk used
  /-- free cells and the cells of live allocations: no two overlap -/
  apart : (cells ++ liveCells ns live).Pairwise (Apart ns)
  /-- every free cell lies in the usable part of a used block -/
  freeIn : ∀ x ∈ cells, ∃ b ∈ used, InBlk b x ns
  /-- every live allocation lies, with all its cells, in the usable part of one used block -/
  liveIn : ∀ ab ∈ live, ∃ b ∈ used, InBlk b ab.1 (cellsOf ns ab.2 * ns)

theorem ListInv.toCell {l : FreeList} {used : List Blk} {live : List (Nat × Nat)} (h : ListInv l used live) :
    CellInv l.ns l.nodes used live :=
  ⟨h.nsPos, h.blocks, h.apart, h.freeIn, h.liveIn⟩

theorem CellInv.toList {l : FreeList} {used : List Blk} {live : List (Nat × Nat)}
    (h : CellInv l.ns l.nodes used live) (hc : l.cap = l.nodes.length) : ListInv l used live :=
  ⟨h.nsPos, hc, h.blocks, h.apart, h.freeIn, h.liveIn⟩

namespace CellInv
variable {ns : Nat} {cells cells' : List Nat} {used used' : List Blk} {live : List (Nat × Nat)}

/-- the invariant does not depend on the order of the free cells -/
theorem perm (h : CellInv ns cells used live) (hp : cells'.Perm cells) : CellInv ns cells' used live :=
  { h with
    apart := (List.Perm.pairwise_iff Apart.symm (List.Perm.append_right _ hp)).mpr h.apart
    freeIn := fun x hx => h.freeIn x (hp.subset hx) }

theorem cellIn (h : CellInv ns cells used live) {y : Nat} (hy : y ∈ cells ++ liveCells ns live) :
    ∃ b ∈ used, InBlk b y ns := by
  rcases List.mem_append.mp hy with hy | hy
  · exact h.freeIn y hy
  · obtain ⟨ab, hab, hy⟩ := List.mem_flatMap.mp hy
    obtain ⟨b, hb, h1, h2⟩ := h.liveIn ab hab
    have := blockNodes_bounds hy
    exact ⟨b, hb, by unfold InBlk; omega⟩

theorem mono (h : CellInv ns cells used live) (hb : BlocksOk used') (hsub : ∀ b ∈ used, b ∈ used') :
    CellInv ns cells used' live :=
  { h with
    blocks := hb
    freeIn := fun x hx => let ⟨b, hb, hi⟩ := h.freeIn x hx; ⟨b, hsub b hb, hi⟩
    liveIn := fun ab hab => let ⟨b, hb, hi⟩ := h.liveIn ab hab; ⟨b, hsub b hb, hi⟩ }

/-- a run of `cellsOf ns bytes` consecutive free cells at `f` becomes the live allocation `(f, bytes)` -/
theorem take (h : CellInv ns cells used live) {A B : List Nat} {f bytes : Nat}
    (hn : cells = A ++ blockNodes f ns (cellsOf ns bytes) ++ B) (hn' : cells' = A ++ B) :
    CellInv ns cells' used ((f, bytes) :: live) := by
  have hpos := cellsOf_pos ns bytes h.nsPos
  refine ⟨h.nsPos, h.blocks, ?_, ?_, ?_⟩
  · rw [hn', liveCells_cons]
    have := h.apart
    rw [hn] at this
    exact (List.Perm.pairwise_iff Apart.symm (perm_take _ _ _ _)).mpr this
  · intro x hx
    apply h.freeIn
    rw [hn]; rw [hn'] at hx
    rcases List.mem_append.mp hx with hx | hx <;> simp [hx]
  · intro ab hab
    rcases List.mem_cons.mp hab with rfl | hab
    · apply run_in_block h.blocks hpos
      intro x hx
      apply h.freeIn
      rw [hn]; simp [hx]
    · exact h.liveIn ab hab

/-- the `i`-th live allocation `(a, b)` goes back: its cells join the free cells (in any order/position) -/
theorem give (h : CellInv ns cells used live) {i a b : Nat} (hi : live[i]? = some (a, b))
    (hn' : cells'.Perm (blockNodes a ns (cellsOf ns b) ++ cells)) :
    CellInv ns cells' used (live.eraseIdx i) := by
  have hmem : (a, b) ∈ live := List.mem_of_getElem? hi
  refine CellInv.perm (cells := blockNodes a ns (cellsOf ns b) ++ cells) ⟨h.nsPos, h.blocks, ?_, ?_, ?_⟩ hn'
  · have p1 : (blockNodes a ns (cellsOf ns b) ++ cells ++ liveCells ns (live.eraseIdx i)).Perm
        (cells ++ liveCells ns live) := by
      rw [List.append_assoc]
      exact (List.perm_append_comm_assoc _ _ _).trans (List.Perm.append_left _ (liveCells_erase hi).symm)
    exact (List.Perm.pairwise_iff Apart.symm p1).mpr h.apart
  · intro x hx
    rcases List.mem_append.mp hx with hx | hx
    · obtain ⟨blk, hblk, h1, h2⟩ := h.liveIn (a, b) hmem
      have := blockNodes_bounds hx
      exact ⟨blk, hblk, by unfold InBlk; simp only at h1 h2; omega⟩
    · exact h.freeIn x hx
  · intro ab hab
    exact h.liveIn ab ((List.eraseIdx_sublist live i).subset hab)

/-- a new block `b` (disjoint from the blocks in use) is pushed and contributes the cells `N`, which are pairwise
apart and lie inside the block's usable part -/
theorem insertCells (h : CellInv ns cells used live) {b : Blk} (hb : BlocksOk (b :: used)) {N : List Nat}
    (hN : N.Pairwise (Apart ns)) (hin : ∀ x ∈ N, b.usable.base ≤ x ∧ x + ns ≤ b.usable.base + b.usable.size)
    (hn' : cells'.Perm (N ++ cells)) : CellInv ns cells' (b :: used) live := by
  have hw := hb.1 b (by simp)
  unfold Blk.Wf at hw
  have hinB : ∀ x ∈ N, InBlk b x ns := by
    intro x hx
    have := hin x hx
    unfold Blk.usable at this
    simp only at this
    unfold InBlk
    omega
  refine CellInv.perm (cells := N ++ cells) ⟨h.nsPos, hb, ?_, ?_, ?_⟩ hn'
  · rw [List.append_assoc, List.pairwise_append]
    refine ⟨hN, h.apart, ?_⟩
    intro x hx y hy
    obtain ⟨c, hc, hy1, hy2⟩ := h.cellIn hy
    obtain ⟨hx1, hx2⟩ := hinB x hx
    have hd : b.Disj c := (List.pairwise_cons.mp hb.2).1 c hc
    have hw' := hb.1 c (by simp [hc])
    unfold Blk.Wf at hw'
    unfold Blk.Disj at hd
    rw [implOff_eq] at *
    unfold Apart
    omega
  · intro x hx
    rcases List.mem_append.mp hx with hx | hx
    · exact ⟨b, by simp, hinB x hx⟩
    · obtain ⟨c, hc, hi⟩ := h.freeIn x hx
      exact ⟨c, by simp [hc], hi⟩
  · intro ab hab
    obtain ⟨c, hc, hi⟩ := h.liveIn ab hab
    exact ⟨c, by simp [hc], hi⟩

/-- cells cut from a byte range `[mem, mem + size)` inside the usable part of a block -/
theorem blockNodes_in {b : Blk} {mem size ns : Nat} (h1 : b.usable.base ≤ mem)
    (h2 : mem + size ≤ b.usable.base + b.usable.size) :
    ∀ x ∈ blockNodes mem ns (size / ns), b.usable.base ≤ x ∧ x + ns ≤ b.usable.base + b.usable.size := by
  intro x hx
  have hx' := blockNodes_bounds hx
  have hdiv := Nat.div_mul_le_self size ns
  omega

/-! ### what the invariant says about bytes -/

/-- live byte ranges are pairwise disjoint -/
theorem live_disjoint (h : CellInv ns cells used live) :
    live.Pairwise fun r s => r.1 + r.2 ≤ s.1 ∨ s.1 + s.2 ≤ r.1 := by
  have h1 := (List.pairwise_append.mp h.apart).2.1
  unfold liveCells at h1
  have h2 := (List.pairwise_flatMap.mp h1).2
  refine h2.imp ?_
  intro r s hrs
  have := apart_runs h.nsPos (cellsOf_pos ns r.2 h.nsPos) (cellsOf_pos ns s.2 h.nsPos) hrs
  have hr := le_cellsOf_mul ns r.2 h.nsPos
  have hs := le_cellsOf_mul ns s.2 h.nsPos
  omega

/-- every live byte range lies in the usable part of one used block -/
theorem live_inside (h : CellInv ns cells used live) :
    ∀ r ∈ live, ∃ b ∈ used, b.usable.base ≤ r.1 ∧ r.1 + r.2 ≤ b.usable.base + b.usable.size := by
  intro r hr
  obtain ⟨b, hb, h1, h2⟩ := h.liveIn r hr
  have hw := h.blocks.1 b hb
  have := le_cellsOf_mul ns r.2 h.nsPos
  unfold Blk.Wf at hw
  refine ⟨b, hb, ?_⟩
  unfold Blk.usable
  simp only
  omega

/-- frame: a free cell overlaps no live byte range -/
theorem frame (h : CellInv ns cells used live) : ∀ x ∈ cells, ∀ r ∈ live, x + ns ≤ r.1 ∨ r.1 + r.2 ≤ x := by
  intro x hx r hr
  have h1 := (List.pairwise_append.mp h.apart).2.2 x hx
  have := apart_run (cellsOf_pos ns r.2 h.nsPos) (fun y hy => h1 y (List.mem_flatMap.mpr ⟨r, hr, hy⟩))
  have hr := le_cellsOf_mul ns r.2 h.nsPos
  omega

/-- free cells are pairwise disjoint and inside used blocks too -/
theorem free_cells (h : CellInv ns cells used live) :
    cells.Pairwise (Apart ns) ∧
      ∀ x ∈ cells, ∃ b ∈ used, b.usable.base ≤ x ∧ x + ns ≤ b.usable.base + b.usable.size := by
  refine ⟨(List.pairwise_append.mp h.apart).1, ?_⟩
  intro x hx
  obtain ⟨b, hb, h1, h2⟩ := h.freeIn x hx
  have hw := h.blocks.1 b hb
  unfold Blk.Wf at hw
  refine ⟨b, hb, ?_⟩
  unfold Blk.usable
  simp only
  omega

/-- the cells of a live allocation are apart from every free cell; its whole range lies beside each of them -/
theorem live_apart (h : CellInv ns cells used live) {a b : Nat} (hab : (a, b) ∈ live) :
    ∀ x ∈ cells, x + ns ≤ a ∨ a + cellsOf ns b * ns ≤ x := by
  intro x hx
  have h1 := (List.pairwise_append.mp h.apart).2.2 x hx
  exact apart_run (cellsOf_pos ns b h.nsPos) (fun y hy => h1 y (List.mem_flatMap.mpr ⟨(a, b), hab, hy⟩))

end CellInv
end MemVerif.Model
