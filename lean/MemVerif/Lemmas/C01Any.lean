import MemVerif.Lemmas.C01Ord
import MemVerif.Lemmas.C01Small
import MemVerif.Model.Pool
/-!
C01, list-implementation level: a uniform specification of the five list operations a pool uses
(`allocate`, `allocate(n)`, `deallocate`, `deallocate(ptr, n)`, `insert`) for all three free lists
(`free_memory_list`, `ordered_free_memory_list`, `small_free_memory_list`), in terms of
* `AnyList.cells` — the free cells of the list, in list order,
* `AnyList.SInv` — the list's own structural invariant (`capacity = length`; `OrdList.Inv`; `SmallOk`, which also
  ties the chunks to the used blocks and the live nodes to the chunk grid),
* `AnyList.blockCells` — the cells a new block is cut into,
* `AnyList.obj` — the proxy words of an ordered / small list (they live inside the pool object, not in a block).
-/
namespace MemVerif.Model
open MemVerif.Gen

namespace AnyList

/-- free cells, in list order -/
def cells : AnyList → List Nat
  | .free l => l.nodes
  | .ord l => l.nodes
  | .small l => l.cells

/-- which list implementation a pool uses, with the address of the list object's proxy words (`[B, B + 16)`: the ordered
list's two proxy nodes, the small list's proxy chunk header); the unordered list has none -/
inductive ListObj
  | unordered
  | ordered (B : Nat)
  | small (P : Nat)
deriving Repr, DecidableEq

def ListObj.addr : ListObj → Option Nat
  | .unordered => none
  | .ordered B => some B
  | .small P => some P

def obj : AnyList → ListObj
  | .ord l => .ordered l.B
  | .small l => .small l.P
  | .free _ => .unordered

/-- structural invariant of the list itself, inside a pool that uses `used`, with the caller holding `live` -/
def SInv (used : List Blk) (live : List (Nat × Nat)) : AnyList → Prop
  | .free l => l.cap = l.nodes.length
  | .ord l => l.Inv
  | .small l => SmallOk l used live

theorem SInv.mono {l : AnyList} {used used' : List Blk} {live : List (Nat × Nat)} (h : l.SInv used live)
    (hsub : ∀ b ∈ used, b ∈ used') : l.SInv used' live := by
  cases l with
  | free fl => exact h
  | ord ol => exact h
  | small sl => exact SmallOk.mono h hsub

/-- the cells a new block is cut into by `insert` -/
def blockCells (l : AnyList) (b : Blk) : List Nat :=
  match l with
  | .small sl => smallBlockCells sl.ns b
  | .free fl => blockNodes b.usable.base fl.ns (b.usable.size / fl.ns)
  | .ord ol => blockNodes b.usable.base ol.ns (b.usable.size / ol.ns)

/-- a byte range lies outside the list object's proxy words -/
def OutObj (o : ListObj) (a len : Nat) : Prop :=
  match o.addr with
  | none => True
  | some B => a + len ≤ B ∨ B + 16 ≤ a

theorem OutObj.ord {l : OrdList} (hI : l.Inv) {m k : Nat} (h : OutObj (.ordered l.B) m (k * l.ns)) : RunOut l m k := by
  have := hI.proxies
  unfold OutObj ListObj.addr at h
  unfold RunOut
  omega

/-- a run that is apart from all free cells -/
def CellsApart (l : AnyList) (m k : Nat) : Prop := ∀ y ∈ l.cells, y + l.nodeSize ≤ m ∨ m + k * l.nodeSize ≤ y

/-- what every operation keeps -/
structure Same (l l' : AnyList) : Prop where
  ns : l'.nodeSize = l.nodeSize
  obj : l'.obj = l.obj
  blk : ∀ b, l'.blockCells b = l.blockCells b

theorem Same.refl (l : AnyList) : Same l l := ⟨rfl, rfl, fun _ => rfl⟩

/-- the cells of a block: pairwise apart, inside the block's usable part -/
theorem blockCells_spec (l : AnyList) (hpos : 0 < l.nodeSize) (b : Blk) :
    (l.blockCells b).Pairwise (Apart l.nodeSize) ∧
      ∀ x ∈ l.blockCells b, b.usable.base ≤ x ∧ x + l.nodeSize ≤ b.usable.base + b.usable.size := by
  cases l with
  | free fl => exact ⟨blockNodes_pairwise _ _ _, CellInv.blockNodes_in (Nat.le_refl _) (Nat.le_refl _)⟩
  | ord ol => exact ⟨blockNodes_pairwise _ _ _, CellInv.blockNodes_in (Nat.le_refl _) (Nat.le_refl _)⟩
  | small sl =>
    simp only [blockCells, nodeSize]
    obtain ⟨hgs, hgin, _⟩ := smallInsertChunks_geo sl.ns b.usable.base b.usable.size
    refine ⟨chunks_cells_apart sl.ns _ hgs, ?_⟩
    intro x hx
    unfold smallBlockCells at hx
    obtain ⟨c, hc, hxc⟩ := List.mem_flatMap.mp hx
    have h1 := (c.allCells_spec sl.ns).2 x hxc
    have h2 := hgin c hc
    omega

/-- `allocate()` -/
theorem allocate_spec {l l' : AnyList} {used : List Blk} {live : List (Nat × Nat)} {x bytes : Nat}
    (hS : l.SInv used live) (hb : bytes ≤ l.nodeSize) (h : l.allocate = some (l', x)) :
    ∃ A B, l.cells = A ++ [x] ++ B ∧ l'.cells = A ++ B ∧ Same l l' ∧ l'.SInv used ((x, bytes) :: live) := by
  cases l with
  | free fl =>
    simp only [allocate] at h
    cases hal : fl.allocate with
    | none => simp [hal] at h
    | some r =>
      obtain ⟨fl', y⟩ := r
      simp only [hal, Option.map_some, Option.some.injEq, Prod.mk.injEq] at h
      obtain ⟨rfl, rfl⟩ := h
      unfold FreeList.allocate at hal
      split at hal
      · simp at hal
      · rename_i z zs hn
        simp only [Option.some.injEq, Prod.mk.injEq] at hal
        obtain ⟨rfl, rfl⟩ := hal
        refine ⟨[], zs, by simpa [cells] using hn, rfl, ⟨rfl, rfl, fun _ => rfl⟩, ?_⟩
        simp only [SInv] at hS ⊢
        rw [hS, hn]; rfl
  | ord ol =>
    simp only [allocate] at h
    cases hal : ol.allocate with
    | none => simp [hal] at h
    | some r =>
      obtain ⟨ol', y⟩ := r
      simp only [hal, Option.map_some, Option.some.injEq, Prod.mk.injEq] at h
      obtain ⟨rfl, rfl⟩ := h
      obtain ⟨xs, h1, h2, h3, h4, h5, _⟩ := OrdList.allocate_run ol ol' hS y hal
      exact ⟨[], xs, by simpa [cells] using h1, h2, ⟨h4, by simp [obj, h5], fun b => by simp [blockCells, h4]⟩, h3⟩
  | small sl =>
    simp only [allocate] at h
    cases hal : sl.allocate with
    | none => simp [hal] at h
    | some r =>
      obtain ⟨sl', y⟩ := r
      simp only [hal, Option.map_some, Option.some.injEq, Prod.mk.injEq] at h
      obtain ⟨rfl, rfl⟩ := h
      obtain ⟨A, B, h1, h2, h3, h4, h5⟩ := SmallList.allocate_spec (bytes := bytes) hS hb hal
      exact ⟨A, B, h1, h2, ⟨h3, by simp [obj, h4], fun b => by simp [blockCells, h3]⟩, h5⟩

/-- `allocate(n)` returning an address: a run of `cellsOf ns n` cells starting at the returned address leaves -/
theorem allocateBytes_spec {l l' : AnyList} {used : List Blk} {live : List (Nat × Nat)} {x n : Nat}
    (hS : l.SInv used live) (hpos : 0 < l.nodeSize) (h : l.allocateBytes n = some (l', some x)) :
    ∃ A B, l.cells = A ++ blockNodes x l.nodeSize (cellsOf l.nodeSize n) ++ B ∧ l'.cells = A ++ B ∧ Same l l' ∧
      l'.SInv used ((x, n) :: live) := by
  by_cases hle : n ≤ l.nodeSize
  · -- node-sized: same as `allocate()`
    have hc : cellsOf l.nodeSize n = 1 := by simp [cellsOf, hle]
    have hal : l.allocate = some (l', x) := by
      cases l with
      | free fl =>
        simp only [allocateBytes, FreeList.allocateBytes, nodeSize] at h hle
        rw [if_pos hle] at h
        simp only [allocate]
        cases hal : fl.allocate with
        | none => simp [hal] at h
        | some r =>
          obtain ⟨fl', y⟩ := r
          simp only [hal, Option.map_some, Option.some.injEq, Prod.mk.injEq] at h ⊢
          obtain ⟨rfl, h2⟩ := h
          exact ⟨rfl, h2⟩
      | ord ol =>
        simp only [allocateBytes, OrdList.allocateBytes, nodeSize] at h hle
        rw [if_pos hle] at h
        simp only [allocate]
        cases hal : ol.allocate with
        | none => simp [hal] at h
        | some r =>
          obtain ⟨ol', y⟩ := r
          simp only [hal, Option.map_some, Option.some.injEq, Prod.mk.injEq] at h ⊢
          obtain ⟨rfl, h2⟩ := h
          exact ⟨rfl, h2⟩
      | small sl => simp [allocateBytes] at h
    obtain ⟨A, B, h1, h2, h3, h4⟩ := allocate_spec (bytes := n) hS hle hal
    exact ⟨A, B, by rw [hc, blockNodes_one, h1], h2, h3, h4⟩
  · have hgt : l.nodeSize < n := by omega
    have hc : cellsOf l.nodeSize n = ceilNodes n l.nodeSize := by simp [cellsOf, hle]
    rw [hc]
    cases l with
    | free fl =>
      simp only [nodeSize] at hgt hpos ⊢
      simp only [allocateBytes] at h
      cases hal : fl.allocateBytes n with
      | none => simp [hal] at h
      | some r =>
        obtain ⟨fl', y⟩ := r
        simp only [hal, Option.map_some, Option.some.injEq, Prod.mk.injEq] at h
        obtain ⟨rfl, rfl⟩ := h
        unfold FreeList.allocateBytes at hal
        rw [if_neg (by omega)] at hal
        split at hal
        · simp at hal
        · split at hal
          · simp at hal
          · rename_i start len hs
            obtain ⟨A, f, B, hn, hA, hL, h2⟩ := searchArray_spec hpos hgt hs
            have hsp := split_run (A := A) (B := B) (f := f) (ns := fl.ns) (L := len) (by omega)
            rw [← hn, hA] at hsp
            simp only [Option.some.injEq, Prod.mk.injEq] at hal
            obtain ⟨rfl, hx⟩ := hal
            rw [hsp.2.2] at hx
            simp only [Option.some.injEq] at hx
            subst hx
            refine ⟨A, B, by rw [← hL]; exact hn, ?_, ⟨rfl, rfl, fun _ => rfl⟩, ?_⟩
            · show fl.nodes.take start ++ fl.nodes.drop (start + len) = A ++ B
              rw [hsp.1, hsp.2.1]
            · simp only [SInv] at hS ⊢
              rw [hS, hsp.1, hsp.2.1, hn]
              simp only [List.length_append, blockNodes_length]
              omega
    | ord ol =>
      simp only [nodeSize] at hgt hpos ⊢
      simp only [allocateBytes] at h
      cases hal : ol.allocateBytes n with
      | none => simp [hal] at h
      | some r =>
        obtain ⟨ol', y⟩ := r
        simp only [hal, Option.map_some, Option.some.injEq, Prod.mk.injEq] at h
        obtain ⟨rfl, rfl⟩ := h
        obtain ⟨A, B, h1, h2, h3, h4, h5, _⟩ := OrdList.allocateBytes_run ol ol' hS n x hgt hal
        exact ⟨A, B, h1, h2, ⟨h4, by simp [obj, h5], fun b => by simp [blockCells, h4]⟩, h3⟩
    | small sl => simp [allocateBytes] at h

/-- `deallocate(ptr)` of the `i`-th live allocation (a node), which is apart from the free cells and outside the list
object -/
theorem deallocate_spec (cfg : Cfg) {l : AnyList} {used : List Blk} {live : List (Nat × Nat)} {i p b : Nat}
    (hS : l.SInv used live) (hi : live[i]? = some (p, b)) (hap : l.CellsApart p 1)
    (hout : OutObj l.obj p l.nodeSize) (hp0 : 0 < p) :
    ∃ l', l.deallocate cfg p = .ok l' ∧ l'.cells.Perm (p :: l.cells) ∧ Same l l' ∧ l'.SInv used (live.eraseIdx i) := by
  cases l with
  | free fl =>
    refine ⟨.free (fl.deallocate p), rfl, List.Perm.refl _, ⟨rfl, rfl, fun _ => rfl⟩, ?_⟩
    simp only [SInv] at hS ⊢
    simp [FreeList.deallocate, hS]
  | ord ol =>
    simp only [SInv] at hS
    have hrun : RunApart ol p 1 := hap
    have hout' : RunOut ol p 1 := OutObj.ord hS (by simpa [obj, nodeSize] using hout)
    obtain ⟨l', h1, h2, h3, h4, _, h6⟩ := OrdList.deallocate_run cfg ol hS p hrun hout' hp0
    exact ⟨.ord l', by simp [deallocate, h1], h6, ⟨h3, by simp [obj, h4], fun b => by simp [blockCells, h3]⟩, h2⟩
  | small sl =>
    simp only [SInv] at hS
    have hap' : ∀ y ∈ sl.cells, y + sl.ns ≤ p ∨ p + sl.ns ≤ y := by
      intro y hy
      have := hap y hy
      simpa [nodeSize] using this
    obtain ⟨l', h1, h2, h3, h4, h5⟩ := SmallList.deallocate_spec cfg hS hi hap'
    exact ⟨.small l', by simp [deallocate, h1], h2, ⟨h3, by simp [obj, h4], fun b => by simp [blockCells, h3]⟩, h5⟩

/-- `deallocate(ptr, n)`, `n > node_size`, of the `i`-th live allocation (an array) -/
theorem deallocateBytes_spec (cfg : Cfg) {l : AnyList} {used : List Blk} {live : List (Nat × Nat)} {i p n : Nat}
    (hS : l.SInv used live) (hi : live[i]? = some (p, n)) (hpos : 0 < l.nodeSize)
    (hn : l.nodeSize < n) (hap : l.CellsApart p (ceilNodes n l.nodeSize))
    (hout : OutObj l.obj p (ceilNodes n l.nodeSize * l.nodeSize)) (hp0 : 0 < p) :
    ∃ l', l.deallocateBytes cfg p n = .ok l' ∧
      l'.cells.Perm (blockNodes p l.nodeSize (ceilNodes n l.nodeSize) ++ l.cells) ∧ Same l l' ∧
      l'.SInv used (live.eraseIdx i) := by
  cases l with
  | free fl =>
    simp only [nodeSize] at hn hpos
    have hk : ceilNodes n fl.ns * fl.ns / fl.ns = ceilNodes n fl.ns := Nat.mul_div_cancel _ hpos
    have hk0 : 0 < ceilNodes n fl.ns := by
      have := le_ceilNodes_mul n fl.ns hpos
      rcases Nat.eq_zero_or_pos (ceilNodes n fl.ns) with h | h
      · rw [h] at this; omega
      · exact h
    simp only [deallocateBytes, FreeList.deallocateBytes, FreeList.insertImpl]
    rw [if_neg (by omega)]
    simp only [hk]
    rw [if_neg (by omega)]
    refine ⟨_, rfl, List.Perm.refl _, ⟨rfl, rfl, fun _ => rfl⟩, ?_⟩
    simp only [SInv] at hS ⊢
    simp [hS]; omega
  | ord ol =>
    simp only [SInv] at hS
    simp only [nodeSize] at hn hpos hap hout
    have hout' : RunOut ol p (ceilNodes n ol.ns) := OutObj.ord hS (by simpa [obj] using hout)
    obtain ⟨l', h1, h2, h3, h4, _, h6⟩ := OrdList.deallocateBytes_run cfg ol hS p n hn hap hout' hp0
    exact ⟨.ord l', by simp [deallocateBytes, h1], h6, ⟨h3, by simp [obj, h4], fun b => by simp [blockCells, h3]⟩, h2⟩
  | small sl =>
    -- the small list never hands out arrays: every live entry is one node
    simp only [SInv] at hS
    have := (hS.liveGrid (p, n) (List.mem_of_getElem? hi)).1
    simp only [nodeSize] at hn
    simp only at this
    omega

/-- **`insert` of the usable part of a new block** `blk` (disjoint from the blocks in use, list object outside it):
either it succeeds and adds exactly `blockCells blk`, or the block is too small for a single cell
(`blockCells blk = []`; the code then divides the block into zero nodes: undefined behaviour). -/
theorem insert_block (cfg : Cfg) {l : AnyList} {used : List Blk} {live : List (Nat × Nat)} {blk : Blk}
    (hS : l.SInv used live) (hpos : 0 < l.nodeSize) (hbk : BlocksOk (blk :: used))
    (hap : l.CellsApart blk.usable.base (blk.usable.size / l.nodeSize))
    (hout : OutObj l.obj blk.usable.base blk.usable.size) :
    (∃ l', l.insert cfg blk.usable.base blk.usable.size = .ok l' ∧ l'.cells.Perm (l.blockCells blk ++ l.cells) ∧
        Same l l' ∧ l'.SInv (blk :: used) live) ∨
      (l.blockCells blk = [] ∧ ∀ l', l.insert cfg blk.usable.base blk.usable.size ≠ .ok l') := by
  have hw := hbk.1 blk (by simp)
  unfold Blk.Wf at hw
  have hm0 : 0 < blk.usable.base := by unfold Blk.usable; simp only; omega
  cases l with
  | free fl =>
    simp only [nodeSize] at hpos
    by_cases hk : blk.usable.size / fl.ns = 0
    · right
      refine ⟨by simp [blockCells, hk, blockNodes], ?_⟩
      intro l' h
      simp [insert, FreeList.insert, FreeList.insertImpl, hk] at h
    · left
      refine ⟨.free { fl with nodes := blockNodes blk.usable.base fl.ns (blk.usable.size / fl.ns) ++ fl.nodes,
                               cap := fl.cap + blk.usable.size / fl.ns }, ?_, List.Perm.refl _,
        ⟨rfl, rfl, fun _ => rfl⟩, ?_⟩
      · simp only [insert, FreeList.insert, FreeList.insertImpl]; rw [if_neg hk]
      · simp only [SInv] at hS ⊢
        simp [hS]; omega
  | ord ol =>
    simp only [SInv] at hS
    simp only [nodeSize] at hpos hap
    by_cases hk : blk.usable.size / ol.ns = 0
    · right
      refine ⟨by simp [blockCells, hk, blockNodes], ?_⟩
      intro l' h
      simp [insert, OrdList.insert, OrdList.insertImpl, hk] at h
    · left
      have hdiv := Nat.div_mul_le_self blk.usable.size ol.ns
      have hout' : RunOut ol blk.usable.base (blk.usable.size / ol.ns) := by
        apply OutObj.ord hS
        simp only [obj, OutObj, ListObj.addr] at hout ⊢
        omega
      obtain ⟨l1, h1, h2, h3, h4, _, h6⟩ := OrdList.insert_run cfg ol hS blk.usable.base blk.usable.size
        (Nat.pos_of_ne_zero hk) hap hout' hm0
      exact ⟨.ord l1, by simp [insert, h1], h6, ⟨h3, by simp [obj, h4], fun b => by simp [blockCells, h3]⟩, h2⟩
  | small sl =>
    simp only [SInv] at hS
    have hobj : blk.usable.base + blk.usable.size ≤ sl.P ∨ sl.P < blk.usable.base := by
      simp only [obj, OutObj, ListObj.addr] at hout
      omega
    cases hins : sl.insert blk.usable.base blk.usable.size with
    | none =>
      right
      refine ⟨?_, by intro l' h; simp [insert, hins] at h⟩
      unfold SmallList.insert at hins
      simp only [blockCells, smallBlockCells]
      generalize smallInsertChunks sl.ns blk.usable.base blk.usable.size = r at hins ⊢
      obtain ⟨cs, n⟩ := r
      simp only at hins ⊢
      split at hins
      · rename_i he
        have : cs = [] := by simpa using he
        rw [this]; rfl
      · cases hins
    | some sl' =>
      left
      obtain ⟨h1, h2, h3, h4, _, _⟩ := SmallList.insert_spec hS hbk hobj hins
      exact ⟨.small sl', by simp [insert, hins], h1, ⟨h2, by simp [obj, h3], fun b => by simp [blockCells, h2]⟩, h4⟩

end AnyList
end MemVerif.Model
