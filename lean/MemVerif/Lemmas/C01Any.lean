import MemVerif.Lemmas.C01Ord
import MemVerif.Model.Pool
/-!
C01, list-implementation level: a uniform specification of the five list operations a pool uses
(`allocate`, `allocate(n)`, `deallocate`, `deallocate(ptr, n)`, `insert`) for the two intrusive free lists
(`free_memory_list`, `ordered_free_memory_list`), in terms of
* `AnyList.cells` — the free cells of the list, in list order,
* `AnyList.SInv` — the list's own structural invariant (`capacity = length`; `OrdList.Inv`),
* `AnyList.obj` — the two proxy words of an ordered list (they live inside the pool object, not in a block).
-/
namespace MemVerif.Model
open MemVerif.Gen

namespace AnyList

/-- free cells, in list order -/
def cells : AnyList → List Nat
  | .free l => l.nodes
  | .ord l => l.nodes
  | .small l => l.chunks.flatMap fun c => c.free.map fun i => c.base + chunkOff + i * l.ns

/-- the words of the list object that the list's algorithms compare node addresses with: `[B, B + 16)` for the
ordered list's two proxy nodes -/
def obj : AnyList → Option Nat
  | .ord l => some l.B
  | _ => none

/-- structural invariant of the list itself. (The small node list is not covered by this file: `False`.) -/
def SInv : AnyList → Prop
  | .free l => l.cap = l.nodes.length
  | .ord l => l.Inv
  | .small _ => False

/-- a byte range lies outside the list object's proxy words -/
def OutObj (o : Option Nat) (a len : Nat) : Prop :=
  match o with
  | none => True
  | some B => a + len ≤ B ∨ B + 16 ≤ a

theorem OutObj.ord {l : OrdList} (hI : l.Inv) {m k : Nat} (h : OutObj (some l.B) m (k * l.ns)) : RunOut l m k := by
  have := hI.proxies
  unfold OutObj at h
  unfold RunOut
  omega

/-- a run that is apart from all free cells -/
def CellsApart (l : AnyList) (m k : Nat) : Prop := ∀ y ∈ l.cells, y + l.nodeSize ≤ m ∨ m + k * l.nodeSize ≤ y

/-- what every operation keeps -/
structure Same (l l' : AnyList) : Prop where
  ns : l'.nodeSize = l.nodeSize
  obj : l'.obj = l.obj
  sinv : l'.SInv

/-- `allocate()` -/
theorem allocate_spec {l l' : AnyList} {x : Nat} (hS : l.SInv) (h : l.allocate = some (l', x)) :
    ∃ B, l.cells = x :: B ∧ l'.cells = B ∧ Same l l' := by
  cases l with
  | free fl =>
    simp only [allocate] at h
    cases hal : fl.allocate with
    | none => simp [hal] at h
    | some r =>
      obtain ⟨fl', y⟩ := r
      simp only [hal, Option.map_some, Option.some.injEq, Prod.mk.injEq] at h
      obtain ⟨rfl, rfl⟩ := h
      unfold FreeList.allocate at hal
      split at hal
      · simp at hal
      · rename_i z zs hn
        simp only [Option.some.injEq, Prod.mk.injEq] at hal
        obtain ⟨rfl, rfl⟩ := hal
        refine ⟨zs, hn, rfl, rfl, rfl, ?_⟩
        simp only [SInv] at hS ⊢
        rw [hS, hn]; rfl
  | ord ol =>
    simp only [allocate] at h
    cases hal : ol.allocate with
    | none => simp [hal] at h
    | some r =>
      obtain ⟨ol', y⟩ := r
      simp only [hal, Option.map_some, Option.some.injEq, Prod.mk.injEq] at h
      obtain ⟨rfl, rfl⟩ := h
      obtain ⟨xs, h1, h2, h3, h4, h5, _⟩ := OrdList.allocate_run ol ol' hS y hal
      exact ⟨xs, h1, h2, h4, by simp [obj, h5], h3⟩
  | small sl => exact absurd hS (by simp [SInv])

/-- `allocate(n)` returning an address: a run of `cellsOf ns n` cells starting at the returned address leaves -/
theorem allocateBytes_spec {l l' : AnyList} {x n : Nat} (hS : l.SInv) (hpos : 0 < l.nodeSize)
    (h : l.allocateBytes n = some (l', some x)) :
    ∃ A B, l.cells = A ++ blockNodes x l.nodeSize (cellsOf l.nodeSize n) ++ B ∧ l'.cells = A ++ B ∧ Same l l' := by
  by_cases hle : n ≤ l.nodeSize
  · -- node-sized: same as `allocate()`
    have hc : cellsOf l.nodeSize n = 1 := by simp [cellsOf, hle]
    have hal : l.allocate = some (l', x) := by
      cases l with
      | free fl =>
        simp only [allocateBytes, FreeList.allocateBytes, nodeSize] at h hle
        rw [if_pos hle] at h
        simp only [allocate]
        cases hal : fl.allocate with
        | none => simp [hal] at h
        | some r =>
          obtain ⟨fl', y⟩ := r
          simp only [hal, Option.map_some, Option.some.injEq, Prod.mk.injEq] at h ⊢
          obtain ⟨rfl, h2⟩ := h
          exact ⟨rfl, h2⟩
      | ord ol =>
        simp only [allocateBytes, OrdList.allocateBytes, nodeSize] at h hle
        rw [if_pos hle] at h
        simp only [allocate]
        cases hal : ol.allocate with
        | none => simp [hal] at h
        | some r =>
          obtain ⟨ol', y⟩ := r
          simp only [hal, Option.map_some, Option.some.injEq, Prod.mk.injEq] at h ⊢
          obtain ⟨rfl, h2⟩ := h
          exact ⟨rfl, h2⟩
      | small sl => exact absurd hS (by simp [SInv])
    obtain ⟨B, h1, h2, h3⟩ := allocate_spec hS hal
    exact ⟨[], B, by rw [hc, blockNodes_one, h1]; rfl, by rw [h2]; rfl, h3⟩
  · have hgt : l.nodeSize < n := by omega
    have hc : cellsOf l.nodeSize n = ceilNodes n l.nodeSize := by simp [cellsOf, hle]
    rw [hc]
    cases l with
    | free fl =>
      simp only [nodeSize] at hgt hpos ⊢
      simp only [allocateBytes] at h
      cases hal : fl.allocateBytes n with
      | none => simp [hal] at h
      | some r =>
        obtain ⟨fl', y⟩ := r
        simp only [hal, Option.map_some, Option.some.injEq, Prod.mk.injEq] at h
        obtain ⟨rfl, rfl⟩ := h
        unfold FreeList.allocateBytes at hal
        rw [if_neg (by omega)] at hal
        split at hal
        · simp at hal
        · split at hal
          · simp at hal
          · rename_i start len hs
            obtain ⟨A, f, B, hn, hA, hL, h2⟩ := searchArray_spec hpos hgt hs
            have hsp := split_run (A := A) (B := B) (f := f) (ns := fl.ns) (L := len) (by omega)
            rw [← hn, hA] at hsp
            simp only [Option.some.injEq, Prod.mk.injEq] at hal
            obtain ⟨rfl, hx⟩ := hal
            rw [hsp.2.2] at hx
            simp only [Option.some.injEq] at hx
            subst hx
            refine ⟨A, B, by rw [← hL]; exact hn, ?_, rfl, rfl, ?_⟩
            · show fl.nodes.take start ++ fl.nodes.drop (start + len) = A ++ B
              rw [hsp.1, hsp.2.1]
            · simp only [SInv] at hS ⊢
              rw [hS, hsp.1, hsp.2.1, hn]
              simp only [List.length_append, blockNodes_length]
              omega
    | ord ol =>
      simp only [nodeSize] at hgt hpos ⊢
      simp only [allocateBytes] at h
      cases hal : ol.allocateBytes n with
      | none => simp [hal] at h
      | some r =>
        obtain ⟨ol', y⟩ := r
        simp only [hal, Option.map_some, Option.some.injEq, Prod.mk.injEq] at h
        obtain ⟨rfl, rfl⟩ := h
        obtain ⟨A, B, h1, h2, h3, h4, h5, _⟩ := OrdList.allocateBytes_run ol ol' hS n x hgt hal
        exact ⟨A, B, h1, h2, h4, by simp [obj, h5], h3⟩
    | small sl => exact absurd hS (by simp [SInv])

/-- `deallocate(ptr)` of a cell that is apart from the free cells and outside the list object -/
theorem deallocate_spec (cfg : Cfg) {l : AnyList} {p : Nat} (hS : l.SInv) (hap : l.CellsApart p 1)
    (hout : OutObj l.obj p l.nodeSize) (hp0 : 0 < p) :
    ∃ l', l.deallocate cfg p = .ok l' ∧ l'.cells.Perm (p :: l.cells) ∧ Same l l' := by
  cases l with
  | free fl =>
    refine ⟨.free (fl.deallocate p), rfl, List.Perm.refl _, rfl, rfl, ?_⟩
    simp only [SInv] at hS ⊢
    simp [FreeList.deallocate, hS]
  | ord ol =>
    simp only [SInv] at hS
    have hrun : RunApart ol p 1 := hap
    have hout' : RunOut ol p 1 := OutObj.ord hS (by simpa [obj, nodeSize] using hout)
    obtain ⟨l', h1, h2, h3, h4, _, h6⟩ := OrdList.deallocate_run cfg ol hS p hrun hout' hp0
    exact ⟨.ord l', by simp [deallocate, h1], h6, h3, by simp [obj, h4], h2⟩
  | small sl => exact absurd hS (by simp [SInv])

/-- `deallocate(ptr, n)`, `n > node_size`, of a run that is apart from the free cells -/
theorem deallocateBytes_spec (cfg : Cfg) {l : AnyList} {p n : Nat} (hS : l.SInv) (hpos : 0 < l.nodeSize)
    (hn : l.nodeSize < n) (hap : l.CellsApart p (ceilNodes n l.nodeSize))
    (hout : OutObj l.obj p (ceilNodes n l.nodeSize * l.nodeSize)) (hp0 : 0 < p) :
    ∃ l', l.deallocateBytes cfg p n = .ok l' ∧
      l'.cells.Perm (blockNodes p l.nodeSize (ceilNodes n l.nodeSize) ++ l.cells) ∧ Same l l' := by
  cases l with
  | free fl =>
    simp only [nodeSize] at hn hpos
    have hk : ceilNodes n fl.ns * fl.ns / fl.ns = ceilNodes n fl.ns := Nat.mul_div_cancel _ hpos
    have hk0 : 0 < ceilNodes n fl.ns := by
      have := le_ceilNodes_mul n fl.ns hpos
      rcases Nat.eq_zero_or_pos (ceilNodes n fl.ns) with h | h
      · rw [h] at this; omega
      · exact h
    simp only [deallocateBytes, FreeList.deallocateBytes, FreeList.insertImpl]
    rw [if_neg (by omega)]
    simp only [hk]
    rw [if_neg (by omega)]
    refine ⟨_, rfl, List.Perm.refl _, rfl, rfl, ?_⟩
    simp only [SInv] at hS ⊢
    simp [hS]; omega
  | ord ol =>
    simp only [SInv] at hS
    simp only [nodeSize] at hn hpos hap hout
    have hout' : RunOut ol p (ceilNodes n ol.ns) := OutObj.ord hS (by simpa [obj] using hout)
    obtain ⟨l', h1, h2, h3, h4, _, h6⟩ := OrdList.deallocateBytes_run cfg ol hS p n hn hap hout' hp0
    exact ⟨.ord l', by simp [deallocateBytes, h1], h6, h3, by simp [obj, h4], h2⟩
  | small sl => exact absurd hS (by simp [SInv])

/-- `insert(mem, size)` of a range that is apart from the free cells: if it succeeds, the new cells are the
`size / node_size` cells cut from `mem` -/
theorem insert_spec (cfg : Cfg) {l l' : AnyList} {mem size : Nat} (hS : l.SInv) (hpos : 0 < l.nodeSize)
    (hap : l.CellsApart mem (size / l.nodeSize)) (hout : OutObj l.obj mem (size / l.nodeSize * l.nodeSize))
    (hm0 : 0 < mem) (h : l.insert cfg mem size = .ok l') :
    l'.cells.Perm (blockNodes mem l.nodeSize (size / l.nodeSize) ++ l.cells) ∧ Same l l' := by
  cases l with
  | free fl =>
    simp only [insert, FreeList.insert, FreeList.insertImpl] at h
    by_cases hk : size / fl.ns = 0
    · simp [hk] at h
    · rw [if_neg hk] at h
      simp only [ListRes.ok.injEq] at h
      subst h
      refine ⟨List.Perm.refl _, rfl, rfl, ?_⟩
      simp only [SInv] at hS ⊢
      simp [hS]; omega
  | ord ol =>
    simp only [SInv] at hS
    simp only [nodeSize] at hpos hap hout
    by_cases hk : 0 < size / ol.ns
    · have hout' : RunOut ol mem (size / ol.ns) := OutObj.ord hS (by simpa [obj] using hout)
      obtain ⟨l1, h1, h2, h3, h4, _, h6⟩ := OrdList.insert_run cfg ol hS mem size hk hap hout' hm0
      simp only [insert, h1, ListRes.ok.injEq] at h
      subst h
      exact ⟨h6, h3, by simp [obj, h4], h2⟩
    · have hk0 : size / ol.ns = 0 := Nat.eq_zero_of_not_pos hk
      simp only [insert, OrdList.insert, OrdList.insertImpl, hk0, if_true] at h
      cases h
  | small sl => exact absurd hS (by simp [SInv])

/-- `insert(mem, size)` of a range that is apart from the free cells never fails for another reason than "not even
one node fits" (`size / node_size = 0`, where the code divides the block into zero nodes: undefined behaviour) -/
theorem insert_total (cfg : Cfg) {l : AnyList} {mem size : Nat} (hS : l.SInv) (hpos : 0 < l.nodeSize)
    (hap : l.CellsApart mem (size / l.nodeSize)) (hout : OutObj l.obj mem (size / l.nodeSize * l.nodeSize))
    (hm0 : 0 < mem) : (∃ l', l.insert cfg mem size = .ok l') ∨ size / l.nodeSize = 0 := by
  by_cases hk : size / l.nodeSize = 0
  · exact Or.inr hk
  · left
    cases l with
    | free fl =>
      simp only [nodeSize] at hk
      simp only [insert, FreeList.insert, FreeList.insertImpl]
      rw [if_neg hk]
      exact ⟨_, rfl⟩
    | ord ol =>
      simp only [SInv] at hS
      simp only [nodeSize] at hpos hap hout hk
      have hout' : RunOut ol mem (size / ol.ns) := OutObj.ord hS (by simpa [obj] using hout)
      obtain ⟨l1, h1, _⟩ := OrdList.insert_run cfg ol hS mem size (Nat.pos_of_ne_zero hk) hap hout' hm0
      exact ⟨.ord l1, by simp [insert, h1]⟩
    | small sl => exact absurd hS (by simp [SInv])

end AnyList
end MemVerif.Model
