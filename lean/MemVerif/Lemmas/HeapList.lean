import MemVerif.Model.HeapList
import MemVerif.Lemmas.C01Cells
/-!
L2 → L1 refinement for the unordered free list: under the representation predicate `HRepr` (the `next` words stored in
the nodes, followed from `first_`, spell out the node sequence of the L1 list and end with `nullptr`) every member
function of the pointer-level model `HList` computes what the sequence-level model `FreeList` computes, and the only
memory it writes is the first word of nodes that are on the free list afterwards.
-/
namespace MemVerif.Model

/-! ### chains -/

/-- following the stored `next` words from `p` visits exactly `xs` and then reaches `nullptr` -/
def Chain (h : Heap) : Nat → List Nat → Prop
  | p, [] => p = 0
  | p, x :: xs => p = x ∧ Chain h (h x) xs

@[simp] theorem Heap.set_same (h : Heap) (a v : Nat) : (h.set a v) a = v := by simp [Heap.set]
theorem Heap.set_other (h : Heap) {a b : Nat} (v : Nat) (hne : b ≠ a) : (h.set a v) b = h b := by simp [Heap.set, hne]

/-- a write outside the chain does not change it -/
theorem Chain.set_of_not_mem {h : Heap} {a v : Nat} :
    ∀ {p : Nat} {xs : List Nat}, a ∉ xs → Chain h p xs → Chain (h.set a v) p xs
  | _, [], _, hc => hc
  | _, x :: xs, hn, hc => by
    have hx : x ≠ a := fun e => hn (e ▸ List.mem_cons_self)
    exact ⟨hc.1, by rw [Heap.set_other h v hx]; exact Chain.set_of_not_mem (fun m => hn (List.mem_cons_of_mem _ m)) hc.2⟩

theorem Chain.head_eq {h : Heap} {p : Nat} {xs : List Nat} (hc : Chain h p xs) : p = xs.headD 0 := by
  cases xs with
  | nil => exact hc
  | cons x xs => exact hc.1

/-- the part of a chain after a prefix -/
theorem Chain.suffix {h : Heap} {B : List Nat} : ∀ {p : Nat} (R : List Nat), Chain h p (R ++ B) → Chain h (B.headD 0) B
  | _, [], hc => by
    have hc' : Chain h _ B := hc
    rw [← hc'.head_eq]; exact hc'
  | _, _ :: R, hc => Chain.suffix R hc.2

/-- un-linking a segment `R`: the last node `a` of the non-empty prefix is re-linked to the first node after `R` -/
theorem Chain.relink {h : Heap} {R B : List Nat} (a : Nat) :
    ∀ {p : Nat} (A0 : List Nat), (A0 ++ [a] ++ R ++ B).Nodup → Chain h p (A0 ++ [a] ++ R ++ B) →
      Chain (h.set a (B.headD 0)) p (A0 ++ [a] ++ B)
  | _, [], hnd, hc => by
    simp only [List.nil_append, List.singleton_append, List.cons_append] at hnd hc ⊢
    refine ⟨hc.1, ?_⟩
    rw [Heap.set_same]
    have hB := Chain.suffix R hc.2
    have haB : a ∉ B := fun m => (List.nodup_cons.mp hnd).1 (List.mem_append_right _ m)
    exact Chain.set_of_not_mem haB hB
  | _, x :: A0, hnd, hc => by
    simp only [List.cons_append] at hnd hc ⊢
    have hxa : x ≠ a := by
      intro e
      have := (List.nodup_cons.mp hnd).1
      apply this
      rw [e]; simp
    refine ⟨hc.1, ?_⟩
    rw [Heap.set_other h _ hxa]
    have := Chain.relink a A0 (by simpa using (List.nodup_cons.mp hnd).2) (by simpa using hc.2)
    simpa using this

/-! ### the representation predicate -/

/-- the L2 list `hl` represents the L1 list `l` -/
structure HRepr (hl : HList) (l : FreeList) : Prop where
  ns : hl.ns = l.ns
  cap : hl.cap = l.cap
  chain : Chain hl.heap hl.first l.nodes
  nodup : l.nodes.Nodup
  nonzero : ∀ x ∈ l.nodes, x ≠ 0

/-! ### `deallocate(ptr)`, `allocate()` -/

theorem HList.deallocate_refines {hl : HList} {l : FreeList} (h : HRepr hl l) (p : Nat) (hp : p ∉ l.nodes) (hp0 : p ≠ 0) :
    HRepr (hl.deallocate p) (l.deallocate p) := by
  refine ⟨h.ns, by simp [HList.deallocate, FreeList.deallocate, h.cap], ?_, List.nodup_cons.mpr ⟨hp, h.nodup⟩, ?_⟩
  · show Chain (hl.heap.set p hl.first) p (p :: l.nodes)
    exact ⟨rfl, by rw [Heap.set_same]; exact Chain.set_of_not_mem hp h.chain⟩
  · intro x hx
    rcases List.mem_cons.mp hx with rfl | hx
    · exact hp0
    · exact h.nonzero x hx

theorem HList.allocate_refines {hl : HList} {l : FreeList} (h : HRepr hl l) :
    match hl.allocate, l.allocate with
    | none, none => True
    | some (hl', a), some (l', b) => a = b ∧ HRepr hl' l' ∧ hl'.heap = hl.heap
    | _, _ => False := by
  unfold HList.allocate FreeList.allocate
  cases hn : l.nodes with
  | nil =>
    have hc := h.chain
    rw [hn] at hc
    have : hl.first = 0 := hc
    simp [this]
  | cons x xs =>
    have hc := h.chain
    rw [hn] at hc
    have hx0 : x ≠ 0 := h.nonzero x (by rw [hn]; simp)
    have hf : hl.first = x := hc.1
    have hne : ¬ hl.first = 0 := by rw [hf]; exact hx0
    simp only [hne, if_false]
    refine ⟨hf, ⟨h.ns, by simp [h.cap], ?_, ?_, ?_⟩, trivial⟩
    · show Chain hl.heap (hl.heap hl.first) xs
      rw [hf]; exact hc.2
    · have := h.nodup; rw [hn] at this; exact (List.nodup_cons.mp this).2
    · intro y hy; exact h.nonzero y (by rw [hn]; exact List.mem_cons_of_mem _ hy)

/-! ### `insert_impl`: linking a run -/

theorem linkRun_other (h : Heap) (ns : Nat) : ∀ (k cur a : Nat), a ∉ blockNodes cur ns k → (linkRun h cur ns k) a = h a
  | 0, _, _, _ => rfl
  | k + 1, cur, a, hn => by
    simp only [linkRun]
    have h1 : a ≠ cur := fun e => hn (by simp [blockNodes, e])
    have h2 : a ∉ blockNodes (cur + ns) ns k := fun m => hn (by simp [blockNodes, m])
    rw [linkRun_other _ ns k (cur + ns) a h2, Heap.set_other h _ h1]

/-- after the loop and the final `list_set_next(last, first_)`, the run is chained in front of the old list -/
theorem chain_linkRun (ns : Nat) (hns : 0 < ns) (nodes : List Nat) (f : Nat) :
    ∀ (k : Nat) (h : Heap) (cur : Nat), (∀ x ∈ blockNodes cur ns (k + 1), x ∉ nodes) → Chain h f nodes →
      Chain ((linkRun h cur ns k).set (cur + k * ns) f) cur (blockNodes cur ns (k + 1) ++ nodes)
  | 0, h, cur, hd, hc => by
    simp only [linkRun, Nat.zero_mul, Nat.add_zero, blockNodes, List.cons_append, List.nil_append]
    exact ⟨rfl, by rw [Heap.set_same]; exact Chain.set_of_not_mem (hd cur (by simp [blockNodes])) hc⟩
  | k + 1, h, cur, hd, hc => by
    have hcur : cur ∉ nodes := hd cur (by simp [blockNodes])
    have hd' : ∀ x ∈ blockNodes (cur + ns) ns (k + 1), x ∉ nodes := fun x hx => hd x (by
      rw [show blockNodes cur ns (k + 1 + 1) = cur :: blockNodes (cur + ns) ns (k + 1) from rfl]
      exact List.mem_cons_of_mem _ hx)
    have ih := chain_linkRun ns hns nodes f k (h.set cur (cur + ns)) (cur + ns) hd' (Chain.set_of_not_mem hcur hc)
    have eaddr : cur + ns + k * ns = cur + (k + 1) * ns := by rw [Nat.add_mul]; omega
    rw [eaddr] at ih
    show Chain ((linkRun (h.set cur (cur + ns)) (cur + ns) ns k).set (cur + (k + 1) * ns) f) cur
      (cur :: (blockNodes (cur + ns) ns (k + 1) ++ nodes))
    refine ⟨rfl, ?_⟩
    -- the word at `cur` is `cur + ns`: neither the rest of the loop nor the final store touches it
    have hne : cur ≠ cur + (k + 1) * ns := by
      have : 1 * ns ≤ (k + 1) * ns := Nat.mul_le_mul_right _ (by omega)
      omega
    have hnot : cur ∉ blockNodes (cur + ns) ns k := by
      intro m
      have := (blockNodes_bounds m).1
      omega
    rw [Heap.set_other _ _ hne, linkRun_other _ ns k (cur + ns) cur hnot, Heap.set_same]
    exact ih

theorem HList.insertImpl_refines {hl : HList} {l : FreeList} (h : HRepr hl l) (mem size : Nat) (hns : 0 < l.ns)
    (hd : ∀ x ∈ blockNodes mem l.ns (size / l.ns), x ∉ l.nodes) (hm0 : 0 < mem) :
    match hl.insertImpl mem size, l.insertImpl mem size with
    | none, none => True
    | some hl', some l' => HRepr hl' l'
    | _, _ => False := by
  unfold HList.insertImpl FreeList.insertImpl
  simp only [h.ns]
  by_cases hk : size / l.ns = 0
  · simp [hk]
  · simp only [hk, if_false]
    obtain ⟨k, hk'⟩ : ∃ k, size / l.ns = k + 1 := ⟨size / l.ns - 1, (Nat.succ_pred_eq_of_pos (Nat.pos_of_ne_zero hk)).symm⟩
    rw [hk'] at hd ⊢
    simp only [Nat.add_sub_cancel]
    refine ⟨rfl, by simp [h.cap], ?_, ?_, ?_⟩
    · exact chain_linkRun l.ns hns l.nodes hl.first k hl.heap mem hd h.chain
    · rw [List.nodup_append]
      refine ⟨?_, h.nodup, ?_⟩
      · have hp := blockNodes_pairwise mem l.ns (k + 1)
        refine hp.imp ?_
        intro a b hab e
        unfold Apart at hab
        omega
      · intro a ha b hb e
        exact hd a ha (e ▸ hb)
    · intro x hx
      rcases List.mem_append.mp hx with hx | hx
      · have := (blockNodes_bounds hx).1; omega
      · exact h.nonzero x hx

/-! ### `list_search_array` -/

theorem blockNodes_getLastD (f ns : Nat) : ∀ (len : Nat) (A : List Nat), 0 < len →
    (A ++ blockNodes f ns len).getLastD 0 = f + (len - 1) * ns := by
  intro len A hlen
  obtain ⟨k, rfl⟩ : ∃ k, len = k + 1 := ⟨len - 1, by omega⟩
  rw [blockNodes_succ_append, ← List.append_assoc]
  simp

/-- **The pointer-level search computes the sequence-level search.** State correspondence: the nodes seen so far are
`A ++ run` with `run` = `len` consecutive cells from `f`; `xs` are the nodes still ahead, chained from `i.next`. -/
theorem searchLoop_spec (h : Heap) (ns need : Nat) :
    ∀ (xs : List Nat) (fuel : Nat) (A : List Nat) (f len nxt : Nat), xs.length ≤ fuel → Chain h nxt xs →
      (∀ x ∈ xs, x ≠ 0) → 1 ≤ len →
      match searchArrayGo ns need xs A.length len (f + (len - 1) * ns) (A.length + len) with
      | none => searchLoop h ns need fuel ⟨A.getLastD 0, f, f + (len - 1) * ns, nxt⟩ (len * ns) = none
      | some (s, L) => ∃ A' f' B, A ++ blockNodes f ns len ++ xs = A' ++ blockNodes f' ns L ++ B ∧ A'.length = s ∧ 1 ≤ L ∧
          searchLoop h ns need fuel ⟨A.getLastD 0, f, f + (len - 1) * ns, nxt⟩ (len * ns) =
            some ⟨A'.getLastD 0, f', f' + (L - 1) * ns, B.headD 0⟩ := by
  intro xs
  induction xs with
  | nil =>
    intro fuel A f len nxt _ hc _ _
    have : nxt = 0 := hc
    subst this
    simp only [searchArrayGo]
    cases fuel <;> simp [searchLoop]
  | cons x xs ih =>
    intro fuel A f len nxt hfuel hc hnz hlen
    obtain ⟨fuel', rfl⟩ : ∃ n, fuel = n + 1 := ⟨fuel - 1, by simp at hfuel; omega⟩
    have hx : nxt = x := hc.1
    subst hx
    have hx0 : nxt ≠ 0 := hnz nxt List.mem_cons_self
    have hlast : f + (len - 1) * ns + ns = f + len * ns := by
      obtain ⟨k, rfl⟩ : ∃ k, len = k + 1 := ⟨len - 1, by omega⟩
      rw [Nat.add_mul]; simp; omega
    unfold searchArrayGo searchLoop
    simp only [hx0, if_false]
    by_cases hcont : f + (len - 1) * ns + ns ≠ nxt
    · -- run broken: restart at `nxt`
      simp only [hcont, ne_eq, not_false_eq_true, if_true]
      have := ih fuel' (A ++ blockNodes f ns len) nxt 1 (h nxt) (by simp at hfuel; omega) hc.2
        (fun y hy => hnz y (List.mem_cons_of_mem _ hy)) (Nat.le_refl _)
      simp only [List.length_append, blockNodes_length, Nat.sub_self, Nat.zero_mul, Nat.add_zero, Nat.one_mul] at this
      rw [blockNodes_getLastD f ns len A hlen] at this
      have e1 : A.length + len + 1 = A.length + len + 1 := rfl
      cases hs : searchArrayGo ns need xs (A.length + len) 1 nxt (A.length + len + 1) with
      | none => rw [hs] at this; exact this
      | some r =>
        obtain ⟨s, L⟩ := r
        rw [hs] at this
        obtain ⟨A', f', B, e, r1, r2, r3⟩ := this
        refine ⟨A', f', B, ?_, r1, r2, r3⟩
        rw [← e, blockNodes_one]; simp
    · have hcont' : f + (len - 1) * ns + ns = nxt := by simpa using hcont
      simp only [hcont', ne_eq, not_true_eq_false, if_false]
      have hnx : nxt = f + len * ns := by omega
      by_cases hacc : (len + 1) * ns ≥ need
      · have hacc' : len * ns + ns ≥ need := by rw [Nat.add_mul] at hacc; omega
        simp only [hacc, hacc', ge_iff_le, if_true]
        refine ⟨A, f, xs, ?_, rfl, by omega, ?_⟩
        · rw [blockNodes_succ_append, hnx]; simp
        · simp only [Nat.add_sub_cancel]
          rw [← hnx, hc.2.head_eq]
      · have hacc' : ¬ len * ns + ns ≥ need := by rw [Nat.add_mul] at hacc; omega
        simp only [hacc, hacc', ge_iff_le, if_false]
        have := ih fuel' A f (len + 1) (h nxt) (by simp at hfuel; omega) hc.2
          (fun y hy => hnz y (List.mem_cons_of_mem _ hy)) (by omega)
        simp only [Nat.add_sub_cancel] at this
        rw [← hnx, show A.length + (len + 1) = A.length + len + 1 by omega, show (len + 1) * ns = len * ns + ns by rw [Nat.add_mul]; omega] at this
        cases hs : searchArrayGo ns need xs A.length (len + 1) nxt (A.length + len + 1) with
        | none => rw [hs] at this; exact this
        | some r =>
          obtain ⟨s, L⟩ := r
          rw [hs] at this
          obtain ⟨A', f', B, e, r1, r2, r3⟩ := this
          refine ⟨A', f', B, ?_, r1, r2, r3⟩
          rw [← e, blockNodes_succ_append, hnx]; simp

/-! ### `allocate(n)`, `deallocate(ptr, n)` -/

theorem getLastD_snoc (A0 : List Nat) (a : Nat) : (A0 ++ [a]).getLastD 0 = a := by simp

theorem HList.allocateBytes_refines {hl : HList} {l : FreeList} (h : HRepr hl l) (hns : 0 < l.ns) (n : Nat) :
    match hl.allocateBytes n l.nodes.length, l.allocateBytes n with
    | none, none => True
    | some (hl', r), some (l', r') => r = r' ∧ HRepr hl' l'
    | _, _ => False := by
  unfold HList.allocateBytes FreeList.allocateBytes
  rw [h.ns]
  by_cases hle : n ≤ l.ns
  · simp only [hle, if_true]
    have := HList.allocate_refines h
    cases h1 : hl.allocate with
    | none =>
      cases h2 : l.allocate with
      | none => simp
      | some r => simp [h1, h2] at this
    | some r1 =>
      cases h2 : l.allocate with
      | none => simp [h1, h2] at this
      | some r2 =>
        simp only [h1, h2] at this
        simp only [Option.map_some]
        exact ⟨by rw [this.1], this.2.1⟩
  · simp only [hle, if_false]
    cases hn : l.nodes with
    | nil =>
      have hc := h.chain
      rw [hn] at hc
      have : hl.first = 0 := hc
      simp [this]
    | cons x xs =>
      have hc := h.chain
      rw [hn] at hc
      have hx0 : x ≠ 0 := h.nonzero x (by rw [hn]; simp)
      have hf : hl.first = x := hc.1
      have hne : ¬ hl.first = 0 := by rw [hf]; exact hx0
      simp only [hne, if_false]
      have hspec := searchLoop_spec hl.heap l.ns n xs (xs.length + 1) [] x 1 (hl.heap x) (by omega) hc.2
        (fun y hy => h.nonzero y (by rw [hn]; exact List.mem_cons_of_mem _ hy)) (Nat.le_refl _)
      simp only [List.length_nil, Nat.sub_self, Nat.zero_mul, Nat.add_zero, Nat.zero_add, List.getLastD_nil, Nat.one_mul,
        List.nil_append, blockNodes_one, List.singleton_append] at hspec
      unfold listSearchArray searchArray
      rw [hf]
      simp only [List.length_cons]
      cases hs : searchArrayGo l.ns n xs 0 1 x 1 with
      | none =>
        rw [hs] at hspec
        simp only [hspec]
        exact ⟨by simp, h⟩
      | some r =>
        obtain ⟨s, L⟩ := r
        rw [hs] at hspec
        obtain ⟨A', f', B, hsplit, hA, hL, hloop⟩ := hspec
        simp only [hloop]
        have hsp := split_run (A := A') (B := B) (f := f') (ns := l.ns) (L := L) (by omega)
        rw [← hsplit, hA] at hsp
        have hcnt : (f' + (L - 1) * l.ns + l.ns - f') / l.ns = L := by
          obtain ⟨k, rfl⟩ : ∃ k, L = k + 1 := ⟨L - 1, by omega⟩
          simp only [Nat.add_sub_cancel]
          have : f' + k * l.ns + l.ns - f' = (k + 1) * l.ns := by rw [Nat.add_mul]; omega
          rw [this, Nat.mul_div_cancel _ hns]
        have hnd := h.nodup
        rw [hn, hsplit] at hnd
        have hchain : Chain hl.heap x (A' ++ blockNodes f' l.ns L ++ B) := by
          rw [← hsplit]; exact ⟨rfl, hc.2⟩
        have hsub : (A' ++ B).Sublist (A' ++ blockNodes f' l.ns L ++ B) := by
          rw [List.append_assoc]; exact List.Sublist.append_left (List.sublist_append_right _ _) _
        have hnz' : ∀ y ∈ A' ++ B, y ≠ 0 := fun y hy => h.nonzero y (by rw [hn, hsplit]; exact hsub.subset hy)
        refine ⟨by rw [hsp.2.2], ?_⟩
        -- the new list
        rcases List.eq_nil_or_concat A' with hA' | ⟨A0, a, hA'⟩
        · subst hA'
          simp only [List.getLastD_nil, ne_eq, not_true_eq_false, if_false, List.nil_append] at hchain hnz' hsub ⊢
          refine ⟨rfl, by simp only [hcnt, h.cap], ?_, ?_, ?_⟩
          · show Chain hl.heap (B.headD 0) (List.take s (x :: xs) ++ List.drop (s + L) (x :: xs))
            rw [hsp.1, hsp.2.1]
            exact Chain.suffix _ hchain
          · show (List.take s (x :: xs) ++ List.drop (s + L) (x :: xs)).Nodup
            rw [hsp.1, hsp.2.1]
            simp only [List.nil_append] at hnd ⊢
            exact hnd.sublist hsub
          · intro y hy
            have : y ∈ List.take s (x :: xs) ++ List.drop (s + L) (x :: xs) := hy
            rw [hsp.1, hsp.2.1] at this
            exact hnz' y (by simpa using this)
        · subst hA'
          have ha0 : a ≠ 0 := hnz' a (by simp)
          simp only [List.concat_eq_append, getLastD_snoc, ne_eq, ha0, not_false_eq_true, if_true] at hchain hnd hsub hnz' ⊢
          refine ⟨rfl, by simp only [hcnt, h.cap], ?_, ?_, ?_⟩
          · show Chain (hl.heap.set a (B.headD 0)) x (List.take s (x :: xs) ++ List.drop (s + L) (x :: xs))
            rw [hsp.1, hsp.2.1]
            simp only [List.concat_eq_append]
            exact Chain.relink a A0 hnd hchain
          · show (List.take s (x :: xs) ++ List.drop (s + L) (x :: xs)).Nodup
            rw [hsp.1, hsp.2.1]
            simp only [List.concat_eq_append]
            exact hnd.sublist hsub
          · intro y hy
            have : y ∈ List.take s (x :: xs) ++ List.drop (s + L) (x :: xs) := hy
            rw [hsp.1, hsp.2.1] at this
            exact hnz' y (by simpa using this)

theorem HList.deallocateBytes_refines {hl : HList} {l : FreeList} (h : HRepr hl l) (p n : Nat) (hns : 0 < l.ns)
    (hd : ∀ x ∈ blockNodes p l.ns (cellsOf l.ns n), x ∉ l.nodes) (hp0 : 0 < p) :
    match hl.deallocateBytes p n, l.deallocateBytes p n with
    | none, none => True
    | some hl', some l' => HRepr hl' l'
    | _, _ => False := by
  unfold HList.deallocateBytes FreeList.deallocateBytes
  rw [h.ns]
  by_cases hle : n ≤ l.ns
  · simp only [hle, if_true]
    have hc : cellsOf l.ns n = 1 := by simp [cellsOf, hle]
    rw [hc, blockNodes_one] at hd
    exact HList.deallocate_refines h p (hd p (by simp)) (by omega)
  · simp only [hle, if_false]
    have hc : cellsOf l.ns n = ceilNodes n l.ns := by simp [cellsOf, hle]
    rw [hc] at hd
    exact HList.insertImpl_refines h p (ceilNodes n l.ns * l.ns) hns (by rw [Nat.mul_div_cancel _ hns]; exact hd) hp0

end MemVerif.Model
