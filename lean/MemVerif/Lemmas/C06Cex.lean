import MemVerif.Lemmas.C06Sim
/-! Machine-checked counterexamples to `scope_restores` / `replay_same` as originally stated. -/
namespace MemVerif.Model

def cfgP : Cfg := { fence := 0 }
def blkP : Blk := ⟨16, 16⟩
def stP (n : Nat) : MemStack :=
  { arena := { src := .growing 1 1 16, isCached := true, used := List.replicate (n + 1) blkP, cached := [] }, cur := 32 }
def envP : EnvS := fun _ => some 16
def envN : EnvS := fun _ => none
def opP : SOp := .alloc 1 1

theorem growP (L : List Blk) : growDec cfgP 32 (blkP :: L) 1 1 = some true := by
  have h : blkEnd (blkP :: L) = some 32 := by
    show some (blkP.usable.base + blkP.usable.size) = some 32
    decide
  unfold growDec
  rw [h]
  decide

theorem allocP (n k : Nat) :
    (stP n).allocate cfgP 1 1 [envP k] = (stP (n + 1), .throws .badSize, [.alloc 16 maxAlign (some 16)]) := by
  rw [allocate_eq]
  have hg : growDec cfgP (stP n).cur (stP n).arena.used 1 1 = some true := by
    simp only [stP, List.replicate_succ]; exact growP _
  rw [hg]
  simp only []
  have ha : (stP n).arena.allocateBlock [envP k] =
      .ok ⟨.growing 1 1 16, true, blkP :: (stP n).arena.used, []⟩ blkP.usable [.alloc 16 maxAlign (some 16)] [] := by
    simp only [stP, envP]
    rw [arena_alloc_src _ (.inr rfl)]
    simp only [Src.allocateBlock]
    have : growBlock 1 1 16 = 16 := by decide
    rw [this]; rfl
  rw [ha]
  simp only []
  have h1 : finishCur cfgP blkP.usable 1 1 = 32 := by decide
  have h2 : finishOut cfgP blkP.usable 1 1 = .throws .badSize := by decide
  rw [h1, h2]
  simp only [stP, List.replicate_succ]

theorem stepP (n k : Nat) :
    runOp cfgP envP (stP n) k opP =
      { st := stP (n + 1), k := k + 1, outs := [.throws .badSize], acquired := [blkP], ok := true } := by
  simp only [opP, runOp, allocP]
  rfl

theorem runP : ∀ (N n k : Nat), runOps cfgP envP (stP n) k (List.replicate N opP) =
      { st := stP (n + N), k := k + N, outs := List.replicate N (.throws .badSize),
        acquired := List.replicate N blkP, ok := true }
  | 0, n, k => by simp only [List.replicate_zero, runOps]; rfl
  | N + 1, n, k => by
    simp only [List.replicate_succ, runOps, stepP, runP N (n + 1) (k + 1)]
    have h1 : n + 1 + N = n + (N + 1) := by omega
    have h2 : k + 1 + N = k + (N + 1) := by omega
    rw [h1, h2]
    rfl

theorem wfP : ∀ N : Nat, SOpsWf (List.replicate N opP)
  | 0 => trivial
  | N + 1 => ⟨⟨by decide, 0, by decide, rfl⟩, wfP N⟩

theorem blkP_wf : blkP.Wf := ⟨by decide, by decide, by decide⟩

theorem invP : (stP 0).Inv := by
  refine ⟨by simp [stP], rfl, ?_, ?_, ?_⟩
  · intro b hb
    simp only [stP, List.replicate_succ, List.replicate_zero, List.mem_singleton] at hb
    subst hb; exact blkP_wf
  · intro b hb; cases hb
  · intro b hb
    simp only [stP, List.replicate_succ, List.head?_cons, Option.some.injEq] at hb
    subst hb
    exact ⟨by decide, by decide⟩

/-- if the block count wraps, the unwind of the enclosing scope pops nothing -/
theorem scopeP (N : Nat) (hk : sub64 N 0 = 0) :
    (runOp cfgP envP (stP 0) 0 (.scope (List.replicate N opP))).st = stP (0 + N) := by
  have htop : (stP 0).top = some ⟨0, 32, 32⟩ := by decide
  simp only [runOp, htop, runP, MemStack.unwind]
  have hu : (stP (0 + N)) = ⟨⟨.growing 1 1 16, true, List.replicate (0 + N + 1) blkP, []⟩, 32, 0⟩ := rfl
  rw [hu, unwindEv_core]
  have hc : unwindCore cfgP 32 (List.replicate (0 + N + 1) blkP) ⟨0, 32, 32⟩ =
      (32, List.replicate (0 + N + 1) blkP, [], .done) := by
    unfold unwindCore
    have hb : blkEnd (List.replicate (0 + N + 1) blkP) = some 32 := by
      rw [List.replicate_succ]
      show some (blkP.usable.base + blkP.usable.size) = some 32
      decide
    rw [hb]
    simp only [List.length_replicate, Nat.zero_add, Nat.add_sub_cancel]
    have h1 : ∀ x : Bool, (cfgP.assert && x) = false := fun _ => rfl
    have h2 : (cfgP.ptrCheck && !decide (0 ≤ N)) = false := by simp
    have h3 : (cfgP.ptrCheck && !decide (32 ≥ 32)) = false := by decide
    simp only [hk, h1, h2, h3, Bool.false_eq_true, if_false, ne_eq, not_true_eq_false]
  rw [hc]
  simp only [List.append_nil]

theorem replayP_first (n k : Nat) (ops : List SOp) :
    (runOps cfgP envN (stP n) k (opP :: ops)).outs =
      .throws .upstream :: (runOps cfgP envN (runOp cfgP envN (stP n) k opP).st (runOp cfgP envN (stP n) k opP).k ops).outs := by
  have hal : ((stP n).allocate cfgP 1 1 [envN k]).2.1 = .throws .upstream := by
    rw [allocate_eq]
    have hg : growDec cfgP (stP n).cur (stP n).arena.used 1 1 = some true := by
      simp only [stP, List.replicate_succ]; exact growP _
    rw [hg]
    simp only []
    have ha : (stP n).arena.allocateBlock [envN k] =
        .fail (stP n).arena .upstream [.alloc 16 maxAlign none] [] := by
      simp only [stP, envN]
      rw [arena_alloc_src _ (.inr rfl)]
      simp only [Src.allocateBlock]
    rw [ha]
  simp only [runOps, opP, runOp, hal, List.singleton_append]

theorem wrap_counterexample_gen (M : Nat) (hk : sub64 (M + 1) 0 = 0) :
    (stP 0).Inv ∧ SOpsWf (List.replicate (M + 1) opP) ∧ cfgP.fence ≤ 2 ^ 16 ∧
      (∀ b ∈ (runOps cfgP envP (stP 0) 0 (List.replicate (M + 1) opP)).acquired, b.Wf) ∧
      (∀ b ∈ (runOp cfgP envP (stP 0) 0 (.scope (List.replicate (M + 1) opP))).acquired, b.Wf) ∧
      (∀ o ∈ (runOps cfgP envP (stP 0) 0 (List.replicate (M + 1) opP)).outs, o ≠ .throws .upstream) ∧
      (runOp cfgP envP (stP 0) 0 (.scope (List.replicate (M + 1) opP))).st.arena.used ≠ (stP 0).arena.used ∧
      (runOps cfgP envN (runOp cfgP envP (stP 0) 0 (.scope (List.replicate (M + 1) opP))).st 0
          (List.replicate (M + 1) opP)).outs ≠
        (runOps cfgP envP (stP 0) 0 (List.replicate (M + 1) opP)).outs := by
  have hacq : ∀ b ∈ (runOps cfgP envP (stP 0) 0 (List.replicate (M + 1) opP)).acquired, b.Wf := by
    rw [runP]
    intro b hb
    rw [(List.mem_replicate.mp hb).2]; exact blkP_wf
  refine ⟨invP, wfP _, by decide, hacq, ?_, ?_, ?_, ?_⟩
  · rw [(scope_proj cfgP envP (stP 0) 0 _ invP.nonempty).1]; exact hacq
  · rw [runP]
    intro o ho
    rw [(List.mem_replicate.mp ho).2]; decide
  · rw [scopeP _ hk]
    intro h
    have := congrArg List.length h
    simp [stP] at this
  · rw [scopeP _ hk, runP]
    rw [List.replicate_succ, List.replicate_succ, replayP_first]
    intro h
    have := (List.cons.inj h).1
    exact absurd this (by decide)

/-- machine-checked refutation of `scope_restores` and `replay_same` as stated, with a growing (non-static)
source: a history of 2^64 allocations each of which pushes a new (well-formed, but not disjoint) block. -/
theorem wrap_counterexample :
    ∃ (cfg : Cfg) (e e' : EnvS) (s : MemStack) (k k' : Nat) (ops : List SOp),
      s.Inv ∧ SOpsWf ops ∧ cfg.fence ≤ 2 ^ 16 ∧ (∀ b ∈ (runOps cfg e s k ops).acquired, b.Wf) ∧
      (∀ b ∈ (runOp cfg e s k (.scope ops)).acquired, b.Wf) ∧
      (∀ o ∈ (runOps cfg e s k ops).outs, o ≠ .throws .upstream) ∧
      (runOp cfg e s k (.scope ops)).st.arena.used ≠ s.arena.used ∧
      (runOps cfg e' (runOp cfg e s k (.scope ops)).st k' ops).outs ≠ (runOps cfg e s k ops).outs :=
  ⟨cfgP, envP, envN, stP 0, 0, 0, List.replicate (18446744073709551615 + 1) opP,
    wrap_counterexample_gen 18446744073709551615 (by decide)⟩

/-! ### static source -/

/-- counterexample state: a stack over a `static_block_allocator` with one block in use -/
def cexState : MemStack :=
  { arena := { src := .static_ 1000 100000 1000, isCached := true, used := [⟨100, 100⟩], cached := [] },
    cur := 116 }

theorem cexState_inv : cexState.Inv := by
  refine ⟨by decide, rfl, ?_, ?_, ?_⟩
  · intro b hb
    simp only [cexState, List.mem_singleton] at hb
    subst hb
    exact ⟨by decide, by decide, by decide⟩
  · intro b hb; cases hb
  · intro b hb
    simp only [cexState, List.head?_cons, Option.some.injEq] at hb
    subst hb
    exact ⟨by decide, by decide⟩

/-- machine-checked refutation of `scope_restores` as stated (static source) -/
theorem scope_restores_counterexample :
    ∃ (cfg : Cfg) (e : EnvS) (s : MemStack) (k : Nat) (ops : List SOp),
      s.Inv ∧ SOpsWf ops ∧ cfg.fence ≤ 2 ^ 16 ∧ (∀ b ∈ (runOp cfg e s k (.scope ops)).acquired, b.Wf) ∧
      (runOp cfg e s k (.scope ops)).st.arena.cached ≠
        s.arena.cached ++ (runOp cfg e s k (.scope ops)).acquired := by
  refine ⟨{ fence := 0 }, fun _ => none, cexState, 0, [.alloc 500 1], cexState_inv, ?_, by decide, ?_, by decide⟩
  · exact ⟨⟨by decide, 0, by decide, rfl⟩, trivial⟩
  · have h : (runOp { fence := 0 } (fun _ => none) cexState 0 (.scope [.alloc 500 1])).acquired = [] := by decide
    intro b hb
    rw [h] at hb
    cases hb

end MemVerif.Model
