import MemVerif.Model.Stack
import MemVerif.Lemmas.StackArith
/-! Lemmas about the `iteration_allocator<N>` model. -/
namespace MemVerif.Model
open MemVerif.Gen MemVerif.Bits

theorem mul64_eq {a b : Nat} (h : a * b < 2 ^ 64) (ha : a < 2 ^ 64) (hb : b < 2 ^ 64) : mul64 a b = a * b := by
  unfold mul64
  rw [BitVec.toNat_mul, ofNat_toNat_lt ha, ofNat_toNat_lt hb, Nat.mod_eq_of_lt h]

/-- the hypotheses under which the region arithmetic is exact: `N ≥ 1`, `N * size` does not wrap -/
structure IterGeo (n : Nat) (block : Blk) : Prop where
  npos : 0 < n
  nsmall : n < 2 ^ 32
  noWrap : (n + 1) * block.size < 2 ^ 64
  hi : block.base + block.size ≤ 2 ^ 62
  basePos : 0 < block.base

abbrev Iter.Geo (it : Iter) : Prop := IterGeo it.n it.block

theorem Iter.blockStart_eq (it : Iter) (g : it.Geo) (i : Nat) (hi : i ≤ it.n) :
    it.blockStart i = it.block.base + i * it.block.size / it.n := by
  unfold Iter.blockStart
  have hle : i * it.block.size ≤ (it.n + 1) * it.block.size := Nat.mul_le_mul_right _ (by omega)
  have h1 : i * it.block.size < 2 ^ 64 := Nat.lt_of_le_of_lt hle g.noWrap
  have hs : it.block.size < 2 ^ 64 := by have := g.hi; omega
  rw [mul64_eq h1 (by have := g.nsmall; omega) hs]

theorem Iter.blockStart_zero (it : Iter) (g : it.Geo) : it.blockStart 0 = it.block.base := by
  rw [it.blockStart_eq g 0 (by omega)]; simp

theorem Iter.blockStart_n (it : Iter) (g : it.Geo) : it.blockStart it.n = it.block.base + it.block.size := by
  rw [it.blockStart_eq g it.n (Nat.le_refl _), Nat.mul_comm, Nat.mul_div_cancel _ g.npos]

theorem Iter.blockStart_mono (it : Iter) (g : it.Geo) {i j : Nat} (hij : i ≤ j) (hj : j ≤ it.n) :
    it.blockStart i ≤ it.blockStart j := by
  rw [it.blockStart_eq g i (by omega), it.blockStart_eq g j hj]
  apply Nat.add_le_add_left
  exact Nat.div_le_div_right (Nat.mul_le_mul_right _ hij)

/-- regions of different iterations are disjoint: region `i` ends at or before region `j` starts (`i < j`) -/
theorem Iter.regions_disjoint (it : Iter) (g : it.Geo) {i j : Nat} (hij : i < j) (hj : j < it.n) :
    it.blockEnd i ≤ it.blockStart j :=
  it.blockStart_mono g (by omega) (by omega)

theorem Iter.region_inside (it : Iter) (g : it.Geo) {i : Nat} (hi : i < it.n) :
    it.block.base ≤ it.blockStart i ∧ it.blockEnd i ≤ it.block.base + it.block.size := by
  constructor
  · rw [← it.blockStart_zero g]; exact it.blockStart_mono g (by omega) (by omega)
  · unfold Iter.blockEnd; rw [← it.blockStart_n g]; exact it.blockStart_mono g (by omega) (Nat.le_refl _)

/-- invariant: every stack's top lies inside its own region -/
structure Iter.Inv (it : Iter) : Prop where
  geo : it.Geo
  len : it.tops.length = it.n
  cur : it.cur < it.n
  topIn : ∀ i, i < it.n → it.blockStart i ≤ it.tops.getD i 0 ∧ it.tops.getD i 0 ≤ it.blockEnd i

theorem List.getD_set_eq' {α} (l : List α) (i : Nat) (v d : α) (h : i < l.length) : (l.set i v).getD i d = v := by
  simp [List.getD, h]

theorem List.getD_set_ne' {α} (l : List α) (i j : Nat) (v d : α) (h : i ≠ j) : (l.set i v).getD j d = l.getD j d := by
  simp [List.getD, List.getElem?_set_ne h]

/-- a successful `allocate`/`try_allocate` returns memory inside the current region, aligned, and keeps the invariant;
stacks of the other iterations are untouched -/
theorem Iter.alloc_step (cfg : Cfg) (it : Iter) (hI : it.Inv) (size k : Nat) (hk : k < 48) (hs : size < 2 ^ 64)
    (hf : cfg.fence ≤ 2 ^ 16) (p c : Nat)
    (h : fixedAllocate (it.tops.getD it.cur 0) (it.blockEnd it.cur) size (2 ^ k) cfg.fence = some (p, c)) :
    let it' := { it with tops := it.tops.set it.cur c }
    it'.Inv ∧ p % 2 ^ k = 0 ∧ it.tops.getD it.cur 0 + cfg.fence ≤ p ∧ p + size + cfg.fence = c ∧ c ≤ it.blockEnd it.cur ∧
      (∀ j, j ≠ it.cur → it'.tops.getD j 0 = it.tops.getD j 0) := by
  intro it'
  have hti := hI.topIn it.cur hI.cur
  have hin := it.region_inside hI.geo hI.cur
  have hhi := hI.geo.hi
  have hk64 : k < 64 := by omega
  have h2k : 2 ^ k ≤ 2 ^ 48 := Nat.pow_le_pow_right (by decide) (by omega)
  have sp := fixedAllocate_spec hk64 hti.2 (by omega) hs (by omega) h
  obtain ⟨h1, h2, _, h4, h5⟩ := sp
  refine ⟨?_, h1, h2, h4.symm, h5, ?_⟩
  · refine ⟨hI.geo, by simp [it', hI.len], hI.cur, ?_⟩
    intro i hi
    by_cases hic : i = it.cur
    · subst hic
      have : it'.tops.getD it.cur 0 = c := List.getD_set_eq' _ _ _ _ (by rw [hI.len]; exact hI.cur)
      show it.blockStart it.cur ≤ it'.tops.getD it.cur 0 ∧ it'.tops.getD it.cur 0 ≤ it.blockEnd it.cur
      rw [this]; omega
    · have : it'.tops.getD i 0 = it.tops.getD i 0 := List.getD_set_ne' _ _ _ _ _ (Ne.symm hic)
      show it.blockStart i ≤ it'.tops.getD i 0 ∧ it'.tops.getD i 0 ≤ it.blockEnd i
      rw [this]; exact hI.topIn i hi
  · intro j hj
    exact List.getD_set_ne' _ _ _ _ _ (Ne.symm hj)

theorem Iter.next_inv (it : Iter) (hI : it.Inv) :
    it.nextIteration.Inv ∧ it.nextIteration.cur = (it.cur + 1) % it.n ∧
      it.nextIteration.capacityLeft it.nextIteration.cur =
        it.blockEnd ((it.cur + 1) % it.n) - it.blockStart ((it.cur + 1) % it.n) ∧
      (∀ j, j ≠ (it.cur + 1) % it.n → it.nextIteration.tops.getD j 0 = it.tops.getD j 0) := by
  have hc : (it.cur + 1) % it.n < it.n := Nat.mod_lt _ hI.geo.npos
  have hlen : (it.cur + 1) % it.n < it.tops.length := by rw [hI.len]; exact hc
  have hset : (it.tops.set ((it.cur + 1) % it.n) (it.blockStart ((it.cur + 1) % it.n))).getD ((it.cur + 1) % it.n) 0
      = it.blockStart ((it.cur + 1) % it.n) := List.getD_set_eq' _ _ _ _ hlen
  have hmono := it.blockStart_mono hI.geo (Nat.le_succ ((it.cur + 1) % it.n)) (by omega)
  refine ⟨⟨hI.geo, by simp [Iter.nextIteration, hI.len], hc, ?_⟩, rfl, ?_, ?_⟩
  · intro i hi
    by_cases hic : i = (it.cur + 1) % it.n
    · subst hic
      show it.blockStart _ ≤ (it.tops.set _ _).getD _ 0 ∧ (it.tops.set _ _).getD _ 0 ≤ it.blockEnd _
      rw [hset]; exact ⟨Nat.le_refl _, hmono⟩
    · show it.blockStart i ≤ (it.tops.set _ _).getD i 0 ∧ (it.tops.set _ _).getD i 0 ≤ it.blockEnd i
      rw [List.getD_set_ne' _ _ _ _ _ (Ne.symm hic)]; exact hI.topIn i hi
  · show sub64 (it.blockEnd ((it.cur + 1) % it.n)) ((it.tops.set _ _).getD ((it.cur + 1) % it.n) 0) = _
    rw [hset]
    have hin := it.region_inside hI.geo hc
    have := hI.geo.hi
    exact sub64_eq hmono (by omega)
  · intro j hj
    exact List.getD_set_ne' _ _ _ _ _ (Ne.symm hj)

/-- `k` calls of `next_iteration` -/
def Iter.nextN (it : Iter) : Nat → Iter
  | 0 => it
  | k + 1 => (it.nextN k).nextIteration

theorem Iter.nextN_spec (it : Iter) (hI : it.Inv) (k : Nat) :
    (it.nextN k).Inv ∧ (it.nextN k).cur = (it.cur + k) % it.n ∧ (it.nextN k).n = it.n ∧ (it.nextN k).block = it.block := by
  induction k with
  | zero => exact ⟨hI, by simp [Iter.nextN, Nat.mod_eq_of_lt hI.cur], rfl, rfl⟩
  | succ k ih =>
    obtain ⟨h1, h2, h3, h4⟩ := ih
    have hn := Iter.next_inv _ h1
    refine ⟨hn.1, ?_, h3, h4⟩
    show (it.nextN k).nextIteration.cur = _
    rw [hn.2.1, h2, h3]
    rw [Nat.add_mod, Nat.mod_mod, ← Nat.add_mod]; rfl

/-- the stack of iteration `c` is untouched by fewer than `N` switches away from `c` -/
theorem Iter.nextN_keeps (it : Iter) (hI : it.Inv) (k : Nat) (hk : k < it.n) :
    (it.nextN k).tops.getD it.cur 0 = it.tops.getD it.cur 0 := by
  induction k with
  | zero => rfl
  | succ k ih =>
    have ih' := ih (by omega)
    obtain ⟨h1, h2, h3, _⟩ := it.nextN_spec hI k
    have hn := Iter.next_inv _ h1
    show (it.nextN k).nextIteration.tops.getD it.cur 0 = _
    rw [hn.2.2.2 it.cur ?_, ih']
    rw [h2, h3]
    intro hc
    -- it.cur = (it.cur + k + 1) % n with 0 < k + 1 < n is impossible
    have hcur := hI.cur
    have hnp := hI.geo.npos
    have e : ((it.cur + k) % it.n + 1) % it.n = (it.cur + (k + 1)) % it.n := by
      rw [Nat.add_mod, Nat.mod_mod, ← Nat.add_mod]; rfl
    rw [e] at hc
    by_cases hlt : it.cur + (k + 1) < it.n
    · rw [Nat.mod_eq_of_lt hlt] at hc; omega
    · have : (it.cur + (k + 1)) % it.n = it.cur + (k + 1) - it.n := by
        rw [Nat.mod_eq_sub_mod (by omega), Nat.mod_eq_of_lt (by omega)]
      omega

end MemVerif.Model
