import MemVerif.Lemmas.C02Coll
import MemVerif.Lemmas.C04CollArr
/-!
C02 for `memory_pool_collection` over the intrusive free lists, **node and array operations and `reserve`**: the grid
invariant (`Coll.Grid`: every free cell of every bucket and every cell the caller holds is aligned to
`alignment_for(node size of the bucket)`) is kept by `allocate_array` (all three stages), `try_allocate_array`,
`deallocate_array` and `reserve`, hence by every history of `GCollA`.
-/
namespace MemVerif.Model
open MemVerif.Gen MemVerif.Props

/-- a list operation that keeps `Same` and only has cells that are aligned -/
theorem GridList.of_same {l l' : AnyList} (hg : GridList l) (hs : AnyList.Same l l')
    (hc : ∀ x ∈ l'.cells, alignOfNs l.nodeSize ∣ x) : GridList l' ∧ l'.nodeSize = l.nodeSize :=
  ⟨⟨fun P => by rw [hs.obj]; exact hg.intr P, by rw [hs.ns]; exact hg.pos, by rw [hs.ns]; exact hg.lt,
    fun x hx => by rw [hs.ns]; exact hc x hx⟩, hs.ns⟩

theorem Keeps.pair {c c1 : Coll} (h : Keeps c c1) {live : List (Nat × Nat)} (hg : c.Grid live) :
    Keeps c c1 ∧ c1.LiveGrid live := ⟨h, (h.gridOf hg).2⟩

/-- a run taken from bucket `listIndex size`: the grid is kept, the cells of the run are aligned -/
theorem CInv.takeRun_keeps {arr arrLen : Nat} {c0 c : Coll} {live : List (Nat × Nat)} (h : CInv arr arrLen c live) (hx : CExt c0 c)
    (hg : c.Grid live) {count size a : Nat} {l1 l2 : AnyList} (hl1 : c.lists[c0.listIndex size]? = some l1)
    (hal : l1.allocateBytes (mul64 count size) = some (l2, some a)) :
    Keeps c (c.setList (c0.listIndex size) l2) ∧
      (c.setList (c0.listIndex size) l2).LiveGrid (ledgerArr (c.setList (c0.listIndex size) l2) live count size (.ok a)) := by
  rw [← hx.listIndex size] at hl1 ⊢
  obtain ⟨_, hS, hpos⟩ := h.lists _ l1 hl1
  obtain ⟨A, B, hc1, hc2, hsame, _⟩ := AnyList.allocateBytes_spec hS hpos hal
  have hgl := hg.1 l1 (List.mem_of_getElem? hl1)
  have hk : Keeps c (c.setList (c.listIndex size) l2) :=
    Keeps.setList hl1 (fun _ => GridList.of_same hgl hsame (fun x hx => hgl.cells x (by
      rw [hc2] at hx; rw [hc1]
      rcases List.mem_append.mp hx with hx | hx
      · exact List.mem_append_left _ (List.mem_append_left _ hx)
      · exact List.mem_append_right _ hx)))
  unfold ledgerArr arrCells
  simp only
  rw [Coll.nsOf_setList_self c hl1 hsame.ns]
  refine ⟨hk, ?_⟩
  intro as has
  rw [hk.ns hg.1]
  rcases List.mem_append.mp has with has | has
  · unfold arrEntries at has
    obtain ⟨x, hx, rfl⟩ := List.mem_map.mp has
    have hns : c.nsOf size = l1.nodeSize := by unfold Coll.nsOf; rw [hl1]; rfl
    simp only
    rw [hns]
    exact hgl.cells x (by rw [hc1]; exact List.mem_append_left _ (List.mem_append_right _ hx))
  · exact hg.2 as has

/-- `deallocate_array` of an array the caller holds keeps the grid -/
theorem Coll.deallocateArray_grid (cfg : Cfg) {arr arrLen : Nat} {c : Coll} {live : List (Nat × Nat)}
    (h : CInv arr arrLen c live) (hg : c.Grid live) {a count s : Nat} {l : AnyList} (hl : c.lists[c.listIndex s]? = some l)
    (hsub : ∀ e ∈ arrEntries l.nodeSize a s (cellsOf l.nodeSize (mul64 count s)), e ∈ live) :
    (c.deallocateArray cfg a count s).st.Grid
      (removeEntries live (arrEntries l.nodeSize a s (cellsOf l.nodeSize (mul64 count s)))) := by
  obtain ⟨l', hd, hperm, hsame, _⟩ := h.arrayRelease_list cfg hl hsub
  have hns : c.nsOf s = l.nodeSize := by unfold Coll.nsOf; rw [hl]; rfl
  have hgl := hg.1 l (List.mem_of_getElem? hl)
  unfold Coll.deallocateArray
  simp only [hl, hd]
  have hk : Keeps c (c.setList (c.listIndex s) l') :=
    Keeps.setList hl (fun _ => GridList.of_same hgl hsame (fun x hx => by
      rcases List.mem_append.mp (hperm.subset hx) with hx | hx
      · have hm : (x, s) ∈ arrEntries l.nodeSize a s (cellsOf l.nodeSize (mul64 count s)) :=
          List.mem_map.mpr ⟨x, hx, rfl⟩
        have := hg.2 (x, s) (hsub _ hm)
        simp only at this
        rwa [hns] at this
      · exact hgl.cells x hx))
  refine ⟨hk.grid hg.1, fun as has => ?_⟩
  rw [hk.ns hg.1]
  unfold removeEntries removeAllOf at has
  exact hg.2 as (List.mem_filter.mp has).1

/-- `allocate_array`: grid and node sizes are kept through all three stages, the cells of the array are on the grid -/
theorem Coll.allocateArray_keeps (cfg : Cfg) {arr arrLen : Nat} {c : Coll} {live : List (Nat × Nat)} (h : CInv arr arrLen c live)
    (hg : c.Grid live) (hf : cfg.fence ≤ 2 ^ 32) (count size : Nat) (env : List (Option Nat))
    (hb : BlocksOk (c.allocateArray cfg count size env).st.arena.used) :
    Keeps c (c.allocateArray cfg count size env).st ∧ (c.allocateArray cfg count size env).st.LiveGrid
      (ledgerArr (c.allocateArray cfg count size env).st live count size (c.allocateArray cfg count size env).out) := by
  unfold Coll.allocateArray at hb ⊢
  split
  · exact (Keeps.refl c).pair hg
  · rename_i hsz
    simp only [hsz, if_false] at hb
    cases hl : c.lists[c.listIndex size]? with
    | none => simp only [hl]; exact (Keeps.refl c).pair hg
    | some l =>
    cases hdc0 : c.defCapacity with
    | none => simp only [hl, hdc0]; exact (Keeps.refl c).pair hg
    | some dc0 =>
      simp only [hl, hdc0] at hb ⊢
      have hdc := Coll.defCapacity_lt h hdc0 l
      cases hfirst : (if l.empty = true then some (l, none) else l.allocateBytes (mul64 count size)) with
      | none => simp only [hfirst]; exact (Keeps.refl c).pair hg
      | some r0 =>
        obtain ⟨l', oa⟩ := r0
        cases oa with
        | some a =>
          simp only [hfirst] at hb ⊢
          have hal : l.allocateBytes (mul64 count size) = some (l', some a) := by
            by_cases hemp : l.empty
            · simp [hemp] at hfirst
            · simpa [hemp] using hfirst
          exact h.takeRun_keeps (CExt.refl c) hg hl hal
        | none =>
          simp only [hfirst] at hb ⊢
          cases hres : c.reserve cfg (c.listIndex size) (growCapacity l 64 dc0) env with
          | mk r om =>
            have hx1 : CExt c r.st := Coll.reserve_ext' hres
            have kk1 : BlocksOk r.st.arena.used → Keeps c r.st ∧ ∀ mem, om = some mem → 16 ∣ mem := by
              intro hbr
              have := Coll.reserve_keeps cfg h hf (c.listIndex size) hdc env (by rw [hres]; exact hbr)
              rw [hres] at this
              exact this
            have key1 : BlocksOk r.st.arena.used → CInv arr arrLen r.st live ∧ ∀ mem, om = some mem → RegionFree arr arrLen r.st live mem (growCapacity l 64 dc0) := by
              intro hbr
              have := h.reserve_spec cfg hf (c.listIndex size) hdc env (by rw [hres]; exact hbr)
              rw [hres] at this
              exact this
            have hne1 : ∀ a, r.out ≠ .ok a := by
              intro a
              have := Coll.reserve_ne_ok cfg c (c.listIndex size) (growCapacity l 64 dc0) env a
              rw [hres] at this; exact this
            simp only [hres] at hb ⊢
            cases om with
            | none =>
              simp only at hb ⊢
              rw [ledgerArr_not_ok _ _ _ _ hne1]
              exact (kk1 hb).1.pair hg
            | some mem =>
              simp only at hb ⊢
              cases hl1 : r.st.lists[c.listIndex size]? with
              | none => simp only [hl1] at hb ⊢; exact (kk1 hb).1.pair hg
              | some l1 =>
                simp only [hl1] at hb ⊢
                cases hins : l1.insert cfg mem (growCapacity l 64 dc0) with
                | handler k => simp only [hins] at hb ⊢; exact (kk1 hb).1.pair hg
                | crash => simp only [hins] at hb ⊢; exact (kk1 hb).1.pair hg
                | ok l2 =>
                  simp only [hins] at hb ⊢
                  have kk2 : BlocksOk r.st.arena.used → Keeps c (r.st.setList (c.listIndex size) l2) := by
                    intro hbr
                    obtain ⟨q1, q2⟩ := kk1 hbr
                    exact q1.trans (Keeps.setList hl1 (fun hgl => AnyList.insert_grid cfg hgl (q2 mem rfl) hins))
                  have hc2 : BlocksOk r.st.arena.used → CInv arr arrLen (r.st.setList (c.listIndex size) l2) live := by
                    intro hbr
                    obtain ⟨k1, k2⟩ := key1 hbr
                    exact k1.insertFree cfg hl1 (k2 mem rfl) hins
                  have hl2 : (r.st.setList (c.listIndex size) l2).lists[c.listIndex size]? = some l2 := by
                    unfold Coll.setList
                    have hlt : c.listIndex size < r.st.lists.length := by
                      rcases Nat.lt_or_ge (c.listIndex size) r.st.lists.length with h' | h'
                      · exact h'
                      · rw [List.getElem?_eq_none h'] at hl1; cases hl1
                    simp [hlt]
                  cases hal2 : l2.allocateBytes (mul64 count size) with
                  | none => simp only [hal2] at hb ⊢; exact (kk2 hb).pair hg
                  | some r2 =>
                    obtain ⟨l3, oa2⟩ := r2
                    cases oa2 with
                    | some a =>
                      simp only [hal2] at hb ⊢
                      exact ((hc2 hb).takeRun_keeps (kk2 hb).ext ((kk2 hb).gridOf hg) hl2 hal2).imp_left (kk2 hb).trans
                    | none =>
                      simp only [hal2] at hb ⊢
                      by_cases hfit : mul64 (ceilNodes (mul64 count size) l2.nodeSize) l2.nodeSize >
                          add64 (sub64 (r.st.setList (c.listIndex size) l2).nextCapacity l2.alignment) 1
                      · simp only [hfit, if_true] at hb ⊢
                        exact (kk2 hb).pair hg
                      · simp only [hfit, if_false] at hb ⊢
                        generalize hasz : mul64 (ceilNodes (mul64 count size) l2.nodeSize) l2.nodeSize = asz at hb ⊢
                        generalize henv' : List.drop (List.filter (fun e => match e with | UpEv.alloc _ _ _ => true | _ => false) r.ev).length env = env' at hb ⊢
                        cases hres2 : (r.st.setList (c.listIndex size) l2).reserve cfg (c.listIndex size) asz env' with
                        | mk r2 om2 =>
                          have hx3 : CExt (r.st.setList (c.listIndex size) l2) r2.st := Coll.reserve_ext' hres2
                          have hbr : BlocksOk r2.st.arena.used → BlocksOk r.st.arena.used := fun hb2 => hb2.suffix hx3.used
                          have haszlt : asz < 2 ^ 64 := by rw [← hasz]; exact mul64_lt _ _
                          have kk3 : BlocksOk r2.st.arena.used → Keeps c r2.st ∧ ∀ mem, om2 = some mem → 16 ∣ mem := by
                            intro hb2
                            have := Coll.reserve_keeps cfg (hc2 (hbr hb2)) hf (c.listIndex size) haszlt env' (by rw [hres2]; exact hb2)
                            rw [hres2] at this
                            exact ⟨(kk2 (hbr hb2)).trans this.1, this.2⟩
                          have key2 : BlocksOk r2.st.arena.used → CInv arr arrLen r2.st live ∧ ∀ mem, om2 = some mem → RegionFree arr arrLen r2.st live mem asz := by
                            intro hb2
                            have := (hc2 (hbr hb2)).reserve_spec cfg hf (c.listIndex size) (cap := asz) haszlt env'
                              (by rw [hres2]; exact hb2)
                            rw [hres2] at this
                            exact this
                          have hne2 : ∀ a, r2.out ≠ .ok a := by
                            intro a
                            have := Coll.reserve_ne_ok cfg (r.st.setList (c.listIndex size) l2) (c.listIndex size) asz env' a
                            rw [hres2] at this; exact this
                          simp only [hres2] at hb ⊢
                          cases om2 with
                          | none =>
                            simp only at hb ⊢
                            rw [ledgerArr_not_ok _ _ _ _ hne2]
                            exact (kk3 hb).1.pair hg
                          | some mem2 =>
                            simp only at hb ⊢
                            cases hl4 : r2.st.lists[c.listIndex size]? with
                            | none => simp only [hl4] at hb ⊢; exact (kk3 hb).1.pair hg
                            | some l4 =>
                              simp only [hl4] at hb ⊢
                              cases hins2 : l4.insert cfg mem2 asz with
                              | handler k => simp only [hins2] at hb ⊢; exact (kk3 hb).1.pair hg
                              | crash => simp only [hins2] at hb ⊢; exact (kk3 hb).1.pair hg
                              | ok l5 =>
                                simp only [hins2] at hb ⊢
                                have kk5 : BlocksOk r2.st.arena.used → Keeps c (r2.st.setList (c.listIndex size) l5) := by
                                  intro hb2
                                  obtain ⟨q1, q2⟩ := kk3 hb2
                                  exact q1.trans (Keeps.setList hl4 (fun hgl => AnyList.insert_grid cfg hgl (q2 mem2 rfl) hins2))
                                have hc5 : BlocksOk r2.st.arena.used → CInv arr arrLen (r2.st.setList (c.listIndex size) l5) live := by
                                  intro hb2
                                  obtain ⟨k1, k2⟩ := key2 hb2
                                  exact k1.insertFree cfg hl4 (k2 mem2 rfl) hins2
                                have hl5 : (r2.st.setList (c.listIndex size) l5).lists[c.listIndex size]? = some l5 := by
                                  unfold Coll.setList
                                  have hlt : c.listIndex size < r2.st.lists.length := by
                                    rcases Nat.lt_or_ge (c.listIndex size) r2.st.lists.length with h' | h'
                                    · exact h'
                                    · rw [List.getElem?_eq_none h'] at hl4; cases hl4
                                  simp [hlt]
                                cases hal5 : l5.allocateBytes (mul64 count size) with
                                | none => simp only [hal5] at hb ⊢; exact (kk5 hb).pair hg
                                | some r5 =>
                                  obtain ⟨l6, oa5⟩ := r5
                                  cases oa5 with
                                  | none => simp only [hal5] at hb ⊢; exact (kk5 hb).pair hg
                                  | some a =>
                                    simp only [hal5] at hb ⊢
                                    have t2 := (hc5 hb).takeRun_keeps (kk5 hb).ext ((kk5 hb).gridOf hg) hl5 hal5
                                    rw [Coll.setList_setList] at t2
                                    exact t2.imp_left (kk5 hb).trans

/-- `try_allocate_array` keeps the grid -/
theorem Coll.tryAllocateArray_keeps (cfg : Cfg) {arr arrLen : Nat} {c : Coll} {live : List (Nat × Nat)} (h : CInv arr arrLen c live)
    (hg : c.Grid live) (hf : cfg.fence ≤ 2 ^ 32) (count size : Nat) :
    Keeps c (c.tryAllocateArray cfg count size).st ∧ (c.tryAllocateArray cfg count size).st.LiveGrid
      (ledgerArr (c.tryAllocateArray cfg count size).st live count size (c.tryAllocateArray cfg count size).out) := by
  unfold Coll.tryAllocateArray
  split
  · exact (Keeps.refl c).pair hg
  · cases hl : c.lists[c.listIndex size]? with
    | none => simp only [hl]; exact (Keeps.refl c).pair hg
    | some l =>
    cases hdc0 : c.defCapacity with
    | none => simp only [hl, hdc0]; exact (Keeps.refl c).pair hg
    | some dc0 =>
      simp only [hl, hdc0]
      have hdc := Coll.defCapacity_lt h hdc0 l
      have key : ∀ c1, CInv arr arrLen c1 live → Keeps c c1 →
          Keeps c (match c1.lists[c.listIndex size]? with
              | some l1 => if l1.empty then (⟨c1, .null, []⟩ : PRes Coll)
                  else (match l1.allocateBytes (mul64 count size) with
                    | some (l2, some a) => ⟨c1.setList (c.listIndex size) l2, .ok a, []⟩
                    | some (_, none) => ⟨c1, .null, []⟩
                    | none => ⟨c1, .crash, []⟩)
              | none => ⟨c1, .crash, []⟩).st ∧
          (match c1.lists[c.listIndex size]? with
              | some l1 => if l1.empty then (⟨c1, .null, []⟩ : PRes Coll)
                  else (match l1.allocateBytes (mul64 count size) with
                    | some (l2, some a) => ⟨c1.setList (c.listIndex size) l2, .ok a, []⟩
                    | some (_, none) => ⟨c1, .null, []⟩
                    | none => ⟨c1, .crash, []⟩)
              | none => ⟨c1, .crash, []⟩).st.LiveGrid
            (ledgerArr
              (match c1.lists[c.listIndex size]? with
              | some l1 => if l1.empty then (⟨c1, .null, []⟩ : PRes Coll)
                  else (match l1.allocateBytes (mul64 count size) with
                    | some (l2, some a) => ⟨c1.setList (c.listIndex size) l2, .ok a, []⟩
                    | some (_, none) => ⟨c1, .null, []⟩
                    | none => ⟨c1, .crash, []⟩)
              | none => ⟨c1, .crash, []⟩).st live count size
              (match c1.lists[c.listIndex size]? with
              | some l1 => if l1.empty then (⟨c1, .null, []⟩ : PRes Coll)
                  else (match l1.allocateBytes (mul64 count size) with
                    | some (l2, some a) => ⟨c1.setList (c.listIndex size) l2, .ok a, []⟩
                    | some (_, none) => ⟨c1, .null, []⟩
                    | none => ⟨c1, .crash, []⟩)
              | none => ⟨c1, .crash, []⟩).out) := by
        intro c1 h1 hk
        have hg1 := hk.gridOf hg
        have hp1 := hk.pair hg
        cases hl1 : c1.lists[c.listIndex size]? with
        | none => exact hp1
        | some l1 =>
          simp only
          split
          · exact hp1
          · cases hal : l1.allocateBytes (mul64 count size) with
            | none => exact hp1
            | some r =>
              obtain ⟨l2, oa⟩ := r
              cases oa with
              | none => exact hp1
              | some a => exact (h1.takeRun_keeps hk.ext hg1 hl1 hal).imp_left hk.trans
      by_cases hemp : l.empty
      · simp only [hemp, if_true]
        cases htr : c.tryReserve cfg (c.listIndex size) (growCapacity l 64 dc0) with
        | none => exact (Keeps.refl c).pair hg
        | some c1 => exact key c1 (h.tryReserve_spec cfg hf hdc htr) (Coll.tryReserve_keeps cfg h hf _ hdc htr)
      · simp only [hemp, Bool.false_eq_true, if_false]
        exact key c h (Keeps.refl c)

theorem Coll.allocateArray_grid (cfg : Cfg) {arr arrLen : Nat} {c : Coll} {live : List (Nat × Nat)} (h : CInv arr arrLen c live)
    (hg : c.Grid live) (hf : cfg.fence ≤ 2 ^ 32) (count size : Nat) (env : List (Option Nat))
    (hb : BlocksOk (c.allocateArray cfg count size env).st.arena.used) :
    (c.allocateArray cfg count size env).st.Grid
      (ledgerArr (c.allocateArray cfg count size env).st live count size (c.allocateArray cfg count size env).out) :=
  have := Coll.allocateArray_keeps cfg h hg hf count size env hb
  ⟨this.1.grid hg.1, this.2⟩

theorem Coll.tryAllocateArray_grid (cfg : Cfg) {arr arrLen : Nat} {c : Coll} {live : List (Nat × Nat)} (h : CInv arr arrLen c live)
    (hg : c.Grid live) (hf : cfg.fence ≤ 2 ^ 32) (count size : Nat) :
    (c.tryAllocateArray cfg count size).st.Grid
      (ledgerArr (c.tryAllocateArray cfg count size).st live count size (c.tryAllocateArray cfg count size).out) :=
  have := Coll.tryAllocateArray_keeps cfg h hg hf count size
  ⟨this.1.grid hg.1, this.2⟩

/-- `reserve(size, capacity)` keeps the grid -/
theorem Coll.reserveOp_grid (cfg : Cfg) {arr arrLen : Nat} {c : Coll} {live : List (Nat × Nat)} (h : CInv arr arrLen c live)
    (hg : c.Grid live) (hf : cfg.fence ≤ 2 ^ 32) (size : Nat) {capacity : Nat} (hcap : capacity < 2 ^ 64) (env : List (Option Nat))
    (hb : BlocksOk (c.reserveOp cfg size capacity env).st.arena.used) :
    (c.reserveOp cfg size capacity env).st.Grid live := by
  unfold Coll.reserveOp at hb ⊢
  simp only at hb ⊢
  cases hl : c.lists[c.listIndex size]? with
  | none => exact hg
  | some l =>
    simp only [hl] at hb ⊢
    exact (Coll.refill_keeps cfg h hf _ (growCapacity_lt l 64 capacity hcap) env hb).gridOf hg

/-! ### histories -/

theorem GCollA.step_grid (cfg : Cfg) (e : EnvS) {arr arrLen : Nat} (g : GCollA) (k : Nat) (op : COpA) (hfit : op.Fits)
    (hI : CInv arr arrLen g.c g.live) (hg : g.c.Grid g.live) (hf : cfg.fence ≤ 2 ^ 32)
    (hb : BlocksOk (g.step cfg e k op).1.c.arena.used) :
    (g.step cfg e k op).1.c.Grid (g.step cfg e k op).1.live := by
  unfold GCollA.step at hb ⊢
  cases op with
  | node op => exact GColl.step_grid cfg e ⟨g.c, g.live⟩ k op hI hg hf hb
  | allocArray count size => exact Coll.allocateArray_grid cfg hI hg hf count size _ hb
  | tryAllocArray count size => exact Coll.tryAllocateArray_grid cfg hI hg hf count size
  | reserve size capacity => exact Coll.reserveOp_grid cfg hI hg hf size hfit _ hb
  | deallocArray j =>
    simp only at hb ⊢
    cases hj : g.arrs[j]? with
    | none => exact hg
    | some acs =>
      obtain ⟨a, count, size⟩ := acs
      simp only
      cases hl : g.c.lists[g.c.listIndex size]? with
      | none => exact hg
      | some l =>
        simp only
        split
        · rename_i hall
          have hsub : ∀ x ∈ arrEntries l.nodeSize a size (arrCells l.nodeSize count size), x ∈ g.live := by
            intro x hx
            have := List.all_eq_true.mp hall x hx
            simpa using this
          exact Coll.deallocateArray_grid cfg hI hg hl hsub
        · exact hg

/-- **the grid over a history of node and array operations and `reserve`** -/
theorem GCollA.run_grid (cfg : Cfg) (e : EnvS) {arr arrLen : Nat} (hf : cfg.fence ≤ 2 ^ 32) (ops : List COpA) :
    ∀ (g : GCollA) (k : Nat), (∀ op ∈ ops, op.Fits) → CInv arr arrLen g.c g.live → g.c.Grid g.live →
      BlocksOk (g.run cfg e k ops).1.c.arena.used → (g.run cfg e k ops).1.c.Grid (g.run cfg e k ops).1.live := by
  induction ops with
  | nil => intro g k _ _ hg _; exact hg
  | cons op ops ih =>
    intro g k hfit hI hg hb
    have hb' := hb.suffix (GCollA.run_ext cfg e ops _ _).used
    have hfo := hfit op (by simp)
    exact ih _ _ (fun o ho => hfit o (by simp [ho])) (GCollA.step_inv cfg e g k op hfo hI hf hb')
      (GCollA.step_grid cfg e g k op hfo hI hg hf hb') hb

end MemVerif.Model
