import MemVerif.Lemmas.C06Strong
/-! Replay simulation: a run from `a` and a run from `b` = `a` with a longer cache (`replay_same`). -/
namespace MemVerif.Model

/-- replay relation: `b` is `a` with `P` appended to the cache -/
structure Sim (a b : MemStack) (P : List Blk) : Prop where
  cur : a.cur = b.cur
  used : a.arena.used = b.arena.used
  cached : b.arena.cached = a.arena.cached ++ P
  ca : a.arena.isCached = true
  cb : b.arena.isCached = true
  src : SrcSim a.arena.src b.arena.src P.length

theorem sim_alloc (cfg : Cfg) (e e' : EnvS) (a b : MemStack) (ka kb size align : Nat) (rest : List Blk)
    (h : Sim a b ((runOp cfg e a ka (.alloc size align)).acquired ++ rest))
    (hnf : ∀ o ∈ (runOp cfg e a ka (.alloc size align)).outs, o ≠ .throws .upstream) :
    (runOp cfg e' b kb (.alloc size align)).outs = (runOp cfg e a ka (.alloc size align)).outs ∧
    (runOp cfg e' b kb (.alloc size align)).acquired = [] ∧
    Sim (runOp cfg e a ka (.alloc size align)).st (runOp cfg e' b kb (.alloc size align)).st rest := by
  obtain ⟨⟨srcA, icA, usedA, cachedA⟩, curA, leakA⟩ := a
  obtain ⟨⟨srcB, icB, usedB, cachedB⟩, curB, leakB⟩ := b
  obtain ⟨h1, h2, h3, h4, h5, h6⟩ := h
  simp only at h1 h2 h4 h5
  subst h1 h2 h4 h5
  simp only [runOp, allocate_eq] at h3 h6 hnf ⊢
  cases hgd : growDec cfg curA usedA size align with
  | none =>
    simp only [hgd] at h3 h6 hnf ⊢
    exact ⟨trivial, rfl, rfl, rfl, h3, rfl, rfl, h6⟩
  | some g =>
    cases g with
    | false =>
      simp only [hgd] at h3 h6 hnf ⊢
      exact ⟨trivial, rfl, rfl, rfl, h3, rfl, rfl, h6⟩
    | true =>
      simp only [hgd] at h3 h6 hnf ⊢
      cases cachedA with
      | cons c cs =>
        simp only [arena_alloc_cache, List.cons_append] at h3 h6 hnf
        subst h3
        simp only [arena_alloc_cache]
        exact ⟨trivial, rfl, rfl, rfl, rfl, rfl, rfl, h6⟩
      | nil =>
        have hns := h6.left
        rcases arena_alloc_exact srcA hns usedA (e ka) with ⟨bb, h⟩ | ⟨hs0, h⟩ | ⟨src', n, h, hst⟩
        · simp [h] at hnf
        · simp only [h, newBlocks, List.filterMap_nil, List.nil_append] at h3 h6 hnf
          subst hs0
          obtain ⟨hb0, hr0⟩ := h6.fixed0
          have : rest = [] := List.eq_nil_of_length_eq_zero hr0
          subst this hb0 h3
          have hb : Arena.allocateBlock ⟨.fixed 0, true, usedA, []⟩ [e' kb] =
              .fail ⟨.fixed 0, true, usedA, []⟩ .oofm [] [e' kb] := rfl
          simp only [hb, h]
          exact ⟨trivial, rfl, rfl, rfl, rfl, rfl, rfl, h6⟩
        · simp only [h, newBlocks_one, List.nil_append, List.cons_append, List.length_cons] at h3 h6 hnf
          subst h3
          simp only [h, arena_alloc_cache]
          exact ⟨trivial, rfl, rfl, rfl, rfl, rfl, rfl, SrcSim.step hst h6⟩

theorem try_frame (cfg : Cfg) (a b : MemStack) (h1 : a.cur = b.cur) (h2 : a.arena.used = b.arena.used)
    (size align : Nat) :
    (b.tryAllocate cfg size align).2 = (a.tryAllocate cfg size align).2 ∧
    (a.tryAllocate cfg size align).1.cur = (b.tryAllocate cfg size align).1.cur ∧
    (a.tryAllocate cfg size align).1.arena = a.arena ∧ (b.tryAllocate cfg size align).1.arena = b.arena := by
  unfold MemStack.tryAllocate
  rw [blockEnd_eq, blockEnd_eq, h1, h2]
  cases blkEnd b.arena.used with
  | none => exact ⟨rfl, h1, rfl, rfl⟩
  | some en =>
    simp only []
    cases fixedAllocate b.cur en size align cfg.fence with
    | none => exact ⟨rfl, h1, rfl, rfl⟩
    | some pc => exact ⟨rfl, rfl, rfl, rfl⟩

theorem sim_try (cfg : Cfg) (e e' : EnvS) (a b : MemStack) (ka kb size align : Nat) (rest : List Blk)
    (h : Sim a b ((runOp cfg e a ka (.tryAlloc size align)).acquired ++ rest)) :
    (runOp cfg e' b kb (.tryAlloc size align)).outs = (runOp cfg e a ka (.tryAlloc size align)).outs ∧
    (runOp cfg e' b kb (.tryAlloc size align)).acquired = [] ∧
    Sim (runOp cfg e a ka (.tryAlloc size align)).st (runOp cfg e' b kb (.tryAlloc size align)).st rest := by
  simp only [runOp, List.nil_append] at h ⊢
  obtain ⟨h1, h2, h3, h4⟩ := try_frame cfg a b h.cur h.used size align
  refine ⟨by rw [h1], trivial, h2, ?_, ?_, ?_, ?_, ?_⟩
  · rw [h3, h4]; exact h.used
  · rw [h3, h4]; exact h.cached
  · rw [h3]; exact h.ca
  · rw [h4]; exact h.cb
  · rw [h3, h4]; exact h.src

theorem top_congr (a b : MemStack) (h1 : a.cur = b.cur) (h2 : a.arena.used = b.arena.used) : b.top = a.top := by
  unfold MemStack.top
  rw [blockEnd_eq, blockEnd_eq, h1, h2]

theorem sim_unwind (cfg : Cfg) (a b : MemStack) (P : List Blk) (m : Marker) (h : Sim a b P) :
    Sim (a.unwind cfg m).1 (b.unwind cfg m).1 P := by
  obtain ⟨⟨srcA, icA, usedA, cachedA⟩, curA, leakA⟩ := a
  obtain ⟨⟨srcB, icB, usedB, cachedB⟩, curB, leakB⟩ := b
  obtain ⟨h1, h2, h3, h4, h5, h6⟩ := h
  simp only at h1 h2 h3 h4 h5 h6
  subst h1 h2 h3 h4 h5
  simp only [MemStack.unwind, unwindEv_core]
  exact ⟨rfl, rfl, by simp, rfl, rfl, h6⟩

mutual
theorem sim_op (cfg : Cfg) (e e' : EnvS) : ∀ (op : SOp) (a b : MemStack) (ka kb : Nat) (rest : List Blk),
    Sim a b ((runOp cfg e a ka op).acquired ++ rest) →
    (∀ o ∈ (runOp cfg e a ka op).outs, o ≠ .throws .upstream) →
    (runOp cfg e' b kb op).outs = (runOp cfg e a ka op).outs ∧ (runOp cfg e' b kb op).acquired = [] ∧
      Sim (runOp cfg e a ka op).st (runOp cfg e' b kb op).st rest
  | .alloc size align, a, b, ka, kb, rest, h, hnf => sim_alloc cfg e e' a b ka kb size align rest h hnf
  | .tryAlloc size align, a, b, ka, kb, rest, h, _ => sim_try cfg e e' a b ka kb size align rest h
  | .scope ops, a, b, ka, kb, rest, h, hnf => by
    have htop := top_congr a b h.cur h.used
    cases hm : a.top with
    | none =>
      rw [hm] at htop
      simp only [runOp, hm, htop, List.nil_append] at h hnf ⊢
      exact ⟨trivial, trivial, h⟩
    | some m =>
      rw [hm] at htop
      simp only [runOp, hm, htop] at h hnf ⊢
      obtain ⟨i1, i2, i3⟩ := sim_ops cfg e e' ops a b ka kb rest h hnf
      exact ⟨i1, i2, sim_unwind cfg _ _ rest m i3⟩
theorem sim_ops (cfg : Cfg) (e e' : EnvS) : ∀ (ops : List SOp) (a b : MemStack) (ka kb : Nat) (rest : List Blk),
    Sim a b ((runOps cfg e a ka ops).acquired ++ rest) →
    (∀ o ∈ (runOps cfg e a ka ops).outs, o ≠ .throws .upstream) →
    (runOps cfg e' b kb ops).outs = (runOps cfg e a ka ops).outs ∧ (runOps cfg e' b kb ops).acquired = [] ∧
      Sim (runOps cfg e a ka ops).st (runOps cfg e' b kb ops).st rest
  | [], a, b, ka, kb, rest, h, _ => by
    simp only [runOps, List.nil_append] at h ⊢
    exact ⟨trivial, trivial, h⟩
  | op :: ops, a, b, ka, kb, rest, h, hnf => by
    simp only [runOps, List.append_assoc] at h hnf ⊢
    obtain ⟨i1, i2, i3⟩ := sim_op cfg e e' op a b ka kb _ h (fun o ho => hnf o (List.mem_append_left _ ho))
    obtain ⟨j1, j2, j3⟩ := sim_ops cfg e e' ops (runOp cfg e a ka op).st (runOp cfg e' b kb op).st
      (runOp cfg e a ka op).k (runOp cfg e' b kb op).k rest i3 (fun o ho => hnf o (List.mem_append_right _ ho))
    exact ⟨by rw [i1, j1], by rw [i2, j2]; rfl, j3⟩
end

/-- `replay_same` under the two extra hypotheses it needs (see the notes in `C06.lean`) -/
theorem replay_same' (cfg : Cfg) (e e' : EnvS) (s : MemStack) (hs : s.Inv) (k k' : Nat) (ops : List SOp)
    (hnofail : ∀ o ∈ (runOps cfg e s k ops).outs, o ≠ .throws .upstream)
    (hsrc : ∀ c en b, s.arena.src ≠ .static_ c en b)
    (hlen : s.arena.used.length + s.arena.cached.length + (runOps cfg e s k ops).acquired.length < 2 ^ 64) :
    let u := (runOp cfg e s k (.scope ops)).st
    (runOps cfg e' u k' ops).outs = (runOps cfg e s k ops).outs ∧ (runOps cfg e' u k' ops).acquired = [] := by
  have hp : Pre s := ⟨hs.nonempty, hs.cached, by
    cases h : s.arena.src with
    | static_ c en b => exact absurd h (hsrc c en b)
    | _ => simp [Src.NonStatic]⟩
  have h := scope_res cfg e s k ops hp hlen
  have hacq := (scope_proj cfg e s k ops hp.ne).1
  have hsim : Sim s (runOp cfg e s k (.scope ops)).st ((runOps cfg e s k ops).acquired ++ []) := by
    refine ⟨h.cur.symm, h.used.symm, ?_, hp.cached, h.isCached, ?_⟩
    · rw [h.cached, hacq, List.append_nil]
    · rw [List.append_nil, ← hacq]; exact h.src.toSim
  obtain ⟨h1, h2, _⟩ := sim_ops cfg e e' ops s _ k k' [] hsim hnofail
  exact ⟨h1, h2⟩
end MemVerif.Model
