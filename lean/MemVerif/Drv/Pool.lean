import MemVerif.Drv.Common
import MemVerif.Drv.Stack
import MemVerif.Model.Pool
/-! driver for the subjects `pool` and `coll` -/
namespace MemVerif.Drv
open MemVerif.Model MemVerif.Gen

structure PoolSt where
  cfg : Cfg := {}
  pool : Option Pool := none
  pool2 : Option Pool := none
  poolMoved : Option Pool := none
  coll : Option Coll := none
  coll2 : Option Coll := none
  collMoved : Option Coll := none

/-- `key=value` arguments of a `new`/`move` line -/
def kv (ts : List String) (k : String) : Option String := hdr ts k
def kvNat (ts : List String) (k : String) : Nat := nat! ((kv ts k).getD "0")

def mkList (kind : String) (ns : Nat) (ts : List String) : Option AnyList :=
  if kind = "free" then some (.free (FreeList.new ns))
  else if kind = "ord" then some (.ord (OrdList.new ns (kvNat ts "B") (kvNat ts "E")))
  else if kind = "small" then some (.small (SmallList.new ns (kvNat ts "P")))
  else none

def leakStr' (l : Option Int) : String :=
  match l with
  | none => "leaks 0"
  | some n => s!"leaks 1 {n}"

/-- address of the proxy words of the list object a pool is moved into (`B=`/`P=` of the harness line, with a suffix for the
second object of a swap) -/
def objAddr (l : AnyList) (ts : List String) (sfx : String) : Nat :=
  match l with
  | .ord _ => kvNat ts ("B" ++ sfx)
  | .small _ => kvNat ts ("P" ++ sfx)
  | .free _ => 0

def presPool (st : PoolSt) (r : PRes Pool) : PoolSt × String × String × String :=
  ({ st with pool := some r.st }, outStr r.out, upStr r.ev, r.st.str)

def poolStep (st : PoolSt) (op : List String) (env : List (Option Nat)) : PoolSt × String × String × String :=
  let cfg := st.cfg
  match op with
  | "new" :: ns :: bs :: rest =>
    let kind := (kv rest "kind").getD ""
    match mkList kind (nat! ns) rest, (kv rest "src").bind srcOfStr with
    | some l, some src =>
      let r := Pool.create cfg src l ((kv rest "arrays").getD "0" = "1") env
      let _ := bs
      (match r.out with
       | .done => presPool st r
       | _ => ({ st with pool := none }, outStr r.out, upStr r.ev, "-"))
    | _, _ => (st, "bad-new", "", "-")
  | "new2" :: ns :: _bs :: rest =>
    let kind := (kv rest "kind").getD ""
    match mkList kind (nat! ns) rest, (kv rest "src").bind srcOfStr with
    | some l, some src =>
      let r := Pool.create cfg src l ((kv rest "arrays").getD "0" = "1") env
      (match r.out with
       | .done => ({ st with pool2 := some r.st }, outStr r.out, upStr r.ev, r.st.str)
       | _ => ({ st with pool2 := none }, outStr r.out, upStr r.ev, "-"))
    | _, _ => (st, "bad-new", "", "-")
  | _ =>
  match st.pool with
  | none => (st, "no-object", "", "-")
  | some p =>
    match op with
    | ["switch"] =>
      match st.pool2 with
      | none => (st, "no-object", "", "-")
      | some p2 => ({ st with pool := some p2, pool2 := some p }, "done", "", p2.str)
    | "move_assign" :: rest =>
      -- `*primary = std::move(*secondary)`: leak count, arena (the primary's blocks go back upstream) and free list are
      -- taken over; the list is re-based onto the primary's list object and its cursors are reset
      match st.pool2 with
      | none => (st, "no-object", "", "-")
      | some q =>
        let (ev, _, _) := p.destroy { cfg with leak := false }
        let (np, old) := q.moveInto (objAddr q.list rest "") (kvNat rest "E")
        ({ st with pool := some np, pool2 := none, poolMoved := some old }, "done", upStr ev, np.str)
    | "swap3" :: rest =>
      -- `tmp(move(a)); a = move(b); b = move(tmp); ~tmp`: the two pools exchange arena, free list and leak count; each list is
      -- re-based onto the list object it ends up in (cursors reset, as in every move); no upstream event
      match st.pool2 with
      | none => (st, "no-object", "", "-")
      | some q =>
        let np : Pool := (q.moveInto (objAddr q.list rest "") (kvNat rest "E")).1
        let nq : Pool := (p.moveInto (objAddr p.list rest "2") (kvNat rest "E2")).1
        ({ st with pool := some np, pool2 := some nq }, "done", "", np.str)
    | ["peek2"] =>
      match st.pool2 with
      | none => (st, "no-object", "", "-")
      | some q => (st, "done", "", q.str)
    | ["alloc_node"] => presPool st (p.allocateNode cfg env)
    | ["try_alloc_node"] => presPool st p.tryAllocateNode
    | ["alloc_array", n] => presPool st (p.allocateArray cfg (nat! n) env)
    | ["try_alloc_array", n] => presPool st (p.tryAllocateArrayBytes (mul64 (nat! n) p.nodeSize))
    | ["dealloc_node", a] => presPool st (p.deallocateNode cfg (nat! a))
    | ["dealloc_array", a, n] => presPool st (p.deallocateBytes cfg (nat! a) (mul64 (nat! n) p.nodeSize))
    | ["try_dealloc_node", a] => presPool st (p.tryDeallocateNode cfg (nat! a))
    | ["try_dealloc_array", a, n] => presPool st (p.tryDeallocateBytes cfg (nat! a) (mul64 (nat! n) p.nodeSize))
    | ["t_alloc_node", s, al] => presPool st (p.traitsAllocateNode cfg (nat! s) (nat! al) env)
    | ["t_alloc_array", c, s, al] => presPool st (p.traitsAllocateArray cfg (nat! c) (nat! s) (nat! al) env)
    | ["t_dealloc_node", a, s] => presPool st (p.traitsDeallocateNode cfg (nat! a) (nat! s))
    | ["t_dealloc_array", a, c, s] => presPool st (p.traitsDeallocateArray cfg (nat! a) (nat! c) (nat! s))
    | ["t_try_alloc_node", s, al] => presPool st (p.traitsTryAllocateNode (nat! s) (nat! al))
    | ["t_try_alloc_array", c, s, al] => presPool st (p.traitsTryAllocateArray (nat! c) (nat! s) (nat! al))
    | ["t_try_dealloc_node", a, s, al] => presPool st (p.traitsTryDeallocateNode cfg (nat! a) (nat! s) (nat! al))
    | ["t_try_dealloc_array", a, c, s, al] =>
      presPool st (p.traitsTryDeallocateArray cfg (nat! a) (nat! c) (nat! s) (nat! al))
    | "bad_dealloc_node" :: a :: _ => (st, badClass (p.deallocateNode cfg (nat! a)).out, "", p.str)
    | ["capacity_left"] => (st, (Out.num p.capacityLeft).str, "", p.str)
    | ["next_capacity"] => (st, (Out.num p.nextCapacity).str, "", p.str)
    | "move" :: rest =>
      -- the list is moved into the new object: the ordered list re-bases its proxies and resets its cursors
      let (np, old) := p.moveInto (objAddr p.list rest "") (kvNat rest "E")
      ({ st with pool := some np, poolMoved := some old }, "done", "", np.str)
    | ["destroy_moved_from"] =>
      match st.poolMoved with
      | none => (st, "no-object", "", "-")
      | some m =>
        let (ev, l, _) := m.destroy cfg
        ({ st with poolMoved := none }, leakStr' l, upStr ev, "-")
    | ["destroy"] =>
      let (ev, l, _) := p.destroy cfg
      ({ st with pool := none }, leakStr' l, upStr ev, "-")
    | _ => (st, "bad-op", "", "-")

def presColl (st : PoolSt) (r : PRes Coll) : PoolSt × String × String × String :=
  ({ st with coll := some r.st }, outStr r.out, upStr r.ev, r.st.str)

def collStep (st : PoolSt) (op : List String) (env : List (Option Nat)) : PoolSt × String × String × String :=
  let cfg := st.cfg
  match op with
  | "new" :: mx :: _bs :: rest =>
    let kind := (kv rest "kind").getD ""
    let pol := if (kv rest "dist").getD "" = "log2" then Policy.log2 else Policy.identity
    match (kv rest "src").bind srcOfStr with
    | some src =>
      let (c, out, ev) := Coll.create cfg src kind pol ((kv rest "arrays").getD "0" = "1") (nat! mx) env
      ({ st with coll := c }, outStr out, upStr ev, (c.map Coll.str).getD "-")
    | none => (st, "bad-new", "", "-")
  | "new2" :: mx :: _bs :: rest =>
    let kind := (kv rest "kind").getD ""
    let pol := if (kv rest "dist").getD "" = "log2" then Policy.log2 else Policy.identity
    match (kv rest "src").bind srcOfStr with
    | some src =>
      let (c, out, ev) := Coll.create cfg src kind pol ((kv rest "arrays").getD "0" = "1") (nat! mx) env
      ({ st with coll2 := c }, outStr out, upStr ev, (c.map Coll.str).getD "-")
    | none => (st, "bad-new", "", "-")
  | _ =>
  match st.coll with
  | none => (st, "no-object", "", "-")
  | some c =>
    match op with
    | ["switch"] =>
      match st.coll2 with
      | none => (st, "no-object", "", "-")
      | some c2 => ({ st with coll := some c2, coll2 := some c }, "done", "", c2.str)
    | ["move_assign"] =>
      match st.coll2 with
      | none => (st, "no-object", "", "-")
      | some q =>
        let (ev, _, _) := c.destroy { cfg with leak := false }
        let old : Coll := { q with arena := q.arena.movedFrom, cur := 0, lists := [], leak := 0 }
        ({ st with coll := some q, coll2 := none, collMoved := some old }, "done", upStr ev, q.str)
    | ["alloc_node", s] => presColl st (c.allocateNode cfg (nat! s) env)
    | ["try_alloc_node", s] => presColl st (c.tryAllocateNode cfg (nat! s))
    | ["alloc_array", n, s] => presColl st (c.allocateArray cfg (nat! n) (nat! s) env)
    | ["try_alloc_array", n, s] => presColl st (c.tryAllocateArray cfg (nat! n) (nat! s))
    | ["dealloc_node", a, s] => presColl st (c.deallocateNode cfg (nat! a) (nat! s))
    | ["dealloc_array", a, n, s] => presColl st (c.deallocateArray cfg (nat! a) (nat! n) (nat! s))
    | ["try_dealloc_node", a, s] => presColl st (c.tryDeallocateNode cfg (nat! a) (nat! s))
    | ["try_dealloc_array", a, n, s] => presColl st (c.tryDeallocateArray cfg (nat! a) (nat! n) (nat! s))
    | ["t_alloc_node", s, al] => presColl st (c.traitsAllocateNode cfg (nat! s) (nat! al) env)
    | ["t_alloc_array", n, s, al] => presColl st (c.traitsAllocateArray cfg (nat! n) (nat! s) (nat! al) env)
    | ["t_dealloc_node", a, s] => presColl st (c.traitsDeallocateNode cfg (nat! a) (nat! s))
    | ["t_dealloc_array", a, n, s] => presColl st (c.traitsDeallocateArray cfg (nat! a) (nat! n) (nat! s))
    | ["t_try_alloc_node", s, al] => presColl st (c.traitsTryAllocateNode cfg (nat! s) (nat! al))
    | ["t_try_alloc_array", n, s, al] => presColl st (c.traitsTryAllocateArray cfg (nat! n) (nat! s) (nat! al))
    | ["t_try_dealloc_node", a, s, al] => presColl st (c.traitsTryDeallocateNode cfg (nat! a) (nat! s) (nat! al))
    | ["t_try_dealloc_array", a, n, s, al] =>
      presColl st (c.traitsTryDeallocateArray cfg (nat! a) (nat! n) (nat! s) (nat! al))
    | ["reserve", s, cap] => presColl st (c.reserveOp cfg (nat! s) (nat! cap) env)
    | ["pool_capacity_left", s] => (st, (Out.num (c.poolCapacityLeft (nat! s))).str, "", c.str)
    | ["capacity_left"] => (st, (match c.capacityLeft with | some n => (Out.num n).str | none => "crash"), "", c.str)
    | ["next_capacity"] => (st, (Out.num c.nextCapacity).str, "", c.str)
    | ["move"] =>
      -- the lists stay where they are (inside the first block); only the handle moves
      let old : Coll := { c with arena := c.arena.movedFrom, cur := 0, lists := [], leak := 0 }
      ({ st with coll := some c, collMoved := some old }, "done", "", c.str)
    | ["destroy_moved_from"] =>
      match st.collMoved with
      | none => (st, "no-object", "", "-")
      | some m =>
        let (ev, l, _) := m.destroy cfg
        ({ st with collMoved := none }, leakStr' l, upStr ev, "-")
    | ["destroy"] =>
      let (ev, l, _) := c.destroy cfg
      ({ st with coll := none }, leakStr' l, upStr ev, "-")
    | _ => (st, "bad-op", "", "-")

end MemVerif.Drv
