import MemVerif.Drv.Common
import MemVerif.Model.Stack
import MemVerif.Model.StackFill
/-! driver for the subjects `stack`, `iter`, `static` -/
namespace MemVerif.Drv
open MemVerif.Model

structure StackSt where
  cfg : Cfg := {}
  stack : Option MemStack := none
  stack2 : Option MemStack := none
  moved : Option MemStack := none
  iter : Option Iter := none
  iterMoved : Option Iter := none
  iterTarget : Option Iter := none
  static_ : Option Static := none
  src : Option Src := none
  arena : Option Arena := none
  /-- source description for `new` (from the header) -/
  subject : String := ""

def srcOfStr (s : String) : Option Src :=
  match s.splitOn ":" with
  | ["growing", nd, b] => match nd.splitOn "/" with
    | [n, d] => some (.growing (nat! n) (nat! d) (nat! b))
    | _ => none
  | ["fixed", b] => some (.fixed (nat! b))
  | ["static", c, e, b] => some (.static_ (nat! c) (nat! e) (nat! b))
  | _ => none

def leakStr (l : Option Int) : String :=
  match l with
  | none => "leaks 0"
  | some n => s!"leaks 1 {n}"

/-- the source an object is constructed from: upstream-based sources are described by the subject name,
the static source by the state dump of the *observed* line (addresses of the storage are inputs). -/
def initialSrc (subject : String) (block : Nat) (obsState : String) : Option Src :=
  if subject = "stack-growing" then some (.growing 2 1 block)
  else if subject = "stack-fixed" then some (.fixed block)
  else if subject.startsWith "iter" && !(subject.endsWith "static") then some (.fixed block)
  else
    -- static storage: cur/end after construction are visible in the dump; the initial cur is one block lower
    (toks obsState).findSome? fun t => match t.splitOn "=" with
      | ["src", v] => match srcOfStr v with
        | some (.static_ c e b) => some (.static_ (c - b) e b)
        | _ => none
      | _ => none

def stackStep (st : StackSt) (op : List String) (env : List (Option Nat)) (obsState : String) :
    StackSt × String × String × String :=
  let cfg := st.cfg
  match op with
  | ["new", b] =>
    match initialSrc st.subject (nat! b) obsState with
    | none => (st, "bad-src", "", "-")
    | some src =>
      let (s, out, ev) := MemStack.create src env
      ({ st with stack := s }, outStr out, upStr ev, (s.map MemStack.str).getD "-")
  | _ =>
  match st.stack with
  | none => (st, "no-object", "", "-")
  | some s =>
    match op with
    | ["alloc", sz, al] =>
      let (s', out, ev) := s.allocate cfg (nat! sz) (nat! al) env
      ({ st with stack := some s' }, outStr out, upStr ev, s'.str ++ fillsStr (s.allocateFills cfg (nat! sz) (nat! al) env))
    | ["try_alloc", sz, al] =>
      let (s', out) := s.tryAllocate cfg (nat! sz) (nat! al)
      ({ st with stack := some s' }, outStr out, "", s'.str ++ fillsStr (s.tryAllocateFills cfg (nat! sz) (nat! al)))
    | ["alloc_node", sz, al] =>
      let (s', out, ev) := s.allocate cfg (nat! sz) (nat! al) env
      let s'' := match out with | .ok _ => s'.onAlloc cfg (nat! sz) | _ => s'
      ({ st with stack := some s'' }, outStr out, upStr ev, s''.str ++ fillsStr (s.allocateFills cfg (nat! sz) (nat! al) env))
    | ["alloc_array", cnt, sz, al] =>
      let n := mul64 (nat! cnt) (nat! sz)
      let (s', out, ev) := s.allocate cfg n (nat! al) env
      let s'' := match out with | .ok _ => s'.onAlloc cfg n | _ => s'
      ({ st with stack := some s'' }, outStr out, upStr ev, s''.str ++ fillsStr (s.allocateFills cfg n (nat! al) env))
    | ["dealloc_node", sz] =>
      let s' := s.onDealloc cfg (nat! sz)
      ({ st with stack := some s' }, "done", "", s'.str)
    | ["dealloc_array", cnt, sz] =>
      let s' := s.onDealloc cfg (mul64 (nat! cnt) (nat! sz))
      ({ st with stack := some s' }, "done", "", s'.str)
    | ["top"] =>
      match s.top with
      | none => (st, "crash", "", s.str)
      | some m => (st, (Out.marker m.index m.top m.end_).str, "", s.str)
    | ["unwind", i, t, e] =>
      let (s', out, ev) := s.unwindEv cfg ⟨nat! i, nat! t, nat! e⟩
      ({ st with stack := some s' }, outStr out, upStr ev, s'.str ++ fillsStr (s.unwindFills cfg ⟨nat! i, nat! t, nat! e⟩))
    | "bad_unwind" :: i :: t :: e :: _ =>
      let (_, out, _) := s.unwindEv cfg ⟨nat! i, nat! t, nat! e⟩
      (st, badClass out, "", s.str)
    | ["shrink"] =>
      let (s', ev) := s.shrinkToFit cfg
      ({ st with stack := some s' }, "done", upStr ev, s'.str)
    | ["try_dealloc", p] => (st, if s.arena.owns (nat! p) then "true" else "false", "", s.str)
    | ["capacity_left"] =>
      (st, match s.capacityLeft with | some n => (Out.num n).str | none => "crash", "", s.str)
    | ["next_capacity"] => (st, (Out.num s.nextCapacity).str, "", s.str)
    | ["move"] =>
      let (n, old) := s.moveOut
      ({ st with stack := some n, moved := some old }, "done", "", n.str)
    | ["new2", b] =>
      -- a second stack of the same kind on the same upstream
      match initialSrc st.subject (nat! b) obsState with
      | none => (st, "bad-src", "", "-")
      | some src =>
        let (s2, out, ev) := MemStack.create src env
        ({ st with stack2 := s2 }, outStr out, upStr ev, (s2.map MemStack.str).getD "-")
    | ["switch"] =>
      match st.stack2 with
      | none => (st, "no-object", "", "-")
      | some s2 => ({ st with stack := some s2, stack2 := some s }, "done", "", s2.str)
    | ["move_assign"] =>
      -- `*primary = std::move(*secondary)`: `memory_arena tmp(move(other)); swap(*this, tmp);` and `~tmp` releases what the
      -- primary owned (cache first, most recently acquired block first); top, source and leak count come from the secondary
      match st.stack2 with
      | none => (st, "no-object", "", "-")
      | some s2 =>
        let (_, ev, _) := s.arena.destroy cfg
        let (n, old) := s2.moveOut
        ({ st with stack := some n, stack2 := none, moved := some old }, "done", upStr ev, n.str)
    | ["destroy_moved_from"] =>
      match st.moved with
      | none => (st, "no-object", "", "-")
      | some m =>
        let (_, ev, l) := m.destroy cfg
        ({ st with moved := none }, leakStr l, upStr ev, "-")
    | ["destroy"] =>
      let (_, ev, l) := s.destroy cfg
      ({ st with stack := none }, leakStr l, upStr ev, "-")
    | _ => (st, "bad-op", "", "-")

def iterStep (st : StackSt) (op : List String) (env : List (Option Nat)) (obsState : String) :
    StackSt × String × String × String :=
  let cfg := st.cfg
  match op with
  | ["new", n, b] =>
    match initialSrc st.subject (nat! b) obsState with
    | none => (st, "bad-src", "", "-")
    | some src =>
      let (it, out, ev) := Iter.create (nat! n) src env
      ({ st with iter := it }, outStr out, upStr ev, (it.map Iter.str).getD "-")
  | _ =>
  match st.iter with
  | none => (st, "no-object", "", "-")
  | some it =>
    match op with
    | ["alloc", sz, al] =>
      let (it', out) := it.allocate cfg (nat! sz) (nat! al)
      ({ st with iter := some it' }, outStr out, "", it'.str ++ fillsStr (it.allocateFills cfg (nat! sz) (nat! al)))
    | ["try_alloc", sz, al] =>
      let (it', out) := it.tryAllocate cfg (nat! sz) (nat! al)
      ({ st with iter := some it' }, outStr out, "", it'.str ++ fillsStr (it.tryAllocateFills cfg (nat! sz) (nat! al)))
    | ["next"] =>
      let it' := it.nextIteration
      ({ st with iter := some it' }, "done", "", it'.str ++ fillsStr (it.nextIterationFills cfg))
    | ["try_dealloc", p] => (st, if it.contains (nat! p) then "true" else "false", "", it.str)
    | ["capacity_left", i] => (st, (Out.num (it.capacityLeft (nat! i))).str, "", it.str)
    | ["move"] =>
      ({ st with iter := some it, iterMoved := some it.movedFrom }, "done", "", it.str)
    | ["destroy_moved_from"] =>
      match st.iterMoved with
      | none => (st, "no-object", "", "-")
      | some m =>
        let (_, ev) := m.destroy cfg
        ({ st with iterMoved := none }, "done", upStr ev, "-")
    | ["new_target"] =>
      -- a second allocator of the same kind on the same (shared) source description
      let src : Src := match it.src with
        | .fixed _ => .fixed it.block.size
        | s => s
      let (t, out, ev) := Iter.create it.n src env
      ({ st with iterTarget := t }, outStr out, upStr ev, (t.map Iter.str).getD "-")
    | ["move_assign"] =>
      match st.iterTarget with
      | none => (st, "no-object", "", "-")
      | some t =>
        -- the target releases its own block, then takes over the source's state
        let (_, ev) := t.destroy cfg
        ({ st with iter := some it, iterMoved := some it.movedFrom, iterTarget := none }, "done", upStr ev, it.str)
    | ["destroy"] =>
      let (_, ev) := it.destroy cfg
      ({ st with iter := none }, "done", upStr ev, "-")
    | _ => (st, "bad-op", "", "-")

/-- a block source driven directly (C16: LIFO-only sources) -/
def srcStep (st : StackSt) (op : List String) (env : List (Option Nat)) : StackSt × String × String × String :=
  let cfg := st.cfg
  match op with
  | ["new", d] =>
    match srcOfStr d with
    | some s => ({ st with src := some s }, "done", "", s.str)
    | none => (st, "bad-src", "", "-")
  | _ =>
  match st.src with
  | none => (st, "no-object", "", "-")
  | some s =>
    match op with
    | ["alloc_block"] =>
      match s.allocateBlock env with
      | .envMissing => (st, "env-missing", "", s.str)
      | .fail s' e ev _ => ({ st with src := some s' }, outStr (.throws e), upStr ev, s'.str)
      | .ok s' b ev _ => ({ st with src := some s' }, s!"blk {b.base} {b.size}", upStr ev, s'.str)
    | ["dealloc_block", b, sz] =>
      let (s', ev, chk) := s.deallocateBlock cfg ⟨nat! b, nat! sz⟩
      (match chk with
       | some k => (st, outStr (.handler k), "", s.str)
       | none => ({ st with src := some s' }, "done", upStr ev, s'.str))
    | ["bad_dealloc_block", b, sz] =>
      let (_, _, chk) := s.deallocateBlock cfg ⟨nat! b, nat! sz⟩
      (st, (match chk with | some k => badClass (.handler k) | none => "missed"), "", s.str)
    -- C12: the source object is moved / move-assigned onto a fresh one / swapped with a fresh one: the owner of the
    -- memory has exactly the state the source had; the object left behind is destroyed without any effect
    | ["move"] => (st, "done", "", s.str)
    | ["move_assign"] => (st, "done", "", s.str)
    | ["swap"] => (st, "done", "", s.str)
    | ["destroy"] => ({ st with src := none }, "done", "", "-")
    | _ => (st, "bad-op", "", "-")

/-- a `memory_arena` driven directly (C05/C08/C12): cached or uncached, over a growing or a fixed block source -/
def arenaStep (st : StackSt) (op : List String) (env : List (Option Nat)) : StackSt × String × String × String :=
  let cfg := st.cfg
  match op with
  | ["new", b, c] =>
    let src : Src := if (st.subject.splitOn "-").getD 1 "" = "fixed" then .fixed (nat! b) else .growing 2 1 (nat! b)
    let a : Arena := { src := src, isCached := c = "1" }
    ({ st with arena := some a }, "done", "", a.str)
  | _ =>
  match st.arena with
  | none => (st, "no-object", "", "-")
  | some a =>
    match op with
    | ["alloc_block"] =>
      match a.allocateBlock env with
      | .envMissing => (st, "env-missing", "", a.str)
      | .fail a' e ev _ => ({ st with arena := some a' }, outStr (.throws e), upStr ev, a'.str)
      | .ok a' b ev _ => ({ st with arena := some a' }, s!"blk {b.base} {b.size}", upStr ev, a'.str)
    | ["dealloc_block"] =>
      match a.deallocateBlock cfg with
      | none => (st, "crash", "", a.str)
      | some (a', ev, chk) =>
        (match chk with
         | some k => (st, outStr (.handler k), "", a.str)
         | none => ({ st with arena := some a' }, "done", upStr ev, a'.str))
    | ["shrink"] =>
      let (a', ev, _) := a.shrinkToFit cfg
      ({ st with arena := some a' }, "done", upStr ev, a'.str)
    | ["owns", p] => (st, if a.owns (nat! p) then "true" else "false", "", a.str)
    | ["size"] => (st, (Out.num a.used.length).str, "", a.str)
    | ["cache_size"] => (st, (Out.num a.cached.length).str, "", a.str)
    | ["capacity"] => (st, (Out.num (a.used.length + a.cached.length)).str, "", a.str)
    | ["next_block_size"] => (st, (Out.num a.nextBlockSize).str, "", a.str)
    | ["current_block"] =>
      (st, match a.currentBlock with | some b => s!"blk {b.base} {b.size}" | none => "crash", "", a.str)
    -- the new owner has the state of the source; the object left behind is destroyed without any upstream traffic
    | ["move"] => (st, "done", "", a.str)
    | ["move_assign"] => (st, "done", "", a.str)
    | ["destroy"] =>
      let (_, ev, _) := a.destroy cfg
      ({ st with arena := none }, "done", upStr ev, "-")
    | _ => (st, "bad-op", "", "-")

def staticStep (st : StackSt) (op : List String) : StackSt × String × String × String :=
  let cfg := st.cfg
  match op with
  | ["new", base, sz] =>
    let s : Static := ⟨nat! base, nat! base + nat! sz⟩
    ({ st with static_ := some s }, "done", "", s.str)
  | _ =>
  match st.static_ with
  | none => (st, "no-object", "", "-")
  | some s =>
    match op with
    | ["alloc", sz, al] =>
      let (s', out) := s.allocateNode cfg (nat! sz) (nat! al)
      ({ st with static_ := some s' }, outStr out, "", s'.str)
    | ["max_node_size"] => (st, (Out.num s.maxNodeSize).str, "", s.str)
    | _ => (st, "bad-op", "", "-")

end MemVerif.Drv
