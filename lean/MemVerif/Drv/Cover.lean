import MemVerif.Drv.Pool
import MemVerif.Drv.Stack
/-!
Model-branch coverage of a trace: for every operation the driver classifies — from the model state *before* the
operation — which branch of the modelled algorithm the operation takes (`find_pos` case and whether the cursor is a
proxy, the cursor case of the ordered `allocate(n)`, the chunk-search path of the small list, carving vs. `insert_rest`
in the collection, fit / cached block / new block in `memory_stack::allocate`, blocks crossed by `unwind`).
The counts are written to stderr at the end of the trace and summed into the evidence (`model_branches`), so the
input distribution the generator actually produced is visible, and branches it never reached are listed.
-/
namespace MemVerif.Drv
open MemVerif.Model MemVerif.Gen

/-- `find_pos` case for releasing `m` into the ordered list -/
def ordFindPosLabel (l : OrdList) (m : Nat) : String :=
  let n := l.nodes.length
  let first := if n = 0 then n + 1 else 1
  let last := if n = 0 then 0 else n
  let px := (if l.ldp = l.B then "B" else "n") ++ (if l.ld = l.E then "E" else "n")
  let c :=
    if n = 0 then "empty"
    else if l.addr first > m then "front"
    else if l.addr last < m then "back"
    else if l.ldp < m && m < l.ld then "cursor"
    else if l.ld = l.E || m < l.ld then "interval-low"
    else "interval-high"
  s!"ord.find_pos.{c}.cur={px}"

/-- cursor case of the ordered `allocate(n)` -/
def ordAllocBytesLabel (l : OrdList) (n : Nat) : String :=
  if n ≤ l.ns then "ord.alloc_array.node-path"
  else match searchArray l.ns n l.nodes with
    | none => "ord.alloc_array.no-run"
    | some (start, len) =>
      let first := l.nodes.getD start 0
      let last := l.nodes.getD (start + len - 1) 0
      if first ≤ l.ld ∧ l.ld ≤ last then "ord.alloc_array.ld-in-run"
      else if l.ldp = last then "ord.alloc_array.ldp-is-last"
      else if start = 0 then "ord.alloc_array.cursor-outside.run-at-front"
      else "ord.alloc_array.cursor-outside"

def freeAllocBytesLabel (l : FreeList) (n : Nat) : String :=
  if n ≤ l.ns then "free.alloc_array.node-path"
  else match searchArray l.ns n l.nodes with
    | none => "free.alloc_array.no-run"
    | some (start, _) => if start = 0 then "free.alloc_array.run-at-head" else "free.alloc_array.run-inside"

/-- chunk-search path of the small list's `deallocate(p)` -/
def smallFindChunkLabel (l : SmallList) (p : Nat) : String :=
  match l.posOf l.deallocChunk, l.posOf l.allocChunk with
  | some d, some a =>
    if l.fromAt d p then "small.find_chunk.dealloc-cursor"
    else if l.fromAt a p then "small.find_chunk.alloc-cursor"
    else if l.addrAt d < p then "small.find_chunk.search-up" else "small.find_chunk.search-down"
  | _, _ => "small.find_chunk.bad-cursor"

def smallAllocLabel (l : SmallList) : String :=
  match l.posOf l.allocChunk, l.posOf l.deallocChunk with
  | some a, some d =>
    if l.capAt a ≥ 1 then "small.alloc.alloc-cursor" else if l.capAt d ≥ 1 then "small.alloc.dealloc-cursor" else "small.alloc.search"
  | _, _ => "small.alloc.bad-cursor"

def listReleaseLabel (l : AnyList) (p : Nat) : String :=
  match l with
  | .free _ => "free.push"
  | .ord ol => ordFindPosLabel ol p
  | .small sl => smallFindChunkLabel sl p

def listAllocLabel (l : AnyList) : String :=
  if l.empty then "list.empty->grow" else
  match l with
  | .free _ => "free.pop"
  | .ord ol => if ol.nodes.head? = some ol.ld then "ord.pop.head-is-ld" else if ol.nodes.head? = some ol.ldp then "ord.pop.head-is-ldp" else "ord.pop"
  | .small sl => smallAllocLabel sl

def listAllocBytesLabel (l : AnyList) (n : Nat) : String :=
  if l.empty then "list.empty->grow" else
  match l with
  | .free fl => freeAllocBytesLabel fl n
  | .ord ol => ordAllocBytesLabel ol n
  | .small _ => "small.alloc_array.null"

def poolLabels (st : PoolSt) (op : List String) : List String :=
  match st.pool with
  | none => []
  | some p =>
    match op with
    | ["alloc_node"] | ["try_alloc_node"] | ["t_alloc_node", _, _] | ["t_try_alloc_node", _, _] => [listAllocLabel p.list]
    | ["alloc_array", n] | ["try_alloc_array", n] => [listAllocBytesLabel p.list (mul64 (nat! n) p.nodeSize)]
    | ["t_alloc_array", c, s, _] | ["t_try_alloc_array", c, s, _] => [listAllocBytesLabel p.list (mul64 (nat! c) (nat! s))]
    | ["dealloc_node", a] | ["try_dealloc_node", a] | ["t_dealloc_node", a, _] => [listReleaseLabel p.list (nat! a)]
    | ["dealloc_array", a, _] | ["try_dealloc_array", a, _] | ["t_dealloc_array", a, _, _] => ["array:" ++ listReleaseLabel p.list (nat! a)]
    | "move" :: _ => ["pool.move"]
    | "move_assign" :: _ => ["pool.move_assign"]
    | "swap3" :: _ => ["pool.swap3"]
    | _ => []

/-- what `reserve_memory` will do for list `i` with capacity `dc` -/
def collReserveLabel (cfg : Cfg) (c : Coll) (i dc : Nat) : String :=
  match c.blockEnd, c.lists[i]? with
  | some e, some l =>
    match fixedAllocate c.cur e dc maxAlign cfg.fence with
    | some _ => "coll.reserve.carve"
    | none =>
      let remaining := sub64 e c.cur
      if remaining = 0 then "coll.reserve.rest=0+new-block"
      else
        let offset := alignOff c.cur maxAlign
        if offset < remaining && l.usableSize (remaining - offset) ≥ l.nodeSize then "coll.reserve.rest-inserted+new-block"
        else "coll.reserve.rest-too-small+new-block"
  | _, _ => "coll.reserve.bad-state"

def collLabels (st : PoolSt) (op : List String) : List String :=
  match st.coll with
  | none => []
  | some c =>
    let cfg := st.cfg
    let alloc (size : Nat) (bytes : Option Nat) : List String :=
      if size > c.maxNodeSize then ["coll.bad-node-size"]
      else
        let i := c.listIndex size
        match c.lists[i]?, c.defCapacity with
        | some l, some dc0 =>
          let dc := growCapacity l 64 dc0
          let grew := if dc ≠ dc0 then ["coll.def_capacity-raised"] else []
          (match bytes with
           | none => if l.empty then [collReserveLabel cfg c i dc] else [listAllocLabel l]
           | some b => if l.empty then [collReserveLabel cfg c i dc] else [listAllocBytesLabel l b]) ++ grew ++ [s!"coll.bucket={i}"]
        | _, _ => ["coll.bad-state"]
    match op with
    | ["alloc_node", s] | ["try_alloc_node", s] | ["t_alloc_node", s, _] => alloc (nat! s) none
    | ["alloc_array", n, s] | ["try_alloc_array", n, s] | ["t_alloc_array", n, s, _] => alloc (nat! s) (some (mul64 (nat! n) (nat! s)))
    | ["dealloc_node", a, s] | ["try_dealloc_node", a, s] | ["t_dealloc_node", a, s] =>
      (match c.lists[c.listIndex (nat! s)]? with | some l => [listReleaseLabel l (nat! a)] | none => [])
    | ["dealloc_array", a, _, s] | ["try_dealloc_array", a, _, s] | ["t_dealloc_array", a, _, s] =>
      (match c.lists[c.listIndex (nat! s)]? with | some l => ["array:" ++ listReleaseLabel l (nat! a)] | none => [])
    | _ => []

def stackLabels (st : StackSt) (op : List String) : List String :=
  match st.stack with
  | none => []
  | some s =>
    let cfg := st.cfg
    let alloc (size align : Nat) : List String :=
      let fence := cfg.fence
      let offset := alignOff (s.cur + fence) align
      match s.blockEnd with
      | none => ["stack.alloc.no-block"]
      | some e =>
        if s.cur ≠ 0 && fits fence offset size (sub64 e s.cur) then
          [if sub64 e s.cur = fence + offset + size + fence then "stack.alloc.fits-exactly" else "stack.alloc.fits"]
        else if s.arena.cached ≠ [] then ["stack.alloc.grow-from-cache"] else ["stack.alloc.grow-new-block"]
    match op with
    | ["alloc", sz, al] | ["alloc_node", sz, al] => alloc (nat! sz) (nat! al)
    | ["alloc_array", c, sz, al] => alloc (mul64 (nat! c) (nat! sz)) (nat! al)
    | ["try_alloc", _, _] => ["stack.try_alloc"]
    | ["unwind", i, _, _] =>
      let k := s.arena.used.length - 1 - nat! i
      [if k = 0 then "stack.unwind.same-block" else if k = 1 then "stack.unwind.1-block" else "stack.unwind.2+blocks"]
    | ["shrink"] => [if s.arena.cached = [] then "stack.shrink.empty-cache" else "stack.shrink.cached"]
    | ["move"] => ["stack.move"]
    | ["move_assign"] => ["stack.move_assign"]
    | _ => []

def bump (cov : List (String × Nat)) (k : String) : List (String × Nat) :=
  match cov with
  | [] => [(k, 1)]
  | (k', n) :: rest => if k' = k then (k', n + 1) :: rest else (k', n) :: bump rest k

end MemVerif.Drv
