import MemVerif.Model.Basic
/-! line protocol parsing/printing shared by the subject drivers -/
namespace MemVerif.Drv
open MemVerif.Model

def toks (s : String) : List String := (s.trimAscii.toString.splitOn " ").filter (· ≠ "")

/-- the five sections of a trace line: op, env, result, upstream events, state -/
def sections (line : String) : List String := (line.splitOn " | ").map fun s => s.trimAscii.toString

def parseEnv (s : String) : List (Option Nat) := (toks s).map fun t => if t = "f" then none else t.toNat?

def nat! (s : String) : Nat := s.toNat?.getD 0

/-- `key=value` lookup in a header line -/
def hdr (ts : List String) (key : String) : Option String :=
  ts.findSome? fun t => match t.splitOn "=" with
    | [k, v] => if k = key then some v else none
    | _ => none

def parseCfg (ts : List String) : Cfg :=
  let b (k : String) : Bool := (hdr ts k).getD "0" = "1"
  { fill := b "fill", fence := nat! ((hdr ts "fence").getD "0"), leak := b "leak", ptrCheck := b "ptr",
    dblDealloc := b "dbl", assert := b "assert" }

def handlerOf : Exn → String
  | .oom | .oofm => "oomh"
  | .badSize | .badNode | .badArray | .badAlign => "badh"
  | .upstream => "noh"

def outStr : Out → String
  | .throws e => s!"throw {e.str} {handlerOf e}"
  | o => o.str

/-- outcome class of a call that is expected to be reported (C16/C17 child-process probes) -/
def badClass : Out → String
  | .handler "invalid_pointer" => "reported"
  | .handler "hang" => "hang"
  | .handler _ => "stopped"
  | .crash => "crash"
  | _ => "missed"

def mkLine (op env res up st : String) : String := s!"{op} | {env} | {res} | {up} | {st}"

end MemVerif.Drv
