import MemVerif.Model.Stack
import MemVerif.Model.Debug
/-!
What the bump stacks **write** (property C17, stack family): with `FOONATHAN_MEMORY_DEBUG_FILL` every operation of
`detail::fixed_memory_stack` marks the bytes it passes over —

* `allocate_unchecked(size, offset, fence)`: front fence (`fence_memory`), alignment padding (`alignment_memory`), the
  returned memory (`new_memory`), back fence;
* `unwind(top)`: everything from the new top to the old top (`freed_memory`);
* `memory_stack::unwind` into an older block: from the marker's top to the end of that block;
* `iteration_allocator::next_iteration`: the whole used part of the stack it switches to.

The functions below compute these writes next to the state functions of `Model/Stack.lean` (same case analysis, checked
against them by `Props/C17Stack`); the correspondence check compares them with the bytes the real code leaves behind.
-/
namespace MemVerif.Model

def magicAlign : Nat := 0xED

/-- one `debug_fill(addr, len, value)` -/
abbrev FillOp := Nat × Nat × Nat

def applyFill (m : Bytes) (f : FillOp) : Bytes := fill m f.1 f.2.1 f.2.2
def applyFills (m : Bytes) (fs : List FillOp) : Bytes := fs.foldl applyFill m

/-- `fixed_memory_stack::allocate_unchecked(size, offset, fence)` with the top at `cur` -/
def allocFills (cur size offset fence : Nat) : List FillOp :=
  [(cur, fence, magicFence), (cur + fence, offset, magicAlign), (cur + fence + offset, size, magicNew),
   (cur + fence + offset + size, fence, magicFence)]

/-- `fixed_memory_stack::allocate(end, size, alignment, fence)` -/
def fixedAllocateFills (cur end_ size align fence : Nat) : List FillOp :=
  match fixedAllocate cur end_ size align fence with
  | none => []
  | some _ => allocFills cur size (alignOff (cur + fence) align) fence

/-- `memory_stack::allocate(size, alignment)` -/
def MemStack.allocateFills (cfg : Cfg) (s : MemStack) (size align : Nat) (env : List (Option Nat)) : List FillOp :=
  if !cfg.fill then []
  else
    let fence := cfg.fence
    let offset := alignOff (s.cur + fence) align
    let needGrow : Option Bool :=
      if s.cur = 0 then some true
      else match s.blockEnd with
        | none => none
        | some e => some (!fits fence offset size (sub64 e s.cur))
    match needGrow with
    | none => []
    | some false => allocFills s.cur size offset fence
    | some true =>
      match s.arena.allocateBlock env with
      | .ok _ b _ _ =>
        let offset := alignOff (b.base + fence) align
        if neededSat fence offset size > b.size then [] else allocFills b.base size offset fence
      | _ => []

/-- `memory_stack::try_allocate(size, alignment)` -/
def MemStack.tryAllocateFills (cfg : Cfg) (s : MemStack) (size align : Nat) : List FillOp :=
  if !cfg.fill then []
  else match s.blockEnd with
    | none => []
    | some e => fixedAllocateFills s.cur e size align cfg.fence

/-- `memory_stack::unwind(m)` -/
def MemStack.unwindFills (cfg : Cfg) (s : MemStack) (m : Marker) : List FillOp :=
  if !cfg.fill then []
  else match (s.unwindEv cfg m).2.1 with
    | .done =>
      if sub64 (s.arena.used.length - 1) m.index ≠ 0 then [(m.top, m.end_ - m.top, magicFreed)]
      else [(m.top, s.cur - m.top, magicFreed)]
    | _ => []

/-- `iteration_allocator::allocate` -/
def Iter.allocateFills (cfg : Cfg) (it : Iter) (size align : Nat) : List FillOp :=
  if !cfg.fill then []
  else
    let top := it.tops.getD it.cur 0
    let offset := alignOff (top + cfg.fence) align
    if top = 0 || !fits cfg.fence offset size (sub64 (it.blockEnd it.cur) top) then []
    else allocFills top size offset cfg.fence

def Iter.tryAllocateFills (cfg : Cfg) (it : Iter) (size align : Nat) : List FillOp :=
  if !cfg.fill then [] else fixedAllocateFills (it.tops.getD it.cur 0) (it.blockEnd it.cur) size align cfg.fence

/-- `iteration_allocator::next_iteration`: the stack it switches to is unwound to the start of its region -/
def Iter.nextIterationFills (cfg : Cfg) (it : Iter) : List FillOp :=
  if !cfg.fill then []
  else
    let c := (it.cur + 1) % it.n
    [(it.blockStart c, it.tops.getD c 0 - it.blockStart c, magicFreed)]

/-! ### canonical text form for the correspondence check: the bytes of the footprint as runs `value*count` -/

/-- merge the non-empty fills of a footprint (consecutive by construction) into runs -/
def fillRuns : List FillOp → List (Nat × Nat)
  | [] => []
  | (_, len, v) :: fs =>
    let rest := fillRuns fs
    if len = 0 then rest
    else match rest with
      | (v', n) :: tl => if v' = v then (v, len + n) :: tl else (v, len) :: rest
      | [] => [(v, len)]

def hex2 (v : Nat) : String :=
  let d := fun (k : Nat) => "0123456789abcdef".toList.getD k '?'
  String.ofList [d (v / 16 % 16), d (v % 16)]

def runsStr (rs : List (Nat × Nat)) : String :=
  ",".intercalate (rs.map fun r => s!"{hex2 r.1}*{r.2}")

/-- ` w=<start>:<runs>` (nothing written: ` w=-`) -/
def fillsStr (fs : List FillOp) : String :=
  match fillRuns fs, fs with
  | [], _ => " w=-"
  | rs, f :: _ => s!" w={(fs.find? (fun g => g.2.1 ≠ 0)).map (·.1) |>.getD f.1}:{runsStr rs}"
  | _, [] => " w=-"

end MemVerif.Model
