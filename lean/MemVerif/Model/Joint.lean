import MemVerif.Model.Stack
/-!
`joint_allocator.hpp`: the joint stack that lives behind an object owned by a `joint_ptr` (one upstream node of
`sizeof(T) + additional_size` bytes; the stack covers `[obj + sizeof(T), obj + sizeof(T) + additional_size)`, fence 0).
-/
namespace MemVerif.Model

structure Joint where
  mem : Nat      -- `get_memory(obj)` = obj + sizeof(T)
  top : Nat
  end_ : Nat     -- mem + additional_size
deriving Repr, DecidableEq

def Joint.str (j : Joint) : String := s!"mem={j.mem} top={j.top} end={j.end_}"

/-- `joint_type<T>::joint_type(joint)` for an object at `obj` -/
def Joint.create (obj objSize extra : Nat) : Joint := ⟨obj + objSize, obj + objSize, obj + objSize + extra⟩

/-- `joint_allocator::allocate_node` / `joint_array(allocate_only, ...)`: bounds-checked bump, `out_of_fixed_memory`
otherwise (state unchanged) -/
def Joint.allocate (j : Joint) (size align : Nat) : Joint × Out :=
  match fixedAllocate j.top j.end_ size align 0 with
  | none => (j, .throws .oofm)
  | some (p, c) => ({ j with top := c }, .ok p)

/-- `joint_stack::bump(offset)` -/
def Joint.bump (j : Joint) (off : Nat) : Option Joint :=
  if off > sub64 j.end_ j.top then none else some { j with top := j.top + off }

/-- `joint_allocator::deallocate_node`: only the most recent allocation is given back -/
def Joint.deallocate (j : Joint) (p size : Nat) : Joint := if p + size = j.top then { j with top := p } else j

/-- `joint_array(size, j)` and the other sized forms: one allocation of `n * sizeof(T)` -/
def Joint.arraySized (j : Joint) (n esize ealign : Nat) : Joint × Out := j.allocate (mul64 n esize) ealign

/-- `n` more elements are appended by bumping; a failed bump makes the builder unwind to `first` and throw -/
def Joint.bumpN (j : Joint) (first esize : Nat) : Nat → Joint × Out
  | 0 => (j, .ok first)
  | n + 1 =>
    match j.bump esize with
    | none => ({ j with top := first }, .throws .oofm)
    | some j' => Joint.bumpN j' first esize n

/-- `joint_array(begin, end, j)`: nothing for an empty range; else one element is allocated and each further one bumped -/
def Joint.arrayRange (j : Joint) (n esize ealign : Nat) : Joint × Out :=
  match n with
  | 0 => (j, .ok 0)
  | n + 1 =>
    match j.allocate esize ealign with
    | (j', .ok p) => Joint.bumpN j' p esize n
    | r => r

def Joint.capacity (j : Joint) : Nat := sub64 j.end_ j.mem
def Joint.capacityLeft (j : Joint) : Nat := sub64 j.end_ j.top
def Joint.capacityUsed (j : Joint) : Nat := sub64 j.top j.mem

/-- the size `joint_ptr::reset()` passes to the upstream `deallocate_node` -/
def Joint.releaseSize (j : Joint) (objSize : Nat) : Nat := objSize + j.capacity

/-- histories of the joint stack (C11): node/array allocations and releases by members -/
inductive JOp
  | alloc (size align : Nat)
  | dealloc (p size : Nat)
deriving Repr, DecidableEq

def Joint.step (j : Joint) : JOp → Joint × Out
  | .alloc s a => j.allocate s a
  | .dealloc p s => (j.deallocate p s, .done)

def Joint.run (j : Joint) : List JOp → Joint
  | [] => j
  | op :: ops => Joint.run (j.step op).1 ops

end MemVerif.Model
