import MemVerif.Model.Basic
/-!
Byte-level model of the debug fill / fence helpers (`src/detail/debug_helpers.cpp`) and of the low-level allocators'
node layout (`detail/lowlevel_allocator.hpp`, `virtual_memory_allocator`):  `[fence | node | fence]`.
Memory is a function from byte offsets to byte values.
-/
namespace MemVerif.Model

abbrev Bytes := Nat → Nat

/-- `debug_magic` values (translated constants are checked against these by the C17 harness header line) -/
def magicNew : Nat := 0xCD
def magicFreed : Nat := 0xDD
def magicFence : Nat := 0xFD
def magicInternal : Nat := 0xAB

/-- `debug_fill(memory + off, len, v)` -/
def fill (m : Bytes) (off len v : Nat) : Bytes := fun i => if off ≤ i ∧ i < off + len then v else m i

/-- `debug_is_filled(memory + off, len, v)`: offset of the first byte that differs from `v` -/
def firstMismatch (m : Bytes) (v : Nat) : (off len : Nat) → Option Nat
  | _, 0 => none
  | off, len + 1 => if m off ≠ v then some off else firstMismatch m v (off + 1) len

/-- `debug_fill_new(memory + raw, node_size, fence)`: fence, node, fence; returns the memory (node starts at `raw + fence`) -/
def fillNew (m : Bytes) (raw size fence : Nat) : Bytes :=
  fill (fill (fill m raw fence magicFence) (raw + fence) size magicNew) (raw + fence + size) fence magicFence

/-- `debug_fill_free(node, node_size, fence)`: fills the node with the freed pattern, then checks the fence before and
the fence after it; every dirty fence yields one buffer-overflow-handler call with the address of its first dirty byte
(the default handler aborts at the first one; a handler that returns sees both) -/
def fillFree (m : Bytes) (node size fence : Nat) : Bytes × List Nat :=
  let m1 := fill m node size magicFreed
  let pre := firstMismatch m1 magicFence (node - fence) fence
  let post := firstMismatch m1 magicFence (node + size) fence
  (m1, pre.toList ++ post.toList)

/-- a low-level allocation of `size` bytes with fences of `fence` bytes at raw offset 0 of fresh memory -/
def llNew (size fence : Nat) : Bytes := fillNew (fun _ => 0) 0 size fence

/-- user writes `(offset, value)` (offsets relative to the raw block) applied in order -/
def poke (m : Bytes) : List (Nat × Nat) → Bytes
  | [] => m
  | (o, v) :: ws => poke (fun i => if i = o then v else m i) ws

/-- `deallocate_node` of the low-level allocators: the handler calls (offsets relative to the raw block) -/
def llFreeReports (size fence : Nat) (m : Bytes) : List Nat := (fillFree m fence size fence).2

end MemVerif.Model
