import MemVerif.Model.Arena
import MemVerif.Model.StackRun
/-!
Histories over a `memory_arena` and the upstream *ledger*: the event log replayed as a stack of outstanding blocks.
-/
namespace MemVerif.Model

inductive AOp
  | alloc      -- allocate_block()
  | dealloc    -- deallocate_block()   (ignored when no block is in use: the caller's contract)
  | shrink     -- shrink_to_fit()
deriving Repr, DecidableEq

/-- one arena operation; `k` is the index of the next upstream answer -/
def Arena.stepOp (cfg : Cfg) (e : EnvS) (a : Arena) (k : Nat) : AOp → Arena × Nat × List UpEv
  | .alloc =>
    match a.allocateBlock [e k] with
    | .ok a' _ ev _ => (a', k + usedAnswers ev, ev)
    | .fail a' _ ev _ => (a', k + usedAnswers ev, ev)
    | .envMissing => (a, k, [])
  | .dealloc =>
    match a.deallocateBlock cfg with
    | some (a', ev, _) => (a', k, ev)
    | none => (a, k, [])
  | .shrink =>
    let (a', ev, _) := a.shrinkToFit cfg
    (a', k, ev)

def Arena.runOps (cfg : Cfg) (e : EnvS) (a : Arena) (k : Nat) : List AOp → Arena × Nat × List UpEv
  | [] => (a, k, [])
  | op :: ops =>
    let (a1, k1, ev1) := a.stepOp cfg e k op
    let (a2, k2, ev2) := Arena.runOps cfg e a1 k1 ops
    (a2, k2, ev1 ++ ev2)

/-- Replay an upstream event log as a stack of outstanding blocks (most recent first).
`none`: some release was not the most recently acquired outstanding block, or not with the address and size it was
acquired with, or nothing was outstanding. -/
def ledger : List Blk → List UpEv → Option (List Blk)
  | st, [] => some st
  | st, .alloc s _ (some a) :: evs => ledger (⟨a, s⟩ :: st) evs
  | st, .alloc _ _ none :: evs => ledger st evs
  | [], .dealloc _ _ _ :: _ => none
  | b :: st, .dealloc a s _ :: evs => if b = ⟨a, s⟩ then ledger st evs else none

/-- sources that talk to an upstream allocator -/
def Src.isUpstream : Src → Bool
  | .growing _ _ _ => true
  | .fixed _ => true
  | .static_ _ _ _ => false

end MemVerif.Model
