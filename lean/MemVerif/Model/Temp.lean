import MemVerif.Model.Basic
/-!
The per-thread temporary stacks of `src/temporary_allocator.cpp` (`FOONATHAN_MEMORY_TEMPORARY_STACK_MODE == 2`) as an
interleaving transition system: a push-only global list of stacks with an `in_use` flag each, a thread-local pointer per
thread, the thread-exit detector (armed or not), and one transition per stretch of code between two scheduling points
(the guarded `FOONATHAN_MEMORY_VERIF_YIELD` hooks: 1 before the list head is read, 2 before each compare-exchange on
`in_use_`, 3 before the push of a new node, 4 before `in_use_ = false`). Sequential consistency (the code uses the default
`seq_cst` atomics).

`Fixes` selects the code version: all `true` is the repaired code in the repository; each `false` restores one defect of
the pinned version (D10, D11, D12), for which `Props/C14.lean` exhibits a failing schedule.
-/
namespace MemVerif.Model

structure Fixes where
  resetTls : Bool := true       -- D10: `~temporary_stack_initializer` resets the thread-local pointer after `clear`
  armOnAdopt : Bool := true     -- D11: a thread that takes over an existing stack arms its exit detector
  destroyAlways : Bool := true  -- D12: the nifty counter destroys the list even if the main thread never had a stack
deriving Repr, DecidableEq

inductive Act | get | initCtor | initDtor
deriving Repr, DecidableEq

/-- where a thread is waiting -/
inductive PC
  | idle (k : Nat)                          -- before act `k` of its script (or, past the end, about to exit)
  | atLoad (k : Nat)                        -- point 1
  | atCas (k : Nat) (rest : List Nat)       -- point 2, next candidate is `rest.head`
  | atPush (k : Nat)                        -- point 3
  | atStore (k : Nat) (i : Nat)             -- point 4 inside `~temporary_stack_initializer`
  | atStoreExit (i : Nat)                   -- point 4 inside the thread-exit detector
  | done
deriving Repr, DecidableEq

structure TThread where
  script : List Act
  pc : PC := .idle 0
  tls : Option Nat := none
  armed : Bool := false
deriving Repr, DecidableEq

structure TSys where
  inUse : List Bool := []        -- by stack id (creation order)
  threads : List TThread
deriving Repr, DecidableEq

def TThread.live (t : TThread) : Bool := t.pc != .done

/-- list order seen by `find_unused`: newest first -/
def TSys.snapshot (s : TSys) : List Nat := (List.range s.inUse.length).reverse

/-- what one thread does between two scheduling points: effect on the `in_use` flags and on the thread itself -/
def stepThread (fx : Fixes) (iu : List Bool) (th : TThread) : List Bool × TThread :=
  match th.pc with
  | .done => (iu, th)
  | .idle k =>
    match th.script[k]? with
    | none =>
      -- end of the thread function: the exit detector (if it was ever created in this thread) clears the stack
      match th.tls with
      | some i => if th.armed then (iu, { th with pc := .atStoreExit i }) else (iu, { th with pc := .done })
      | none => (iu, { th with pc := .done })
    | some .get | some .initCtor =>
      if th.tls.isSome then (iu, { th with pc := .idle (k + 1) })
      else (iu, { th with pc := .atLoad k })
    | some .initDtor =>
      match th.tls with
      | some i => (iu, { th with pc := .atStore k i })
      | none => (iu, { th with pc := .idle (k + 1) })
  | .atLoad k =>
    -- `first.load()`: the list as it is now, newest node first
    match (List.range iu.length).reverse with
    | [] => (iu, { th with pc := .atPush k })
    | snap => (iu, { th with pc := .atCas k snap })
  | .atCas k [] => (iu, { th with pc := .atPush k })     -- (not reachable: empty candidate lists go to atPush)
  | .atCas k (i :: rest) =>
    if iu.getD i true = false then
      -- compare-exchange succeeded: the stack is taken over
      (iu.set i true, { th with pc := .idle (k + 1), tls := some i, armed := th.armed || fx.armOnAdopt })
    else
      match rest with
      | [] => (iu, { th with pc := .atPush k })
      | _ => (iu, { th with pc := .atCas k rest })
  | .atPush k =>
    (iu ++ [true], { th with pc := .idle (k + 1), tls := some iu.length, armed := true })
  | .atStore k i =>
    (iu.set i false, { th with pc := .idle (k + 1), tls := if fx.resetTls then none else th.tls })
  | .atStoreExit i =>
    (iu.set i false, { th with pc := .done })

/-- one scheduling decision: thread `t` runs from the point it waits at to the next one -/
def TSys.step (fx : Fixes) (s : TSys) (t : Nat) : TSys :=
  match s.threads[t]? with
  | none => s
  | some th =>
    let r := stepThread fx s.inUse th
    { inUse := r.1, threads := s.threads.set t r.2 }

def TSys.run (fx : Fixes) (s : TSys) : List Nat → TSys
  | [] => s
  | t :: ts => TSys.run fx (s.step fx t) ts

def TSys.init (scripts : List (List Act)) : TSys := { threads := scripts.map fun sc => { script := sc } }

/-- the stack a live thread is using -/
def TThread.holds (t : TThread) : Option Nat := if t.live then t.tls else none

/-- no two live threads use the same temporary stack -/
def TSys.exclusive (s : TSys) : Bool :=
  let hs := s.threads.filterMap TThread.holds
  hs.Nodup

/-- every stack marked in use belongs to a live thread (stacks of finished threads are free for reuse) -/
def TSys.releasedOnExit (s : TSys) : Bool :=
  (List.range s.inUse.length).all fun i =>
    !(s.inUse.getD i false) || s.threads.any fun t => t.live && t.tls == some i

/-- program exit (thread 0 = main): are the stack objects destroyed? -/
def TSys.destroyedAtExit (fx : Fixes) (s : TSys) : Bool :=
  fx.destroyAlways || (s.threads[0]?.map (·.tls.isSome)).getD false

def PC.str : PC → String
  | .idle k => s!"idle:{k}" | .atLoad k => s!"p1:{k}" | .atCas k _ => s!"p2:{k}" | .atPush k => s!"p3:{k}"
  | .atStore k _ => s!"p4:{k}" | .atStoreExit _ => "p4x" | .done => "done"

/-- the scheduling point a thread waits at (as the harness reports it) -/
def PC.point : PC → String
  | .idle _ => "p0" | .atLoad _ => "p1" | .atCas _ _ => "p2" | .atPush _ => "p3" | .atStore _ _ => "p4" | .atStoreExit _ => "p4"
  | .done => "done"

def TSys.str (s : TSys) : String :=
  let iu := ",".intercalate (s.inUse.map fun b => if b then "1" else "0")
  let ts := " ".intercalate (s.threads.map fun t =>
    s!"{t.pc.str}/{match t.holds with | some i => toString i | none => "-"}")
  s!"inuse=[{iu}] threads={ts}"

end MemVerif.Model
