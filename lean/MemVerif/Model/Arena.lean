import MemVerif.Model.Basic
/-!
`memory_arena` over the block sources (`memory_arena.hpp`, `src/memory_arena.cpp`, `static_allocator.cpp`).
Two LIFO stacks of blocks (`used`, `cached`, top first) + the block source.
-/
namespace MemVerif.Model
open MemVerif.Gen

/-- block sources. `growing`/`fixed` sit on a RawAllocator upstream (events); `static_` carves a fixed storage. -/
inductive Src
  | growing (num den blockSize : Nat)
  | fixed (blockSize : Nat)
  | static_ (cur end_ blockSize : Nat)
deriving Repr, DecidableEq

def Src.nextBlockSize : Src → Nat
  | .growing _ _ b => b
  | .fixed b => b
  | .static_ _ _ b => b

def Src.str : Src → String
  | .growing n d b => s!"growing:{n}/{d}:{b}"
  | .fixed b => s!"fixed:{b}"
  | .static_ c e b => s!"static:{c}:{e}:{b}"

/-- result of asking the source for a block -/
inductive SrcRes
  | ok (src : Src) (b : Blk) (ev : List UpEv) (env : List (Option Nat))
  | fail (src : Src) (e : Exn) (ev : List UpEv) (env : List (Option Nat))
  | envMissing

def growBlock (num den b : Nat) : Nat :=
  (growBlockSize (BitVec.ofNat 32 num) (BitVec.ofNat 32 den) (BitVec.ofNat 64 b)).toNat

/-- `BlockAllocator::allocate_block()` -/
def Src.allocateBlock (s : Src) (env : List (Option Nat)) : SrcRes :=
  match s with
  | .growing n d b =>
    match env with
    | [] => .envMissing
    | none :: env' => .fail s .upstream [.alloc b maxAlign none] env'
    | some a :: env' => .ok (.growing n d (growBlock n d b)) ⟨a, b⟩ [.alloc b maxAlign (some a)] env'
  | .fixed b =>
    if b ≠ 0 then
      match env with
      | [] => .envMissing
      | none :: env' => .fail s .upstream [.alloc b maxAlign none] env'
      | some a :: env' => .ok (.fixed 0) ⟨a, b⟩ [.alloc b maxAlign (some a)] env'
    else .fail s .oofm [] env
  | .static_ c e b =>
    if staticBlockExhausted (BitVec.ofNat 64 c) (BitVec.ofNat 64 b) (BitVec.ofNat 64 e) then .fail s .oofm [] env
    else .ok (.static_ (c + b) e b) ⟨c, b⟩ [] env

/-- `BlockAllocator::deallocate_block(block)`; `some kind` = the pointer check that fires (LIFO sources) -/
def Src.deallocateBlock (cfg : Cfg) (s : Src) (blk : Blk) : Src × List UpEv × Option String :=
  match s with
  | .growing n d b => (.growing n d b, [.dealloc blk.base blk.size maxAlign], none)
  | .fixed b =>
    let chk := if cfg.ptrCheck && b ≠ 0 then some "invalid_pointer" else none
    (.fixed blk.size, [.dealloc blk.base blk.size maxAlign], chk)
  | .static_ c e b =>
    let chk := if cfg.ptrCheck && blk.base + blk.size ≠ c then some "invalid_pointer" else none
    (.static_ (c - b) e b, [], chk)

structure Arena where
  src : Src
  isCached : Bool
  used : List Blk := []
  cached : List Blk := []
deriving Repr, DecidableEq

/-- usable part of a pushed block (`memory_block_stack::top()`) -/
def Blk.usable (b : Blk) : Blk := ⟨b.base + implOff, b.size - implOff⟩

def Arena.str (a : Arena) : String :=
  s!"used={blksStr a.used} cached={blksStr a.cached} src={a.src.str}"

inductive ArenaRes
  | ok (a : Arena) (inserted : Blk) (ev : List UpEv) (env : List (Option Nat))
  | fail (a : Arena) (e : Exn) (ev : List UpEv) (env : List (Option Nat))
  | envMissing

/-- `memory_arena::allocate_block()`; returns the *inserted* block (usable part). -/
def Arena.allocateBlock (a : Arena) (env : List (Option Nat)) : ArenaRes :=
  match a.isCached, a.cached with
  | true, c :: cs => .ok { a with used := c :: a.used, cached := cs } c.usable [] env
  | _, _ =>
    match a.src.allocateBlock env with
    | .envMissing => .envMissing
    | .fail s e ev env' => .fail { a with src := s } e ev env'
    | .ok s b ev env' => .ok { a with src := s, used := b :: a.used } b.usable ev env'

def Arena.currentBlock (a : Arena) : Option Blk := a.used.head?.map Blk.usable

/-- `memory_arena::deallocate_block()`; precondition `used ≠ []` (else null dereference = crash) -/
def Arena.deallocateBlock (cfg : Cfg) (a : Arena) : Option (Arena × List UpEv × Option String) :=
  match a.used with
  | [] => none
  | b :: us =>
    if a.isCached then some ({ a with used := us, cached := b :: a.cached }, [], none)
    else
      let (s, ev, chk) := a.src.deallocateBlock cfg b
      some ({ a with used := us, src := s }, ev, chk)

/-- release a list of blocks to the source in the given order -/
def releaseAll (cfg : Cfg) (s : Src) : List Blk → Src × List UpEv × Option String
  | [] => (s, [], none)
  | b :: bs =>
    let (s1, ev1, c1) := s.deallocateBlock cfg b
    let (s2, ev2, c2) := releaseAll cfg s1 bs
    (s2, ev1 ++ ev2, c1.orElse fun _ => c2)

/-- `memory_arena::shrink_to_fit()`: the cache is emptied, deepest (most recently acquired) block first -/
def Arena.shrinkToFit (cfg : Cfg) (a : Arena) : Arena × List UpEv × Option String :=
  let (s, ev, chk) := releaseAll cfg a.src a.cached.reverse
  ({ a with src := s, cached := [] }, ev, chk)

/-- `~memory_arena()`: shrink, then pop everything in `used` -/
def Arena.destroy (cfg : Cfg) (a : Arena) : Arena × List UpEv × Option String :=
  let (a1, ev1, c1) := a.shrinkToFit cfg
  let (s, ev2, c2) := releaseAll cfg a1.src a1.used
  ({ a1 with src := s, used := [] }, ev1 ++ ev2, c1.orElse fun _ => c2)

/-- `memory_block_stack::owns` over the used blocks -/
def Arena.owns (a : Arena) (p : Nat) : Bool :=
  a.used.any fun b => decide (b.usable.base ≤ p ∧ p < b.usable.base + b.usable.size)

/-- `memory_arena::next_block_size()` -/
def Arena.nextBlockSize (a : Arena) : Nat :=
  match a.isCached, a.cached with
  | true, c :: _ => c.usable.size
  | _, _ => sub64 a.src.nextBlockSize implOff

/-- moved-from source (`static_block_allocator` zeroes itself; the upstream-based ones keep their numbers) -/
def Src.movedFrom : Src → Src
  | .static_ _ _ _ => .static_ 0 0 0
  | s => s

def Arena.movedFrom (a : Arena) : Arena := { a with src := a.src.movedFrom, used := [], cached := [] }

end MemVerif.Model
