import MemVerif.Model.CollRun
import MemVerif.Lemmas.C01Cells
/-!
Ghost-instrumented histories over a `memory_pool_collection` with **node and array operations** (property C01).

The ledger `live` is a list of *cells* `(address, size key)`: a node is one cell, an array of `k` cells of the bucket that
serves `size` is entered as its `k` cells. `arrs` remembers the arrays the caller holds, `(address, count, size)`, so that
a release can name one; it is performed with the count and size the array was requested with (the caller's contract).
-/
namespace MemVerif.Model

/-- the `k` cell entries of an array at `a` in a bucket with nodes of `ns` bytes, requested with key `s` -/
def arrEntries (ns a s k : Nat) : List (Nat × Nat) := (blockNodes a ns k).map fun x => (x, s)

/-- `l` without the elements of `E` -/
def removeAllOf {α} [DecidableEq α] (l E : List α) : List α := l.filter (fun e => decide (e ∉ E))

/-- the ledger without the cells of an array -/
def removeEntries (live E : List (Nat × Nat)) : List (Nat × Nat) := removeAllOf live E

structure GCollA where
  c : Coll
  live : List (Nat × Nat) := []
  arrs : List (Nat × Nat × Nat) := []
deriving Repr, DecidableEq

inductive COpA
  | node (op : COpn)                       -- `allocate_node`, `try_allocate_node`, `deallocate_node` as in `COpn`
  | allocArray (count size : Nat)          -- `allocate_array(count, size)`
  | tryAllocArray (count size : Nat)       -- `try_allocate_array(count, size)`
  | deallocArray (j : Nat)                 -- `deallocate_array(ptr, count, size)` of the `j`-th array the caller holds
  | reserve (size capacity : Nat)          -- `reserve(size, capacity)`: more memory for the bucket of `size`
deriving Repr, DecidableEq

/-- number of cells of the bucket with nodes of `ns` bytes that an array of `count * size` bytes occupies -/
def arrCells (ns count size : Nat) : Nat := cellsOf ns (mul64 count size)

/-- ledger after an array request: the cells of the array, with the node size of the bucket in the resulting state -/
def ledgerArr (st : Coll) (live : List (Nat × Nat)) (count size : Nat) : Out → List (Nat × Nat)
  | .ok a =>
    let ns := ((st.lists[st.listIndex size]?).map AnyList.nodeSize).getD 0
    arrEntries ns a size (arrCells ns count size) ++ live
  | _ => live

def GCollA.step (cfg : Cfg) (e : EnvS) (g : GCollA) (k : Nat) : COpA → GCollA × Nat
  | .node op =>
    let r := (GColl.mk g.c g.live).step cfg e k op
    ({ c := r.1.c, live := r.1.live, arrs := g.arrs }, r.2)
  | .allocArray count size =>
    let r := g.c.allocateArray cfg count size [e k, e (k + 1)]
    ({ c := r.st, live := ledgerArr r.st g.live count size r.out,
       arrs := match r.out with | .ok a => (a, count, size) :: g.arrs | _ => g.arrs }, k + usedAnswers r.ev)
  | .tryAllocArray count size =>
    let r := g.c.tryAllocateArray cfg count size
    ({ c := r.st, live := ledgerArr r.st g.live count size r.out,
       arrs := match r.out with | .ok a => (a, count, size) :: g.arrs | _ => g.arrs }, k)
  | .reserve size capacity =>
    let r := g.c.reserveOp cfg size capacity [e k]
    ({ g with c := r.st }, k + usedAnswers r.ev)
  | .deallocArray j =>
    match g.arrs[j]? with
    | none => (g, k)
    | some (a, count, size) =>
      match g.c.lists[g.c.listIndex size]? with
      | none => (g, k)
      | some l =>
        let E := arrEntries l.nodeSize a size (arrCells l.nodeSize count size)
        if E.all (fun x => g.live.contains x) then
          let r := g.c.deallocateArray cfg a count size
          ({ c := r.st, live := removeEntries g.live E, arrs := g.arrs.eraseIdx j }, k)
        else (g, k)      -- the caller no longer holds all of it (it released a cell as a node): not a valid release

def GCollA.run (cfg : Cfg) (e : EnvS) (g : GCollA) (k : Nat) : List COpA → GCollA × Nat
  | [] => (g, k)
  | op :: ops => let r := g.step cfg e k op; GCollA.run cfg e r.1 r.2 ops

end MemVerif.Model
