import MemVerif.Gen.NodeSizes
/-!
C10: (1) node sizes — libstdc++'s node layout as a formula and the library's `X_node_size<T>` computed from the generated
table; (2) the allocator-aware container protocol of the standard at the level the property needs: which allocator a
container's handle references and which allocator each of its nodes came from.
-/
namespace MemVerif.Model
open MemVerif.Gen

def roundUpTo (x a : Nat) : Nat := (x + a - 1) / a * a

/-- bytes in front of the value in libstdc++'s node (trusted model of the standard library, validated by the harness):
`_Fwd_list_node_base` 8, `_List_node_base` 16, `_Rb_tree_node_base` 32, `_Hash_node_base` 8 (no cached hash code for
fast/noexcept hashes), `_Sp_counted_ptr_inplace` 16 + the stored allocator -/
def stdHeader (c : String) : Nat :=
  if c = "forward_list" then 8 else if c = "list" then 16
  else if c = "set" || c = "multiset" || c = "map" || c = "multimap" then 32
  else if c = "unordered_set" || c = "unordered_multiset" || c = "unordered_map" || c = "unordered_multimap" then 8
  else if c = "shared_ptr_stateful" then 24 else if c = "shared_ptr_stateless" then 16 else 0

/-- what the container asks its allocator for, per node holding a value of `s` bytes aligned to `a` -/
def stdNodeRequest (c : String) (s a : Nat) : Nat := roundUpTo (roundUpTo (stdHeader c) a + s) (max a 8)

def nodeSizeBase (c : String) (a : Nat) : Option Nat :=
  (nodeSizeTable.find? fun r => r.1 == c && r.2.1 == a).map (·.2.2)

/-- `X_node_size<T>::value` for `sizeof(T) = s`, `alignof(T) = a` -/
def nodeSizeConst (c : String) (s a : Nat) : Option Nat := (nodeSizeBase c a).map fun b => roundUpTo (b + s) 8

/-! ### container protocol -/

/-- the three propagation traits and the equality relation of the allocator handle type -/
structure ATraits where
  pocca : Bool := true
  pocma : Bool := true
  pocs : Bool := true
  /-- `operator==` of two handles referencing allocators `a`, `b` -/
  eq : Nat → Nat → Bool := fun a b => a == b

structure Cont where
  alloc : Nat              -- allocator object the handle references
  nodes : List Nat         -- allocator each node was obtained from
deriving Repr, DecidableEq

inductive COp
  | insert (i : Nat)
  | erase (i : Nat)
  | clear (i : Nat)
  | copyAssign (i j : Nat)
  | moveAssign (i j : Nat)     -- followed by `clear` of the source (harness), not part of the op
  | swap (i j : Nat)
  | copyCtor (i j : Nat)       -- slot i is replaced by a copy of slot j
  | moveCtor (i j : Nat)
  | splice (i j : Nat)         -- transfer of all nodes of j into i; only legal if the handles compare equal
deriving Repr, DecidableEq

def setC (cs : List Cont) (i : Nat) (c : Cont) : List Cont := cs.set i c

/-- one operation; `none` = precondition of the standard violated (the model never takes such a step) -/
def cstep (tr : ATraits) (cs : List Cont) : COp → Option (List Cont)
  | .insert i => cs[i]?.map fun c => setC cs i { c with nodes := c.alloc :: c.nodes }
  | .erase i => cs[i]?.map fun c => setC cs i { c with nodes := c.nodes.tail }
  | .clear i => cs[i]?.map fun c => setC cs i { c with nodes := [] }
  | .copyAssign i j =>
    match cs[i]?, cs[j]? with
    | some ci, some cj =>
      -- old nodes go back through the old handle; the handle is replaced if the trait says so; copies come from the new handle
      let a := if tr.pocca then cj.alloc else ci.alloc
      some (setC cs i { alloc := a, nodes := cj.nodes.map fun _ => a })
    | _, _ => none
  | .moveAssign i j =>
    match cs[i]?, cs[j]? with
    | some ci, some cj =>
      if tr.pocma then some (setC (setC cs i { alloc := cj.alloc, nodes := cj.nodes }) j { cj with nodes := [] })
      else if tr.eq ci.alloc cj.alloc then some (setC (setC cs i { ci with nodes := cj.nodes }) j { cj with nodes := [] })
      else some (setC cs i { ci with nodes := cj.nodes.map fun _ => ci.alloc })   -- element-wise move into own memory
    | _, _ => none
  | .swap i j =>
    match cs[i]?, cs[j]? with
    | some ci, some cj =>
      if tr.pocs then some (setC (setC cs i cj) j ci)
      else if tr.eq ci.alloc cj.alloc then some (setC (setC cs i { ci with nodes := cj.nodes }) j { cj with nodes := ci.nodes })
      else none
    | _, _ => none
  | .copyCtor i j => cs[j]?.map fun cj => setC cs i { alloc := cj.alloc, nodes := cj.nodes.map fun _ => cj.alloc }
  | .moveCtor i j => cs[j]?.map fun cj => setC (setC cs j { cj with nodes := [] }) i { alloc := cj.alloc, nodes := cj.nodes }
  | .splice i j =>
    match cs[i]?, cs[j]? with
    | some ci, some cj =>
      if i ≠ j && tr.eq ci.alloc cj.alloc then some (setC (setC cs i { ci with nodes := ci.nodes ++ cj.nodes }) j { cj with nodes := [] })
      else none
    | _, _ => none

def crun (tr : ATraits) : List Cont → List COp → Option (List Cont)
  | cs, [] => some cs
  | cs, op :: ops => (cstep tr cs op).bind fun cs' => crun tr cs' ops

/-- every node of every container came from the allocator the container's handle references (so it is released there) -/
def Origin (cs : List Cont) : Prop := ∀ c ∈ cs, ∀ n ∈ c.nodes, n = c.alloc

def originB (cs : List Cont) : Bool := cs.all fun c => c.nodes.all fun n => n == c.alloc

end MemVerif.Model
