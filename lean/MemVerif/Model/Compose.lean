import MemVerif.Model.Basic
/-!
Request routing through the composition classes (`allocator_traits.hpp` fallbacks, `fallback_allocator.hpp`,
`aligned_allocator.hpp`, `tracking.hpp`, `segregator.hpp`, `allocator_storage.hpp`, `std_allocator.hpp`,
`memory_resource_adapter.hpp`). A composition is an expression over instrumented leaf allocators; routing a user-level
request yields the list of calls the leaves see (with kind, count, size, alignment) and the tracker events.
Leaf behaviour (does a leaf serve a request? does it own a pointer?) is an input: `answers` for allocations, `owner`
for releases.
-/
namespace MemVerif.Model

/-- a request shape: node (`arr = false`, `count = 1`) or array -/
structure Req where
  arr : Bool
  count : Nat
  size : Nat
  align : Nat
deriving Repr, DecidableEq

def Req.node (size align : Nat) : Req := ⟨false, 1, size, align⟩
def Req.array (count size align : Nat) : Req := ⟨true, count, size, align⟩
/-- bytes asked for (machine arithmetic: `count * size` is computed in `size_t`) -/
def Req.bytes (r : Req) : Nat := if r.arr then mul64 r.count r.size else r.size
def Req.str (r : Req) : String := if r.arr then s!"arr:{r.count}:{r.size}:{r.align}" else s!"node:{r.size}:{r.align}"

inductive CallKind | alloc | tryAlloc | dealloc | tryDealloc
deriving Repr, DecidableEq

def CallKind.str : CallKind → String
  | .alloc => "alloc" | .tryAlloc => "try_alloc" | .dealloc => "dealloc" | .tryDealloc => "try_dealloc"

structure LeafCall where
  leaf : Nat
  kind : CallKind
  req : Req
  ok : Bool          -- allocation served / try_deallocate returned true (plain deallocate: true)
deriving Repr, DecidableEq

def LeafCall.str (c : LeafCall) : String :=
  s!"L{c.leaf}:{c.kind.str}:{c.req.str}:{if c.ok then "1" else "0"}"

/-- tracker callbacks -/
structure TrackEv where
  alloc : Bool
  req : Req
deriving Repr, DecidableEq
def TrackEv.str (t : TrackEv) : String := s!"{if t.alloc then "on_alloc" else "on_dealloc"}:{t.req.str}"

inductive AExpr
  | leaf (i : Nat) (hasArray : Bool)           -- instrumented leaf; without array members the traits fall back to nodes
  | aligned (minAlign : Nat) (a : AExpr)       -- aligned_allocator
  | tracked (a : AExpr)                        -- tracked_allocator
  | fallback (d f : AExpr)                     -- fallback_allocator<Default, Fallback>
  | segregator (maxSize : Nat) (s f : AExpr)   -- binary_segregator<threshold_segregatable<S>, F>
  | storage (a : AExpr)                        -- allocator_storage direct/reference, thread_safe_allocator
  | anyRef (a : AExpr)                         -- type-erased reference storage (`any_allocator_reference`)
deriving Repr, DecidableEq

/-- `traits_detail::allocate_array` & co. when the allocator has no array members: one node of `count * size` -/
def leafReq (hasArray : Bool) (r : Req) : Req :=
  if r.arr && !hasArray then Req.node (mul64 r.count r.size) r.align else r

/-- `threshold_segregatable::use_allocate_node/array` -/
def segUses (maxSize : Nat) (r : Req) : Bool := decide (r.bytes ≤ maxSize)

/-- `reference_storage<any_allocator>`: `allocate_impl(count, size, alignment)` takes the node path for `count == 1` -/
def anyReq (r : Req) : Req := if r.count = 1 then Req.node r.size r.align else Req.array r.count r.size r.align

structure Routed where
  calls : List LeafCall
  ok : Bool
  rest : List Bool         -- unused answers
  track : List TrackEv
deriving Repr

/-- allocation through a composition. `throwing`: `allocate_*` (else the composable `try_allocate_*`).
`answers`: whether each leaf call, in order, is served. -/
def route (throwing : Bool) : AExpr → Req → List Bool → Routed
  | .leaf i ha, r, ans =>
    let ok := ans.headD false
    ⟨[⟨i, if throwing then .alloc else .tryAlloc, leafReq ha r, ok⟩], ok, ans.tail, []⟩
  | .aligned m a, r, ans => route throwing a { r with align := max m r.align } ans
  | .tracked a, r, ans =>
    let x := route throwing a r ans
    { x with track := x.track ++ (if x.ok then [⟨true, r⟩] else []) }
  | .fallback d f, r, ans =>
    let x := route false d r ans
    if x.ok then x
    else
      let y := route throwing f r x.rest
      ⟨x.calls ++ y.calls, y.ok, y.rest, x.track ++ y.track⟩
  | .segregator m s f, r, ans => if segUses m r then route throwing s r ans else route throwing f r ans
  | .storage a, r, ans => route throwing a r ans
  | .anyRef a, r, ans => route throwing a (anyReq r) ans

/-- release through a composition of memory that leaf `owner` handed out. A leaf's `try_deallocate_*` answers `true`
exactly for its own memory (C08). -/
def release (throwing : Bool) : AExpr → Req → (owner : Nat) → List LeafCall × Bool × List TrackEv
  | .leaf i ha, r, owner =>
    if throwing then ([⟨i, .dealloc, leafReq ha r, true⟩], true, [])
    else ([⟨i, .tryDealloc, leafReq ha r, i == owner⟩], i == owner, [])
  | .aligned m a, r, owner => release throwing a { r with align := max m r.align } owner
  | .tracked a, r, owner =>
    let (c, ok, t) := release throwing a r owner
    (c, ok, t ++ (if ok then [⟨false, r⟩] else []))
  | .fallback d f, r, owner =>
    let (c1, ok1, t1) := release false d r owner
    if ok1 then (c1, true, t1)
    else
      let (c2, ok2, t2) := release throwing f r owner
      (c1 ++ c2, ok2, t1 ++ t2)
  | .segregator m s f, r, owner => if segUses m r then release throwing s r owner else release throwing f r owner
  | .storage a, r, owner => release throwing a r owner
  | .anyRef a, r, owner => release throwing a (anyReq r) owner

/-! ### front ends -/

/-- `std_allocator<T>::allocate(n)` / `deallocate(p, n)` -/
def stdReq (n sizeofT alignofT : Nat) : Req := if n = 1 then Req.node sizeofT alignofT else Req.array n sizeofT alignofT

/-- `memory_resource_adapter::do_allocate / do_deallocate` for a wrapped allocator whose `max_node_size()` is `maxNode` -/
def mraReq (bytes align maxNode : Nat) : Req :=
  if bytes ≤ maxNode then Req.node bytes align
  else Req.array (bytes / maxNode + (if bytes % maxNode ≠ 0 then 1 else 0)) maxNode align

/-- the leaf that served a successful routing -/
def Routed.served (x : Routed) : Option LeafCall := x.calls.find? (·.ok)

/-! ### reported maxima of a composition (C18: "the reported maxima are true upper bounds") -/

/-- `max_node_size()`, `max_array_size()`, `max_alignment()` as `allocator_traits` reports them -/
structure Maxima where
  node : Nat
  array : Nat
  align : Nat
deriving Repr, DecidableEq

def Maxima.sup (a b : Maxima) : Maxima := ⟨max a.node b.node, max a.array b.array, max a.align b.align⟩

/-- `detail::max_alignment`: what the traits report for a class without a `max_alignment()` member -/
def defaultMaxAlign : Nat := 16

/-- the figures `allocator_traits<E>` reports for a composition, from the figures `lm i` the leaves' members report.
A leaf without array members has no `max_array_size()`: the traits answer `max_node_size()`. `fallback_allocator` reports the
larger figure of its two parts; wrappers and storages forward; `binary_segregator` reports its fallback's figures and (its member
is spelled `max_alignemnt`) the traits' default alignment. -/
def maxima (lm : Nat → Maxima) : AExpr → Maxima
  | .leaf i ha => ⟨(lm i).node, if ha then (lm i).array else (lm i).node, (lm i).align⟩
  | .aligned _ a => maxima lm a
  | .tracked a => maxima lm a
  | .fallback d f => (maxima lm d).sup (maxima lm f)
  | .segregator _ _ f => ⟨(maxima lm f).node, (maxima lm f).array, defaultMaxAlign⟩
  | .storage a => maxima lm a
  | .anyRef a => maxima lm a

/-- no `binary_segregator` inside -/
def SegFree : AExpr → Prop
  | .leaf _ _ => True
  | .aligned _ a => SegFree a
  | .tracked a => SegFree a
  | .fallback d f => SegFree d ∧ SegFree f
  | .segregator _ _ _ => False
  | .storage a => SegFree a
  | .anyRef a => SegFree a

/-- the figures the harness leaves report (`harness/subj_compose.cpp: LeafBase`) -/
def harnessLeafMaxima (i : Nat) : Maxima := ⟨48 + 16 * i, 200000 + 1000 * i, 4096 / 2 ^ i⟩

def Maxima.str (m : Maxima) : String := s!"node={m.node} array={m.array} align={m.align}"

end MemVerif.Model
