import MemVerif.Gen.Arith
/-!
Bucket selection of `memory_pool_collection` (`detail::free_list_array`), composed from the translated
pieces: `index_from_size`, the clamp guard of `get`, `size_from_index`, and the node-size adjustment
of the list constructors (`node_size > min_element_size ? node_size : min_element_size`; hand-modelled
from `free_list.cpp`, the small list takes the size as is and has `min_element_size = 1`).
-/
namespace MemVerif.Model
open MemVerif.Gen

inductive Policy | identity | log2
deriving DecidableEq, Repr

def Policy.indexFromSize : Policy → BitVec 64 → BitVec 64
  | .identity, s => identityIndexFromSize s
  | .log2, s => log2IndexFromSize s

def Policy.sizeFromIndex : Policy → BitVec 64 → BitVec 64
  | .identity, i => identitySizeFromIndex i
  | .log2, i => log2SizeFromIndex i

/-- `free_list_array::min_size_index` -/
def minSizeIndex (p : Policy) (minElem : BitVec 64) : BitVec 64 := p.indexFromSize minElem

/-- index into the array chosen by `free_list_array::get(node_size)` (before subtracting `min_size_index`) -/
def bucketIndex (p : Policy) (minElem s : BitVec 64) : BitVec 64 :=
  let i := p.indexFromSize s
  if bucketClampCond i (minSizeIndex p minElem) then minSizeIndex p minElem else i

/-- node size a list constructor stores -/
def listNodeSize (minElem ns : BitVec 64) : BitVec 64 := if ns > minElem then ns else minElem

/-- node size of the free list that serves a request of `s` bytes -/
def bucketNodeSize (p : Policy) (minElem s : BitVec 64) : BitVec 64 :=
  listNodeSize minElem (p.sizeFromIndex (bucketIndex p minElem s))

/-- `free_list_array::max_index` (clamped like `get`) -/
def maxIndex (p : Policy) (minElem maxNode : BitVec 64) : BitVec 64 :=
  let i := p.indexFromSize maxNode
  if bucketMaxIndexClampCond i (minSizeIndex p minElem) then minSizeIndex p minElem else i

/-- `no_elements_` computed by the constructor of `free_list_array` -/
def noElements (p : Policy) (minElem maxNode : BitVec 64) : BitVec 64 :=
  maxIndex p minElem maxNode - minSizeIndex p minElem + 1#64

end MemVerif.Model
