import MemVerif.Model.Arena
/-!
Bump stacks: `detail::fixed_memory_stack`, `memory_stack`, `iteration_allocator<N>`, `static_allocator`.
-/
namespace MemVerif.Model
open MemVerif.Gen

/-- translated `stack_allocation_fits` on naturals -/
def fits (fence offset size remaining : Nat) : Bool :=
  stackAllocationFits (BitVec.ofNat 64 fence) (BitVec.ofNat 64 offset) (BitVec.ofNat 64 size) (BitVec.ofNat 64 remaining)

/-- `fixed_memory_stack::allocate(end, size, alignment, fence)`: `some (ptr, newCur)` or `none` (nullptr) -/
def fixedAllocate (cur end_ size align fence : Nat) : Option (Nat × Nat) :=
  if fixedStackNull (BitVec.ofNat 64 cur) then none
  else
    let remaining := sub64 end_ cur
    let offset := alignOff (cur + fence) align
    if fixedStackRejects (BitVec.ofNat 64 fence) (BitVec.ofNat 64 offset) (BitVec.ofNat 64 size) (BitVec.ofNat 64 remaining)
    then none
    else some (cur + fence + offset, cur + fence + offset + size + fence)

/-- `allocate_unchecked(size, offset, fence)` -/
def allocUnchecked (cur size offset fence : Nat) : Nat × Nat :=
  (cur + fence + offset, cur + fence + offset + size + fence)

/-! ### memory_stack -/

structure MemStack where
  arena : Arena
  cur : Nat
  leak : Int := 0
deriving Repr, DecidableEq

def MemStack.blockEnd (s : MemStack) : Option Nat := s.arena.currentBlock.map fun b => b.base + b.size

def MemStack.str (s : MemStack) : String :=
  let e := match s.blockEnd with | some e => toString e | none => "-"
  s!"cur={s.cur} end={e} {s.arena.str} leak={s.leak}"

/-- constructor: `arena_(block_size), stack_(arena_.allocate_block().memory)` -/
def MemStack.create (src : Src) (env : List (Option Nat)) : Option MemStack × Out × List UpEv :=
  let a : Arena := { src := src, isCached := true }
  match a.allocateBlock env with
  | .envMissing => (none, .envMissing, [])
  | .fail _ e ev _ => (none, .throws e, ev)
  | .ok a' b ev _ => (some { arena := a', cur := b.base }, .done, ev)

/-- saturating `needed` as computed in `memory_stack::allocate` -/
def neededSat (fence offset size : Nat) : Nat :=
  let n := add64 (add64 (add64 fence offset) size) fence
  if n < size then two64 - 1 else n

/-- `memory_stack::allocate(size, alignment)` -/
def MemStack.allocate (cfg : Cfg) (s : MemStack) (size align : Nat) (env : List (Option Nat)) :
    MemStack × Out × List UpEv :=
  let fence := cfg.fence
  let offset := alignOff (s.cur + fence) align
  let needGrow : Option Bool :=
    if s.cur = 0 then some true
    else match s.blockEnd with
      | none => none
      | some e => some (!fits fence offset size (sub64 e s.cur))
  match needGrow with
  | none => (s, .crash, [])
  | some false =>
    let (p, c) := allocUnchecked s.cur size offset fence
    ({ s with cur := c }, .ok p, [])
  | some true =>
    match s.arena.allocateBlock env with
    | .envMissing => (s, .envMissing, [])
    | .fail a e ev _ => ({ s with arena := a }, .throws e, ev)
    | .ok a b ev _ =>
      let cur := b.base
      let offset := alignOff (cur + fence) align
      if neededSat fence offset size > b.size then ({ s with arena := a, cur := cur }, .throws .badSize, ev)
      else
        let (p, c) := allocUnchecked cur size offset fence
        ({ s with arena := a, cur := c }, .ok p, ev)

/-- `memory_stack::try_allocate` -/
def MemStack.tryAllocate (cfg : Cfg) (s : MemStack) (size align : Nat) : MemStack × Out :=
  match s.blockEnd with
  | none => (s, .crash)
  | some e =>
    match fixedAllocate s.cur e size align cfg.fence with
    | none => (s, .null)
    | some (p, c) => ({ s with cur := c }, .ok p)

structure Marker where
  index : Nat
  top : Nat
  end_ : Nat
deriving Repr, DecidableEq

def MemStack.top (s : MemStack) : Option Marker :=
  match s.blockEnd with
  | none => none
  | some e => some ⟨s.arena.used.length - 1, s.cur, e⟩

def Marker.lt (a b : Marker) : Bool := if a.index ≠ b.index then a.index < b.index else a.top < b.top
def Marker.le (a b : Marker) : Bool := !(b.lt a)

/-- deallocate `k` blocks of the arena (with the upstream events this causes: none for a cached arena) -/
def Arena.deallocN (cfg : Cfg) (a : Arena) : Nat → Option (Arena × List UpEv)
  | 0 => some (a, [])
  | k + 1 => match a.deallocateBlock cfg with
    | none => none
    | some (a', ev, _) => match Arena.deallocN cfg a' k with
      | none => none
      | some (a'', ev') => some (a'', ev ++ ev')

/-- `memory_stack::unwind(m)` with its three pointer checks -/
def MemStack.unwindEv (cfg : Cfg) (s : MemStack) (m : Marker) : MemStack × Out × List UpEv :=
  match s.top with
  | none => (s, .crash, [])
  | some t =>
    if cfg.assert && !(m.le t) then (s, .handler "assert", [])
    else if cfg.ptrCheck && !(m.index ≤ s.arena.used.length - 1) then (s, .handler "invalid_pointer", [])
    else
      let k := sub64 (s.arena.used.length - 1) m.index
      if k ≠ 0 then
        match s.arena.deallocN cfg k with
        | none => (s, .crash, [])
        | some (a, ev) =>
          let s' := { s with arena := a }
          match s'.blockEnd with
          | none => (s', .crash, ev)
          | some e =>
            if cfg.ptrCheck && m.end_ ≠ e then (s', .handler "invalid_pointer", ev)
            else ({ s' with cur := m.top }, .done, ev)
      else
        if cfg.ptrCheck && !(s.cur ≥ m.top) then (s, .handler "invalid_pointer", [])
        else ({ s with cur := m.top }, .done, [])

def MemStack.unwind (cfg : Cfg) (s : MemStack) (m : Marker) : MemStack × Out :=
  let r := s.unwindEv cfg m
  (r.1, r.2.1)

def MemStack.shrinkToFit (cfg : Cfg) (s : MemStack) : MemStack × List UpEv :=
  let (a, ev, _) := s.arena.shrinkToFit cfg
  ({ s with arena := a }, ev)

def MemStack.capacityLeft (s : MemStack) : Option Nat := s.blockEnd.map fun e => sub64 e s.cur
def MemStack.nextCapacity (s : MemStack) : Nat := s.arena.nextBlockSize

/-- destructor: leak report (if any) then the arena's destructor -/
def MemStack.destroy (cfg : Cfg) (s : MemStack) : MemStack × List UpEv × Option Int :=
  let (a, ev, _) := s.arena.destroy cfg
  ({ s with arena := a, cur := 0, leak := 0 }, ev, if cfg.leak && s.leak ≠ 0 then some s.leak else none)

/-- move construction: the new object gets everything, the source is left empty -/
def MemStack.moveOut (s : MemStack) : MemStack × MemStack :=
  (s, { arena := s.arena.movedFrom, cur := 0, leak := 0 })

def MemStack.onAlloc (cfg : Cfg) (s : MemStack) (n : Nat) : MemStack :=
  if cfg.leak then { s with leak := s.leak + n } else s
def MemStack.onDealloc (cfg : Cfg) (s : MemStack) (n : Nat) : MemStack :=
  if cfg.leak then { s with leak := s.leak - n } else s

/-! ### iteration_allocator<N> -/

structure Iter where
  n : Nat
  src : Src            -- the fixed block allocator
  block : Blk          -- block_ (memory, size) as returned by the source
  tops : List Nat      -- stacks_[i].top()
  cur : Nat
deriving Repr, DecidableEq

def Iter.blockStart (it : Iter) (i : Nat) : Nat := it.block.base + mul64 i it.block.size / it.n
def Iter.blockEnd (it : Iter) (i : Nat) : Nat := it.blockStart (i + 1)

def Iter.str (it : Iter) : String :=
  s!"cur={it.cur} tops={it.tops} block={it.block.str} src={it.src.str}"

def Iter.create (n : Nat) (src : Src) (env : List (Option Nat)) : Option Iter × Out × List UpEv :=
  match src.allocateBlock env with
  | .envMissing => (none, .envMissing, [])
  | .fail _ e ev _ => (none, .throws e, ev)
  | .ok s b ev _ =>
    let it : Iter := { n := n, src := s, block := b, tops := [], cur := 0 }
    (some { it with tops := (List.range n).map it.blockStart }, .done, ev)

def Iter.allocate (cfg : Cfg) (it : Iter) (size align : Nat) : Iter × Out :=
  let top := it.tops.getD it.cur 0
  let fence := cfg.fence
  let offset := alignOff (top + fence) align
  if top = 0 || !fits fence offset size (sub64 (it.blockEnd it.cur) top) then (it, .throws .oofm)
  else
    let (p, c) := allocUnchecked top size offset fence
    ({ it with tops := it.tops.set it.cur c }, .ok p)

def Iter.tryAllocate (cfg : Cfg) (it : Iter) (size align : Nat) : Iter × Out :=
  let top := it.tops.getD it.cur 0
  match fixedAllocate top (it.blockEnd it.cur) size align cfg.fence with
  | none => (it, .null)
  | some (p, c) => ({ it with tops := it.tops.set it.cur c }, .ok p)

def Iter.nextIteration (it : Iter) : Iter :=
  let c := (it.cur + 1) % it.n
  { it with cur := c, tops := it.tops.set c (it.blockStart c) }

/-- `composable_allocator_traits<iteration_allocator>::try_deallocate_node/array`: `block_.contains(ptr)` — memory of
*every* iteration, not only the current one -/
def Iter.contains (it : Iter) (p : Nat) : Bool := decide (it.block.base ≤ p ∧ p < it.block.base + it.block.size)

def Iter.capacityLeft (it : Iter) (i : Nat) : Nat := sub64 (it.blockEnd i) (it.tops.getD i 0)

/-- destructor: returns the block unless moved-from (`cur_ == N`) -/
def Iter.destroy (cfg : Cfg) (it : Iter) : Iter × List UpEv :=
  if it.cur < it.n then
    let (s, ev, _) := it.src.deallocateBlock cfg it.block
    ({ it with src := s, cur := it.n }, ev)
  else (it, [])

def Iter.movedFrom (it : Iter) : Iter :=
  { it with cur := it.n, tops := it.tops.map fun _ => 0, src := it.src.movedFrom }

/-! ### static_allocator -/

structure Static where
  cur : Nat
  end_ : Nat
deriving Repr, DecidableEq

def Static.str (s : Static) : String := s!"cur={s.cur} end={s.end_}"

def Static.allocateNode (cfg : Cfg) (s : Static) (size align : Nat) : Static × Out :=
  match fixedAllocate s.cur s.end_ size align cfg.fence with
  | none => (s, .throws .oofm)
  | some (p, c) => ({ s with cur := c }, .ok p)

def Static.maxNodeSize (s : Static) : Nat := sub64 s.end_ s.cur

end MemVerif.Model
