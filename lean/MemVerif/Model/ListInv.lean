import MemVerif.Model.Lists
/-!
Invariants of the three free lists (used by C01/C04/C16 theorems).
-/
namespace MemVerif.Model

/-- strictly ascending -/
def Ascending (l : List Nat) : Prop := l.Pairwise (· < ·)

/-- Invariant of the ordered list: nodes strictly ascending by address (list order = address order), the two proxy
words are consecutive members of the list object and are not node addresses, `capacity_` counts the nodes, and the
cached insert position `(last_dealloc_prev_, last_dealloc_)` is an adjacent pair of positions (proxies included). -/
structure OrdList.Inv (l : OrdList) : Prop where
  asc : Ascending l.nodes
  proxies : l.E = l.B + 8 ∧ 0 < l.B
  notNode : l.B ∉ l.nodes ∧ l.E ∉ l.nodes
  /-- no node overlaps the two proxy words (nodes are at least 8 bytes and live in other memory) -/
  apart : ∀ a ∈ l.nodes, a + l.ns ≤ l.B ∨ l.E + 8 ≤ a
  nsPos : 8 ≤ l.ns
  nodePos : ∀ a ∈ l.nodes, 0 < a
  cap : l.cap = l.nodes.length
  cursor : ∃ i, i ≤ l.nodes.length ∧ l.posOf l.ldp = some i ∧ l.posOf l.ld = some (i + 1)

/-- sorted insertion of an address -/
def insertAsc (m : Nat) : List Nat → List Nat
  | [] => [m]
  | x :: xs => if m < x then m :: x :: xs else x :: insertAsc m xs

end MemVerif.Model
