import MemVerif.Gen.StorageMembers
/-!
Lock discipline of `allocator_storage<StoragePolicy, Mutex>` as a transition system (C13).
A thread's program is a list of member calls; a member call expands — according to the *generated* table
`Gen.storageMembers` — into micro steps `lock; access; unlock` (a `std::lock_guard` around the forwarded operation),
a bare `access` (a forwarding member that does not lock), or `lock; access*; unlock` for uses of the `lock()` proxy.
The mutex is the usual owner automaton: `lock` is enabled only while nobody owns it.
-/
namespace MemVerif.Model
open MemVerif.Gen

inductive MStep | lock | access | unlock
deriving Repr, DecidableEq

/-- a call in a thread's program: a forwarding member (index into the table), or `k` operations through one `lock()` proxy -/
inductive Call
  | member (m : StorageMember)
  | viaProxy (k : Nat)
deriving Repr, DecidableEq

def memberScript (m : StorageMember) : List MStep :=
  if m.reaches then (if m.locksFirst then [.lock, .access, .unlock] else [.access]) else []

def Call.script : Call → List MStep
  | .member m => memberScript m
  | .viaProxy k =>
    -- `locked_allocator`: constructor locks, every `->` is an access, destructor unlocks (generated flags)
    (if lockedProxyCtorLocks then [.lock] else []) ++ List.replicate k .access ++
      (if lockedProxyDtorUnlocks then [.unlock] else [])

def programScript (p : List Call) : List MStep := p.flatMap Call.script

structure Thread where
  script : List MStep
  holding : Bool := false
deriving Repr, DecidableEq

structure LockSys where
  threads : List Thread
  owner : Option Nat := none
  /-- accesses executed so far: (thread, did that thread own the mutex?) -/
  log : List (Nat × Bool) := []
deriving Repr

def LockSys.init (programs : List (List Call)) : LockSys :=
  { threads := programs.map fun p => { script := programScript p } }

/-- one scheduling decision: thread `t` executes its next micro step if it is enabled -/
def LockSys.step (s : LockSys) (t : Nat) : LockSys :=
  match s.threads[t]? with
  | none => s
  | some th =>
    match th.script with
    | [] => s
    | .lock :: rest =>
      if s.owner = none then { s with threads := s.threads.set t { script := rest, holding := true }, owner := some t }
      else s     -- blocked
    | .access :: rest =>
      { s with threads := s.threads.set t { th with script := rest }, log := (t, s.owner == some t) :: s.log }
    | .unlock :: rest =>
      { s with threads := s.threads.set t { script := rest, holding := false },
               owner := if s.owner = some t then none else s.owner }

def LockSys.run (s : LockSys) : List Nat → LockSys
  | [] => s
  | t :: ts => LockSys.run (s.step t) ts

/-! ### which storages get a mutex at all (`detail::mutex_for`, `is_thread_safe_allocator`, `allocator_traits::is_stateful`) -/

/-- `allocator_traits<A>::is_stateful`: the allocator's own typedef if it has one, otherwise "not an empty class" -/
def isStateful (declared : Option Bool) (empty : Bool) : Bool := declared.getD (!empty)

/-- `is_thread_safe_allocator<A>` (unspecialised): exactly the stateless allocators -/
def isThreadSafe (declared : Option Bool) (empty : Bool) : Bool := !isStateful declared empty

/-- `detail::mutex_for<A, Mutex>` is `Mutex` (and not `no_mutex`) unless the allocator is thread safe -/
def takesMutex (declared : Option Bool) (empty : Bool) : Bool := !isThreadSafe declared empty

end MemVerif.Model
