import MemVerif.Model.Basic
/-!
The three free lists of `src/detail/free_list.cpp` and `src/detail/small_free_list.cpp`, at the level of the
algorithm as written (L1): list *order*, the cached insert position of the ordered list with its two proxy
nodes as **addresses**, the chunk ring of the small list with its proxy and the two chunk cursors.
The intrusive pointer encodings themselves (next pointers, xor links, index bytes) are not modelled: a list is the
sequence of node addresses the links describe (the harness recovers that sequence by walking the real links).
-/
namespace MemVerif.Model
open MemVerif.Gen

/-- nodes of a block of `k` nodes starting at `mem` -/
def blockNodes (mem ns : Nat) : Nat → List Nat
  | 0 => []
  | k + 1 => mem :: blockNodes (mem + ns) ns k

/-- `ceil(n / ns)` as computed by the repaired `deallocate(ptr, n)` -/
def ceilNodes (n ns : Nat) : Nat := n / ns + (if n % ns ≠ 0 then 1 else 0)

/-- node size a list constructor stores (`node_size > min_element_size ? node_size : min_element_size`) -/
def intrusiveNodeSize (ns : Nat) : Nat := if ns > C.free_min_element_size.toNat then ns else C.free_min_element_size.toNat

/-! ### array search shared by both intrusive lists (`list_search_array` / `xor_list_search_array`) -/

/-- Scan `l` (list order) for the first run of address-consecutive nodes (`next = last + ns`) whose byte size
reaches `need`. Returns `(start index, length)`. Mirrors the loop: a run is extended node by node and accepted as
soon as `bytes_so_far >= bytes_needed` *after an extension* (so a run has at least two nodes). -/
def searchArrayGo (ns need : Nat) : List Nat → (start len last : Nat) → (idx : Nat) → Option (Nat × Nat)
  | [], _, _, _, _ => none
  | x :: xs, start, len, last, idx =>
    if last + ns ≠ x then searchArrayGo ns need xs idx 1 x (idx + 1)
    else if (len + 1) * ns ≥ need then some (start, len + 1)
    else searchArrayGo ns need xs start (len + 1) x (idx + 1)

def searchArray (ns need : Nat) : List Nat → Option (Nat × Nat)
  | [] => none
  | x :: xs => searchArrayGo ns need xs 0 1 x 1

/-! ### `free_memory_list` (unordered, LIFO) -/

structure FreeList where
  ns : Nat
  nodes : List Nat := []     -- list order, head first
  cap : Nat := 0
deriving Repr, DecidableEq

def FreeList.str (l : FreeList) : String := s!"ns={l.ns} cap={l.cap} nodes={natListStr l.nodes}"

def FreeList.new (nodeSize : Nat) : FreeList := { ns := intrusiveNodeSize nodeSize }

/-- `insert_impl(mem, size)`: `none` = undefined behaviour (`no_nodes == 0`) -/
def FreeList.insertImpl (l : FreeList) (mem size : Nat) : Option FreeList :=
  let k := size / l.ns
  if k = 0 then none else some { l with nodes := blockNodes mem l.ns k ++ l.nodes, cap := l.cap + k }

def FreeList.insert := @FreeList.insertImpl

/-- `allocate()`; precondition `!empty()` -/
def FreeList.allocate (l : FreeList) : Option (FreeList × Nat) :=
  match l.nodes with
  | [] => none
  | x :: xs => some ({ l with nodes := xs, cap := l.cap - 1 }, x)

/-- `allocate(n)`: `some (l, none)` = nullptr (no run) -/
def FreeList.allocateBytes (l : FreeList) (n : Nat) : Option (FreeList × Option Nat) :=
  if n ≤ l.ns then (l.allocate).map fun (l', x) => (l', some x)
  else match l.nodes with
    | [] => none
    | _ =>
      match searchArray l.ns n l.nodes with
      | none => some (l, none)
      | some (start, len) =>
        some ({ l with nodes := l.nodes.take start ++ l.nodes.drop (start + len), cap := l.cap - len },
              l.nodes[start]?)

def FreeList.deallocate (l : FreeList) (p : Nat) : FreeList :=
  { l with nodes := p :: l.nodes, cap := l.cap + 1 }

def FreeList.deallocateBytes (l : FreeList) (p n : Nat) : Option FreeList :=
  if n ≤ l.ns then some (l.deallocate p) else l.insertImpl p (ceilNodes n l.ns * l.ns)

def FreeList.empty (l : FreeList) : Bool := l.nodes.isEmpty
def FreeList.usableSize (l : FreeList) (size : Nat) : Nat :=
  (freeListUsableSize (BitVec.ofNat 64 l.ns) (BitVec.ofNat 64 size)).toNat

/-! ### `ordered_free_memory_list` -/

/-- outcome of `find_pos`: a pair of *positions* (0 = begin proxy, `n+1` = end proxy) -/
inductive PosOut
  | pos (prev next : Nat)
  | report          -- double-deallocation check fired
  | unreachable     -- FOONATHAN_MEMORY_UNREACHABLE
  | crash           -- walked off the list (null dereference)
deriving Repr, DecidableEq

structure OrdList where
  ns : Nat
  B : Nat                 -- address of the begin proxy (inside the list object)
  E : Nat                 -- address of the end proxy
  nodes : List Nat := []  -- list order (first .. last)
  cap : Nat := 0
  ld : Nat                -- last_dealloc_ (an address; may be `E`)
  ldp : Nat               -- last_dealloc_prev_ (an address; may be `B`)
deriving Repr, DecidableEq

def OrdList.new (nodeSize B E : Nat) : OrdList := { ns := intrusiveNodeSize nodeSize, B := B, E := E, ld := E, ldp := B }

/-- address at a position -/
def OrdList.addr (l : OrdList) (i : Nat) : Nat :=
  if i = 0 then l.B else if i = l.nodes.length + 1 then l.E else l.nodes.getD (i - 1) 0

/-- position of an address (proxies included) -/
def OrdList.posOf (l : OrdList) (a : Nat) : Option Nat :=
  if a = l.B then some 0
  else if a = l.E then some (l.nodes.length + 1)
  else match l.nodes.idxOf? a with
    | some i => some (i + 1)
    | none => none

def ptrStr (l : OrdList) (a : Nat) : String := if a = l.B then "B" else if a = l.E then "E" else toString a

def OrdList.str (l : OrdList) : String :=
  s!"ns={l.ns} cap={l.cap} nodes={natListStr l.nodes} ldp={ptrStr l l.ldp} ld={ptrStr l l.ld}"

/-- `xor_list_iter_next` on positions of a list with `n` nodes (0 and `n+1` are the proxies): step from `cur`
away from `prev`; `none` = nullptr -/
def iterNext (n : Nat) (cur prev : Option Nat) : Option (Option Nat × Option Nat) :=
  match cur with
  | none => none            -- get_int(nullptr)
  | some c =>
    -- neighbours of position c: left / right (none beyond the proxies)
    let left : Option Nat := if c = 0 then none else some (c - 1)
    let right : Option Nat := if c = n + 1 then none else some (c + 1)
    let next := if prev = left then right else if prev = right then left else
      -- xor with a pointer that is not a neighbour gives garbage: treat as crash
      none
    if prev = left ∨ prev = right then some (next, some c) else none

/-- address at a position, with the node sequence given as an array (constant-time lookup for the walk) -/
def OrdList.addrA (l : OrdList) (arr : Array Nat) (i : Nat) : Nat :=
  if i = 0 then l.B else if i = arr.size + 1 then l.E else arr.getD (i - 1) 0

def addrO (l : OrdList) (arr : Array Nat) : Option Nat → Nat
  | none => 0
  | some i => l.addrA arr i

/-- `find_pos_interval` (two-cursor walk) -/
def OrdList.findPosInterval (l : OrdList) (arr : Array Nat) (dbl : Bool) (m firstPrev first last lastNext : Nat) : PosOut :=
  let rec go (fuel : Nat) (cf pf cb pb : Option Nat) : PosOut :=
    match fuel with
    | 0 => .crash
    | fuel + 1 =>
      if addrO l arr cf > m then (match pf, cf with | some a, some b => .pos a b | _, _ => .crash)
      else if addrO l arr cb < m then (match cb, pb with | some a, some b => .pos a b | _, _ => .crash)
      else if dbl && (addrO l arr cf == m || addrO l arr cb == m) then .report
      else match iterNext arr.size cf pf, iterNext arr.size cb pb with
        | some (cf', pf'), some (cb', pb') =>
          if addrO l arr pf' < addrO l arr pb' then go fuel cf' pf' cb' pb'
          else if dbl then .report else .pos 0 0      -- `{nullptr, nullptr}`: reported as position (0,0) = garbage
        | _, _ => .crash
  go (arr.size + 3) (some first) (some firstPrev) (some last) (some lastNext)

/-- `find_pos` (with the D14 repair: the end proxy is recognised before its address is compared) -/
def OrdList.findPos (l : OrdList) (dbl : Bool) (m : Nat) : PosOut :=
  let arr := l.nodes.toArray
  let n := arr.size
  let first := if n = 0 then n + 1 else 1     -- xor_list_get_other(begin, nullptr)
  let last := if n = 0 then 0 else n
  match l.posOf l.ld, l.posOf l.ldp with
  | some ld, some ldp =>
    if l.addrA arr first > m then .pos 0 first
    else if l.addrA arr last < m then .pos last (n + 1)
    else if l.ldp < m && m < l.ld then .pos ldp ld
    else if ld = n + 1 || m < l.ld then l.findPosInterval arr dbl m 0 first ldp ld
    else if m > l.ld then l.findPosInterval arr dbl m ldp ld last (n + 1)
    else .unreachable
  | _, _ => .crash

/-- With assertions on (`FOONATHAN_MEMORY_DEBUG_ASSERT`): does `find_pos` enter `find_pos_interval` with the asserted
precondition `less(first, memory) && less(memory, last)` violated? The assertion then stops the program before the
search. (Same branch selection as `findPos`.) -/
def OrdList.intervalAssertFails (l : OrdList) (m : Nat) : Bool :=
  let n := l.nodes.length
  let first := if n = 0 then n + 1 else 1
  let last := if n = 0 then 0 else n
  match l.posOf l.ld with
  | some ld =>
    if l.addr first > m then false
    else if l.addr last < m then false
    else if l.ldp < m && m < l.ld then false
    else if ld = n + 1 || m < l.ld then !(l.addr first < m && m < l.ldp)
    else if m > l.ld then !(l.ld < m && m < l.addr last)
    else false
  | none => false

inductive ListRes (α : Type)
  | ok (l : α)
  | handler (kind : String)
  | crash
deriving Repr, DecidableEq

/-- insert `newNodes` after position `prev` (0 = at the front) -/
def OrdList.spliceAt (l : OrdList) (prev : Nat) (newNodes : List Nat) : List Nat :=
  l.nodes.take prev ++ newNodes ++ l.nodes.drop prev

/-- `insert_impl(mem, size)`; returns the new list and `p.prev` as an address -/
def OrdList.insertImpl (cfg : Cfg) (l : OrdList) (mem size : Nat) : ListRes (OrdList × Nat) :=
  let k := size / l.ns
  if k = 0 then .crash
  else if cfg.assert && l.intervalAssertFails mem then .handler "assert"
  else match l.findPos cfg.dblDealloc mem with
    | .pos prev next =>
      if next ≠ prev + 1 then .crash
      else
        let prevAddr := l.addr prev
        let l' := { l with nodes := l.spliceAt prev (blockNodes mem l.ns k), cap := l.cap + k,
                           ld := if prevAddr = l.ldp then mem else l.ld }
        .ok (l', prevAddr)
    | .report => .handler "invalid_pointer"
    | .unreachable => .handler "unreachable"
    | .crash => .crash

def OrdList.insert (cfg : Cfg) (l : OrdList) (mem size : Nat) : ListRes OrdList :=
  match l.insertImpl cfg mem size with
  | .ok (l', _) => .ok l'
  | .handler k => .handler k
  | .crash => .crash

/-- `allocate()` -/
def OrdList.allocate (l : OrdList) : Option (OrdList × Nat) :=
  match l.nodes with
  | [] => none
  | node :: rest =>
    let next := match rest with | [] => l.E | x :: _ => x
    let l' := { l with nodes := rest, cap := l.cap - 1 }
    let l'' := if node = l.ld then { l' with ld := next }
               else if node = l.ldp then { l' with ldp := l.B } else l'
    some (l'', node)

/-- `allocate(n)` -/
def OrdList.allocateBytes (l : OrdList) (n : Nat) : Option (OrdList × Option Nat) :=
  if n ≤ l.ns then (l.allocate).map fun (l', x) => (l', some x)
  else match l.nodes with
    | [] => none
    | _ =>
      match searchArray l.ns n l.nodes with
      | none => some (l, none)
      | some (start, len) =>
        let first := l.nodes.getD start 0
        let last := l.nodes.getD (start + len - 1) 0
        let prevA := l.addr start                 -- position `start` is the node before index `start`
        let nextA := l.addr (start + len + 1)
        let l' := { l with nodes := l.nodes.take start ++ l.nodes.drop (start + len), cap := l.cap - len }
        let l'' := if first ≤ l.ld ∧ l.ld ≤ last then { l' with ld := nextA, ldp := prevA }
                   else if l.ldp = last then { l' with ldp := prevA } else l'
        some (l'', some first)

/-- `deallocate(ptr)` -/
def OrdList.deallocate (cfg : Cfg) (l : OrdList) (p : Nat) : ListRes OrdList :=
  if cfg.assert && l.intervalAssertFails p then .handler "assert" else
  match l.findPos cfg.dblDealloc p with
  | .pos prev next =>
    if next ≠ prev + 1 then .crash
    else .ok { l with nodes := l.spliceAt prev [p], cap := l.cap + 1, ld := p, ldp := l.addr prev }
  | .report => .handler "invalid_pointer"
  | .unreachable => .handler "unreachable"
  | .crash => .crash

/-- `deallocate(ptr, n)` -/
def OrdList.deallocateBytes (cfg : Cfg) (l : OrdList) (p n : Nat) : ListRes OrdList :=
  if n ≤ l.ns then l.deallocate cfg p
  else match l.insertImpl cfg p (ceilNodes n l.ns * l.ns) with
    | .ok (l', prevA) => .ok { l' with ld := p, ldp := prevA }
    | .handler k => .handler k
    | .crash => .crash

def OrdList.empty (l : OrdList) : Bool := l.cap == 0
def OrdList.usableSize (l : OrdList) (size : Nat) : Nat :=
  (orderedListUsableSize (BitVec.ofNat 64 l.ns) (BitVec.ofNat 64 size)).toNat

/-- move construction into a list object whose proxies live at `B'`, `E'`: cursors are reset -/
def OrdList.moveTo (l : OrdList) (B' E' : Nat) : OrdList × OrdList :=
  let first := match l.nodes with | [] => E' | x :: _ => x
  ({ l with B := B', E := E', ldp := B', ld := first },
   { l with nodes := [], cap := 0 })   -- note: the source keeps its cursors (they are not reset by the move constructor)

/-! ### `small_free_memory_list` -/

structure Chunk where
  base : Nat            -- address of the chunk header
  noNodes : Nat
  capacity : Nat
  free : List Nat       -- free node indices in chain order (head = `first_free`)
deriving Repr, DecidableEq

def Chunk.str (c : Chunk) : String := s!"({c.base} n={c.noNodes} cap={c.capacity} free={natListStr c.free})"

structure SmallList where
  ns : Nat
  P : Nat                       -- address of the proxy `base_` (inside the list object)
  chunks : List Chunk := []     -- ring order starting after the proxy (= ascending addresses)
  cap : Nat := 0
  allocChunk : Nat              -- address of a chunk header, or `P`
  deallocChunk : Nat
deriving Repr, DecidableEq

def SmallList.new (nodeSize P : Nat) : SmallList := { ns := nodeSize, P := P, allocChunk := P, deallocChunk := P }

def chunkOff : Nat := C.chunk_memory_offset.toNat
def chunkMax : Nat := C.chunk_max_nodes.toNat

def cptr (l : SmallList) (a : Nat) : String := if a = l.P then "P" else toString a

def SmallList.str (l : SmallList) : String :=
  s!"ns={l.ns} cap={l.cap} chunks=[{",".intercalate (l.chunks.map Chunk.str)}] alloc={cptr l l.allocChunk} dealloc={cptr l l.deallocChunk}"

/-- a new chunk over `total` bytes at `base` (`chunk::chunk`): node count is truncated to `unsigned char` -/
def Chunk.make (base total ns : Nat) : Chunk :=
  let n := ((total - chunkOff) / ns) % 256
  { base := base, noNodes := n, capacity := n, free := List.range n }

/-- chunks built by `insert(mem, size)`: `(chunks, new_nodes)` -/
def smallInsertChunks (ns mem size : Nat) : List Chunk × Nat :=
  let total := chunkOff + ns * chunkMax
  let buf := alignOff total C.alignof_chunk.toNat
  let stride := total + buf
  let k := size / stride
  let rem := size % stride
  let full := (List.range k).map fun i => Chunk.make (mem + i * stride) total ns
  if rem ≥ chunkOff + ns then
    let c := Chunk.make (mem + k * stride) rem ns
    (full ++ [c], k * chunkMax + c.noNodes)
  else (full, k * chunkMax)

/-- `insert_chunks`: keeps the ring ordered by address (insert before the first chunk with a larger address) -/
def insertSorted (cs : List Chunk) (new : List Chunk) : List Chunk :=
  match new with
  | [] => cs
  | b :: _ =>
    let before := cs.takeWhile fun c => c.base < b.base
    before ++ new ++ cs.drop before.length

/-- `insert(mem, size)`; `none` = undefined behaviour (no chunk fits: null dereference) -/
def SmallList.insert (l : SmallList) (mem size : Nat) : Option SmallList :=
  let (cs, n) := smallInsertChunks l.ns mem size
  if cs.isEmpty then none
  else some { l with chunks := insertSorted l.chunks cs, cap := l.cap + n }

/-- ring position of a chunk address (0 = proxy) -/
def SmallList.posOf (l : SmallList) (a : Nat) : Option Nat :=
  if a = l.P then some 0 else (l.chunks.findIdx? fun c => c.base = a).map (· + 1)

/-- capacity at a ring position (the proxy has capacity 0) -/
def SmallList.capAt (l : SmallList) (i : Nat) : Nat :=
  if i = 0 then 0 else (l.chunks[i - 1]?.map Chunk.capacity).getD 0

def SmallList.addrAt (l : SmallList) (i : Nat) : Nat :=
  if i = 0 then l.P else (l.chunks[i - 1]?.map Chunk.base).getD 0

/-- `find_chunk_impl(n)`: ring position of the chunk `allocate` will use -/
def SmallList.findChunkN (l : SmallList) (n : Nat) : Option Nat :=
  let m := l.chunks.length + 1
  match l.posOf l.allocChunk, l.posOf l.deallocChunk with
  | some a, some d =>
    if l.capAt a ≥ n then some a
    else if l.capAt d ≥ n then some d
    else
      let rec go (fuel : Nat) (f b : Nat) : Option Nat :=
        match fuel with
        | 0 => none
        | fuel + 1 =>
          if l.capAt f ≥ n then some f
          else if l.capAt b ≥ n then some b
          else go fuel ((f + 1) % m) ((b + m - 1) % m)
      go (m + 1) ((a + 1) % m) ((a + m - 1) % m)
  | _, _ => none

/-- `allocate()`; precondition `!empty()` -/
def SmallList.allocate (l : SmallList) : Option (SmallList × Nat) :=
  match l.findChunkN 1 with
  | none => none
  | some 0 => none
  | some (i + 1) =>
    match l.chunks[i]? with
    | none => none
    | some c =>
      match c.free with
      | [] => none
      | idx :: rest =>
        let c' := { c with capacity := c.capacity - 1, free := rest }
        some ({ l with chunks := l.chunks.set i c', cap := l.cap - 1, allocChunk := c.base },
              c.base + chunkOff + idx * l.ns)

/-- does the node area of ring position `i` contain address `p` (`chunk::from`; the proxy has no nodes) -/
def SmallList.fromAt (l : SmallList) (i p : Nat) : Bool :=
  if i = 0 then false
  else match l.chunks[i - 1]? with
    | none => false
    | some c => decide (c.base + chunkOff ≤ p ∧ p < c.base + chunkOff + c.noNodes * l.ns)

/-- result of the chunk search for a pointer -/
inductive ChunkSearch
  | found (i : Nat)     -- ring position of the chunk whose node area contains the pointer
  | notFound            -- `nullptr`
  | unreachable         -- `FOONATHAN_MEMORY_UNREACHABLE`
  | hang                -- the loop would not terminate (fuel exhausted; `C16_small_search_terminates`: never happens)
deriving Repr, DecidableEq

/-- `find_chunk_impl(node, first, last)`: both-ends search over ring positions. The loop continues while
`!greater(first, last) && first != &base_ && last != &base_` (position 0 is the proxy `base_`). -/
def SmallList.findChunkRange (l : SmallList) (p : Nat) (first last : Nat) : ChunkSearch :=
  let m := l.chunks.length + 1
  let rec go (fuel : Nat) (f b : Nat) : ChunkSearch :=
    match fuel with
    | 0 => .hang
    | fuel + 1 =>
      if l.fromAt f p then .found f
      else if l.fromAt b p then .found b
      else
        let f' := (f + 1) % m
        let b' := (b + m - 1) % m
        if l.addrAt f' > l.addrAt b' || f' == 0 || b' == 0 then .notFound else go fuel f' b'
  go (m + 2) first last

/-- `find_chunk_impl(node)` -/
def SmallList.findChunk (l : SmallList) (p : Nat) : ChunkSearch :=
  let m := l.chunks.length + 1
  match l.posOf l.deallocChunk, l.posOf l.allocChunk with
  | some d, some a =>
    if l.fromAt d p then .found d
    else if l.fromAt a p then .found a
    else if l.addrAt d < p then l.findChunkRange p ((d + 1) % m) ((0 + m - 1) % m)
    else if l.addrAt d > p then l.findChunkRange p (1 % m) ((d + m - 1) % m)
    else .unreachable
  | _, _ => .unreachable

/-- the state after a successful `deallocate` of `p` into chunk `c` at ring index `i + 1` -/
def SmallList.deallocResult (l : SmallList) (i : Nat) (c : Chunk) (p : Nat) : SmallList :=
  { l with chunks := l.chunks.set i
             { c with capacity := c.capacity + 1, free := (p - (c.base + chunkOff)) / l.ns :: c.free },
           cap := l.cap + 1, deallocChunk := c.base }

/-- `deallocate(node)` with its three checks; the cursor `dealloc_chunk_` is only updated after they passed -/
def SmallList.deallocate (cfg : Cfg) (l : SmallList) (p : Nat) : ListRes SmallList :=
  match l.findChunk p with
  | .unreachable => .handler "unreachable"
  | .hang => .handler "hang"
  | .notFound =>
    -- chunk = nullptr; the pointer check reports, otherwise null dereference
    if cfg.ptrCheck then .handler "invalid_pointer" else .crash
  | .found 0 => .crash
  | .found (i + 1) =>
    match l.chunks[i]? with
    | none => .crash
    | some c =>
      let off := p - (c.base + chunkOff)
      if cfg.ptrCheck && off % l.ns ≠ 0 then .handler "invalid_pointer"
      else
        let idx := off / l.ns
        if cfg.ptrCheck && cfg.dblDealloc && c.free.contains idx then .handler "invalid_pointer"
        else .ok (l.deallocResult i c p)

def SmallList.empty (l : SmallList) : Bool := l.cap == 0
def SmallList.usableSize (l : SmallList) (size : Nat) : Nat :=
  (smallListUsableSize (BitVec.ofNat 64 l.ns) (BitVec.ofNat 64 size)).toNat

end MemVerif.Model
