import MemVerif.Model.Lists
/-!
L2 — the unordered free list (`free_memory_list`, `src/detail/free_list.cpp`) **with its pointer encoding**: memory is
a map from addresses to the pointer-sized word stored there (`list_get_next` / `list_set_next` read and write the first
word of a node), the list object holds `first_` and `capacity_`. Each member function is written as the code is: the
loops of `insert_impl` and `list_search_array` as recursions over the node count / a fuel.

`Lemmas/HeapList.lean` proves that these functions refine the sequence-level model `FreeList` (L1, `Model/Lists.lean`)
under the representation predicate `Chain`, and that they write only into the first word of free nodes.
-/
namespace MemVerif.Model

/-- memory: the word stored at an address (`0` = `nullptr`) -/
abbrev Heap := Nat → Nat

def Heap.set (h : Heap) (a v : Nat) : Heap := fun x => if x = a then v else h x

/-- `free_memory_list` with its memory -/
structure HList where
  ns : Nat
  first : Nat := 0
  cap : Nat := 0
  heap : Heap

/-- the loop of `insert_impl`: `list_set_next(cur, cur + node_size)` for the first `k` nodes from `cur` -/
def linkRun (h : Heap) (cur ns : Nat) : Nat → Heap
  | 0 => h
  | k + 1 => linkRun (h.set cur (cur + ns)) (cur + ns) ns k

/-- `insert_impl(mem, size)`: `none` = undefined behaviour (`no_nodes == 0`) -/
def HList.insertImpl (l : HList) (mem size : Nat) : Option HList :=
  let k := size / l.ns
  if k = 0 then none
  else
    let h1 := linkRun l.heap mem l.ns (k - 1)
    let last := mem + (k - 1) * l.ns
    some { l with heap := h1.set last l.first, first := mem, cap := l.cap + k }

/-- `allocate()`; precondition `!empty()` (`first_ != nullptr`) -/
def HList.allocate (l : HList) : Option (HList × Nat) :=
  if l.first = 0 then none
  else some ({ l with first := l.heap l.first, cap := l.cap - 1 }, l.first)

/-- `deallocate(ptr)` -/
def HList.deallocate (l : HList) (p : Nat) : HList :=
  { l with heap := l.heap.set p l.first, first := p, cap := l.cap + 1 }

/-- the interval `list_search_array` returns -/
structure Interval where
  prev : Nat
  first : Nat
  last : Nat
  next : Nat
deriving Repr, DecidableEq

/-- the `while (i.next)` loop of `list_search_array`; `fuel` bounds the number of iterations (the list length) -/
def searchLoop (h : Heap) (ns need : Nat) : Nat → Interval → Nat → Option Interval
  | 0, _, _ => none
  | fuel + 1, i, sofar =>
    if i.next = 0 then none
    else if i.last + ns ≠ i.next then
      searchLoop h ns need fuel ⟨i.last, i.next, i.next, h i.next⟩ ns
    else
      let i' : Interval := ⟨i.prev, i.first, i.next, h i.next⟩
      if sofar + ns ≥ need then some i' else searchLoop h ns need fuel i' (sofar + ns)

/-- `list_search_array(first, bytes_needed, node_size)` on a list of `fuel` nodes -/
def listSearchArray (h : Heap) (first need ns fuel : Nat) : Option Interval :=
  searchLoop h ns need fuel ⟨0, first, first, h first⟩ ns

/-- `allocate(n)`: `some (l, none)` = `nullptr`; `len` is the list length (only used as the loop bound) -/
def HList.allocateBytes (l : HList) (n len : Nat) : Option (HList × Option Nat) :=
  if n ≤ l.ns then (l.allocate).map fun (l', x) => (l', some x)
  else if l.first = 0 then none
  else
    match listSearchArray l.heap l.first n l.ns len with
    | none => some (l, none)
    | some i =>
      let cnt := (i.last + l.ns - i.first) / l.ns
      let l' := if i.prev ≠ 0 then { l with heap := l.heap.set i.prev i.next } else { l with first := i.next }
      some ({ l' with cap := l.cap - cnt }, some i.first)

/-- `deallocate(ptr, n)` -/
def HList.deallocateBytes (l : HList) (p n : Nat) : Option HList :=
  if n ≤ l.ns then some (l.deallocate p) else l.insertImpl p (ceilNodes n l.ns * l.ns)

end MemVerif.Model
