import MemVerif.Model.Lists
import MemVerif.Model.Arena
import MemVerif.Model.Stack
import MemVerif.Model.Buckets
/-!
`memory_pool<PoolType, Src>` and `memory_pool_collection<PoolType, Buckets, Src>`: an uncached arena plus one free
list (pool) or a bump stack over the current block plus an array of free lists (collection).
-/
namespace MemVerif.Model
open MemVerif.Gen

/-- one of the three free-list implementations behind a uniform interface -/
inductive AnyList
  | free (l : FreeList)
  | ord (l : OrdList)
  | small (l : SmallList)
deriving Repr, DecidableEq

namespace AnyList

def str : AnyList → String
  | .free l => "free " ++ l.str
  | .ord l => "ord " ++ l.str
  | .small l => "small " ++ l.str

def nodeSize : AnyList → Nat
  | .free l => l.ns | .ord l => l.ns | .small l => l.ns
def capacity : AnyList → Nat
  | .free l => l.cap | .ord l => l.cap | .small l => l.cap
def empty : AnyList → Bool
  | .free l => l.empty | .ord l => l.empty | .small l => l.empty
def usableSize : AnyList → Nat → Nat
  | .free l, s => l.usableSize s | .ord l, s => l.usableSize s | .small l, s => l.usableSize s
/-- `alignment()` = `alignment_for(node_size)` -/
def alignment (l : AnyList) : Nat := (alignmentFor (BitVec.ofNat 64 l.nodeSize)).toNat

def insert (cfg : Cfg) : AnyList → Nat → Nat → ListRes AnyList
  | .free l, m, s => match l.insert m s with | some l' => .ok (.free l') | none => .crash
  | .ord l, m, s => match l.insert cfg m s with
    | .ok l' => .ok (.ord l') | .handler k => .handler k | .crash => .crash
  | .small l, m, s => match l.insert m s with | some l' => .ok (.small l') | none => .crash

/-- `allocate()` -/
def allocate : AnyList → Option (AnyList × Nat)
  | .free l => l.allocate.map fun (l', p) => (.free l', p)
  | .ord l => l.allocate.map fun (l', p) => (.ord l', p)
  | .small l => l.allocate.map fun (l', p) => (.small l', p)

/-- `allocate(n)`; the small list always answers nullptr -/
def allocateBytes : AnyList → Nat → Option (AnyList × Option Nat)
  | .free l, n => (l.allocateBytes n).map fun (l', p) => (.free l', p)
  | .ord l, n => (l.allocateBytes n).map fun (l', p) => (.ord l', p)
  | .small l, _ => some (.small l, none)

def deallocate (cfg : Cfg) : AnyList → Nat → ListRes AnyList
  | .free l, p => .ok (.free (l.deallocate p))
  | .ord l, p => match l.deallocate cfg p with
    | .ok l' => .ok (.ord l') | .handler k => .handler k | .crash => .crash
  | .small l, p => match l.deallocate cfg p with
    | .ok l' => .ok (.small l') | .handler k => .handler k | .crash => .crash

/-- `deallocate(ptr, n)`; the small list forwards to `insert` -/
def deallocateBytes (cfg : Cfg) : AnyList → Nat → Nat → ListRes AnyList
  | .free l, p, n => match l.deallocateBytes p n with | some l' => .ok (.free l') | none => .crash
  | .ord l, p, n => match l.deallocateBytes cfg p n with
    | .ok l' => .ok (.ord l') | .handler k => .handler k | .crash => .crash
  | .small l, p, n => match l.insert p n with | some l' => .ok (.small l') | none => .crash

end AnyList

/-! ### memory_pool -/

structure Pool where
  arena : Arena            -- uncached
  list : AnyList
  arrays : Bool            -- `pool_type::value`
  leak : Int := 0
deriving Repr, DecidableEq

def Pool.str (p : Pool) : String := s!"{p.list.str} {p.arena.str} leak={p.leak}"

def Pool.nodeSize (p : Pool) : Nat := p.list.nodeSize
def Pool.capacityLeft (p : Pool) : Nat := mul64 p.list.capacity p.nodeSize
def Pool.nextCapacity (p : Pool) : Nat := p.list.usableSize p.arena.nextBlockSize

/-- result of a pool operation -/
structure PRes (σ : Type) where
  st : σ
  out : Out
  ev : List UpEv := []

/-- `allocate_block()`: arena block + `free_list_.insert` -/
def Pool.allocateBlock (cfg : Cfg) (p : Pool) (env : List (Option Nat)) : PRes Pool :=
  match p.arena.allocateBlock env with
  | .envMissing => ⟨p, .envMissing, []⟩
  | .fail a e ev _ => ⟨{ p with arena := a }, .throws e, ev⟩
  | .ok a b ev _ =>
    match p.list.insert cfg b.base b.size with
    | .ok l => ⟨{ p with arena := a, list := l }, .done, ev⟩
    | .handler k => ⟨{ p with arena := a }, .handler k, ev⟩
    | .crash => ⟨{ p with arena := a }, .crash, ev⟩

def Pool.create (cfg : Cfg) (src : Src) (list : AnyList) (arrays : Bool) (env : List (Option Nat)) : PRes Pool :=
  Pool.allocateBlock cfg { arena := { src := src, isCached := false }, list := list, arrays := arrays } env

/-- `allocate_node()` -/
def Pool.allocateNode (cfg : Cfg) (p : Pool) (env : List (Option Nat)) : PRes Pool :=
  let r := if p.list.empty then p.allocateBlock cfg env else ⟨p, .done, []⟩
  match r.out with
  | .done =>
    match r.st.list.allocate with
    | none => ⟨r.st, .crash, r.ev⟩
    | some (l, a) => ⟨{ r.st with list := l }, .ok a, r.ev⟩
  | _ => r

def Pool.tryAllocateNode (p : Pool) : PRes Pool :=
  if p.list.empty then ⟨p, .null, []⟩
  else match p.list.allocate with
    | none => ⟨p, .crash, []⟩
    | some (l, a) => ⟨{ p with list := l }, .ok a, []⟩

/-- private `allocate_array(n, node_size)` with `bytes = n * node_size` -/
def Pool.allocateArrayBytes (cfg : Cfg) (p : Pool) (bytes : Nat) (env : List (Option Nat)) : PRes Pool :=
  let first : Option (AnyList × Option Nat) := if p.list.empty then some (p.list, none) else p.list.allocateBytes bytes
  match first with
  | none => ⟨p, .crash, []⟩
  | some (l, some a) => ⟨{ p with list := l }, .ok a, []⟩
  | some (_, none) =>
    let r := p.allocateBlock cfg env
    match r.out with
    | .done =>
      match r.st.list.allocateBytes bytes with
      | none => ⟨r.st, .crash, r.ev⟩
      | some (l, some a) => ⟨{ r.st with list := l }, .ok a, r.ev⟩
      | some (_, none) => ⟨r.st, .throws .badArray, r.ev⟩
    | _ => r

/-- member `allocate_array(n)` -/
def Pool.allocateArray (cfg : Cfg) (p : Pool) (n : Nat) (env : List (Option Nat)) : PRes Pool :=
  let bytes := mul64 n p.nodeSize
  let supported := if p.arrays then p.nextCapacity else 0
  if bytes > supported then ⟨p, .throws .badArray, []⟩ else p.allocateArrayBytes cfg bytes env

def Pool.tryAllocateArrayBytes (p : Pool) (bytes : Nat) : PRes Pool :=
  if !p.arrays || p.list.empty then ⟨p, .null, []⟩
  else match p.list.allocateBytes bytes with
    | none => ⟨p, .crash, []⟩
    | some (l, some a) => ⟨{ p with list := l }, .ok a, []⟩
    | some (_, none) => ⟨p, .null, []⟩

def liftList (p : Pool) (r : ListRes AnyList) : PRes Pool :=
  match r with
  | .ok l => ⟨{ p with list := l }, .done, []⟩
  | .handler k => ⟨p, .handler k, []⟩
  | .crash => ⟨p, .crash, []⟩

def Pool.deallocateNode (cfg : Cfg) (p : Pool) (a : Nat) : PRes Pool := liftList p (p.list.deallocate cfg a)
def Pool.deallocateBytes (cfg : Cfg) (p : Pool) (a bytes : Nat) : PRes Pool := liftList p (p.list.deallocateBytes cfg a bytes)

def Pool.owns (p : Pool) (a : Nat) : Bool := p.arena.owns a

def Pool.tryDeallocateNode (cfg : Cfg) (p : Pool) (a : Nat) : PRes Pool :=
  if !p.owns a then ⟨p, .bool false, []⟩
  else let r := p.deallocateNode cfg a
    match r.out with | .done => ⟨r.st, .bool true, []⟩ | _ => r

def Pool.tryDeallocateBytes (cfg : Cfg) (p : Pool) (a bytes : Nat) : PRes Pool :=
  if !p.arrays || !p.owns a then ⟨p, .bool false, []⟩
  else let r := p.deallocateBytes cfg a bytes
    match r.out with | .done => ⟨r.st, .bool true, []⟩ | _ => r

def Pool.onAlloc (cfg : Cfg) (p : Pool) (n : Nat) : Pool := if cfg.leak then { p with leak := p.leak + n } else p
def Pool.onDealloc (cfg : Cfg) (p : Pool) (n : Nat) : Pool := if cfg.leak then { p with leak := p.leak - n } else p

/-- `allocator_traits<memory_pool>::allocate_node(state, size, alignment)` -/
def Pool.traitsAllocateNode (cfg : Cfg) (p : Pool) (size align : Nat) (env : List (Option Nat)) : PRes Pool :=
  if size > p.nodeSize then ⟨p, .throws .badNode, []⟩
  else if align > p.list.alignment then ⟨p, .throws .badAlign, []⟩
  else
    let r := p.allocateNode cfg env
    match r.out with | .ok _ => { r with st := r.st.onAlloc cfg size } | _ => r

/-- `allocator_traits<memory_pool>::allocate_array(state, count, size, alignment)` -/
def Pool.traitsAllocateArray (cfg : Cfg) (p : Pool) (count size align : Nat) (env : List (Option Nat)) : PRes Pool :=
  if size > p.nodeSize then ⟨p, .throws .badNode, []⟩
  else if align > p.list.alignment then ⟨p, .throws .badAlign, []⟩
  else if mul64 count size > p.nextCapacity then ⟨p, .throws .badArray, []⟩
  else
    let r := p.allocateArrayBytes cfg (mul64 count size) env
    match r.out with | .ok _ => { r with st := r.st.onAlloc cfg (mul64 count size) } | _ => r

def Pool.traitsDeallocateNode (cfg : Cfg) (p : Pool) (a size : Nat) : PRes Pool :=
  let r := p.deallocateNode cfg a
  match r.out with | .done => { r with st := r.st.onDealloc cfg size } | _ => r

def Pool.traitsDeallocateArray (cfg : Cfg) (p : Pool) (a count size : Nat) : PRes Pool :=
  let r := p.deallocateBytes cfg a (mul64 count size)
  match r.out with | .done => { r with st := r.st.onDealloc cfg (mul64 count size) } | _ => r

/-- composable traits -/
def Pool.traitsTryAllocateNode (p : Pool) (size align : Nat) : PRes Pool :=
  if size > p.nodeSize || align > p.list.alignment then ⟨p, .null, []⟩ else p.tryAllocateNode

def Pool.traitsTryAllocateArray (p : Pool) (count size align : Nat) : PRes Pool :=
  if size > p.nodeSize || mul64 count size > p.nextCapacity || align > p.list.alignment then ⟨p, .null, []⟩
  else p.tryAllocateArrayBytes (mul64 count size)

def Pool.traitsTryDeallocateNode (cfg : Cfg) (p : Pool) (a size align : Nat) : PRes Pool :=
  if size > p.nodeSize || align > p.list.alignment then ⟨p, .bool false, []⟩ else p.tryDeallocateNode cfg a

def Pool.traitsTryDeallocateArray (cfg : Cfg) (p : Pool) (a count size align : Nat) : PRes Pool :=
  if size > p.nodeSize || mul64 count size > p.nextCapacity || align > p.list.alignment then ⟨p, .bool false, []⟩
  else p.tryDeallocateBytes cfg a (mul64 count size)

/-- destructor: leak report (if any) and the arena's destructor -/
def Pool.destroy (cfg : Cfg) (p : Pool) : List UpEv × Option Int × Option String :=
  let (_, ev, chk) := p.arena.destroy cfg
  (ev, if cfg.leak && p.leak ≠ 0 then some p.leak else none, chk)

/-- move construction of a free list into a list object whose proxy words are at `b` (ordered list: begin proxy `b`, end
proxy `e`; small list: proxy chunk header `b`): every node / chunk is handed over, the cursors are reset to the new
proxies, the source is left empty (it keeps its own proxies) -/
def AnyList.moveInto (l : AnyList) (b e : Nat) : AnyList × AnyList :=
  match l with
  | .ord l => ((l.moveTo b e).1 |> .ord, (l.moveTo b e).2 |> .ord)
  | .small l => (.small { l with P := b, allocChunk := b, deallocChunk := b },
                .small { l with chunks := [], cap := 0, allocChunk := l.P, deallocChunk := l.P })
  | .free l => (.free l, .free { l with nodes := [], cap := 0 })

/-- `memory_pool(memory_pool&&)`: the new object takes arena, list and leak count; the moved-from one keeps nothing -/
def Pool.moveInto (p : Pool) (b e : Nat) : Pool × Pool :=
  ({ p with list := (p.list.moveInto b e).1 },
   { p with list := (p.list.moveInto b e).2, arena := p.arena.movedFrom, leak := 0 })

/-! ### memory_pool_collection -/

structure Coll where
  arena : Arena            -- uncached
  cur : Nat                -- `stack_.top()`
  policy : Policy
  minElem : Nat            -- `FreeList::min_element_size`
  lists : List AnyList
  arrays : Bool
  leak : Int := 0
deriving Repr, DecidableEq

def Coll.blockEnd (c : Coll) : Option Nat := c.arena.currentBlock.map fun b => b.base + b.size

def Coll.str (c : Coll) : String :=
  let e := match c.blockEnd with | some e => toString e | none => "-"
  let ls := " ; ".intercalate (c.lists.filter (fun l => l.capacity ≠ 0 || true) |>.map AnyList.str)
  s!"cur={c.cur} end={e} {c.arena.str} leak={c.leak} lists=[{ls}]"

/-- index into `lists` chosen by `free_list_array::get(size)` -/
def Coll.listIndex (c : Coll) (size : Nat) : Nat :=
  (bucketIndex c.policy (BitVec.ofNat 64 c.minElem) (BitVec.ofNat 64 size)
    - minSizeIndex c.policy (BitVec.ofNat 64 c.minElem)).toNat

/-- `free_list_array::max_node_size()` -/
def Coll.maxNodeSize (c : Coll) : Nat :=
  (c.policy.sizeFromIndex (BitVec.ofNat 64 c.lists.length + minSizeIndex c.policy (BitVec.ofNat 64 c.minElem) - 1#64)).toNat

def Coll.defCapacity (c : Coll) : Option Nat :=
  match c.arena.currentBlock with
  | none => none
  | some b => if c.lists.length = 0 then none else some (b.size / c.lists.length)

/-- the loop of `def_capacity(pool)` (D31 repair): the capacity is raised until the list can hold one node of its size;
at most `chunk_memory_offset + 2` rounds are ever needed (`Props/C01.lean`, `growCapacity_enough_small`) -/
def growCapacity (l : AnyList) : Nat → Nat → Nat
  | 0, cap => cap
  | fuel + 1, cap =>
    if l.usableSize cap < l.nodeSize then growCapacity l fuel (add64 cap (l.nodeSize - l.usableSize cap)) else cap

/-- `def_capacity(pool)` -/
def Coll.defCapacityFor (c : Coll) (l : AnyList) : Option Nat := c.defCapacity.map (growCapacity l 64)

def Coll.capacityLeft (c : Coll) : Option Nat := c.blockEnd.map fun e => sub64 e c.cur
def Coll.nextCapacity (c : Coll) : Nat := c.arena.nextBlockSize

def Coll.setList (c : Coll) (i : Nat) (l : AnyList) : Coll := { c with lists := c.lists.set i l }

/-- `insert_rest(pool)` (with the D1/D2 repairs): the rest of the block goes to list `i` if at least one node fits -/
def Coll.insertRest (cfg : Cfg) (c : Coll) (i : Nat) : Option Coll :=
  match c.blockEnd, c.lists[i]? with
  | some e, some l =>
    let remaining := sub64 e c.cur
    if remaining = 0 then some c
    else
      let offset := alignOff c.cur maxAlign
      if offset < remaining && l.usableSize (remaining - offset) ≥ l.nodeSize then
        match l.insert cfg (c.cur + offset) (remaining - offset) with
        | .ok l' => some { (c.setList i l') with cur := c.cur + remaining }
        | _ => none
      else some c
  | _, _ => none

/-- `try_reserve_memory(pool, capacity)` -/
def Coll.tryReserve (cfg : Cfg) (c : Coll) (i capacity : Nat) : Option Coll :=
  match c.blockEnd, c.lists[i]? with
  | some e, some l =>
    match fixedAllocate c.cur e capacity maxAlign cfg.fence with
    | none => c.insertRest cfg i
    | some (p, cur') =>
      match l.insert cfg p capacity with
      | .ok l' => some { (c.setList i l') with cur := cur' }
      | _ => none
  | _, _ => none

/-- `reserve_memory(pool, capacity)`: returns the reserved block `(mem, capacity)` (not yet inserted) -/
def Coll.reserve (cfg : Cfg) (c : Coll) (i capacity : Nat) (env : List (Option Nat)) : PRes Coll × Option Nat :=
  match c.blockEnd with
  | none => (⟨c, .crash, []⟩, none)
  | some e =>
    match fixedAllocate c.cur e capacity maxAlign cfg.fence with
    | some (p, cur') => (⟨{ c with cur := cur' }, .done, []⟩, some p)
    | none =>
      match c.insertRest cfg i with
      | none => (⟨c, .crash, []⟩, none)
      | some c1 =>
        match c1.arena.allocateBlock env with
        | .envMissing => (⟨c1, .envMissing, []⟩, none)
        | .fail a ex ev _ => (⟨{ c1 with arena := a }, .throws ex, ev⟩, none)
        | .ok a b ev _ =>
          let c2 := { c1 with arena := a, cur := b.base }
          match fixedAllocate c2.cur (b.base + b.size) capacity maxAlign cfg.fence with
          | some (p, cur') => (⟨{ c2 with cur := cur' }, .done, ev⟩, some p)
          | none => (⟨c2, .crash, ev⟩, none)     -- `FOONATHAN_MEMORY_ASSERT(mem)`: nullptr is inserted

/-- the bucket is empty: `reserve_memory(pool, capacity)` and `pool.insert(mem, capacity)` of the reserved block -/
def Coll.refill (cfg : Cfg) (c : Coll) (i dc : Nat) (env : List (Option Nat)) : PRes Coll :=
  match c.reserve cfg i dc env with
  | (r, some mem) =>
    (match r.st.lists[i]? with
     | some l1 => (match l1.insert cfg mem dc with
        | .ok l2 => { r with st := r.st.setList i l2 }
        | .handler k => { r with out := .handler k }
        | .crash => { r with out := .crash })
     | none => { r with out := .crash })
  | (r, none) => r

/-- `pool.allocate()` on bucket `i` -/
def Coll.takeNode (c : Coll) (i : Nat) (ev : List UpEv) : PRes Coll :=
  match c.lists[i]? with
  | some l1 => (match l1.allocate with
      | some (l2, a) => ⟨c.setList i l2, .ok a, ev⟩
      | none => ⟨c, .crash, ev⟩)
  | none => ⟨c, .crash, ev⟩

/-- `allocate_node(node_size)` -/
def Coll.allocateNode (cfg : Cfg) (c : Coll) (size : Nat) (env : List (Option Nat)) : PRes Coll :=
  if size > c.maxNodeSize then ⟨c, .throws .badNode, []⟩
  else
    let i := c.listIndex size
    match c.lists[i]?, c.defCapacity with
    | some l, some dc0 =>
      let step : PRes Coll := if l.empty then c.refill cfg i (growCapacity l 64 dc0) env else ⟨c, .done, []⟩
      match step.out with
      | .done => step.st.takeNode i step.ev
      | _ => step
    | _, _ => ⟨c, .crash, []⟩

/-- `try_allocate_node(node_size)` -/
def Coll.tryAllocateNode (cfg : Cfg) (c : Coll) (size : Nat) : PRes Coll :=
  if size > c.maxNodeSize then ⟨c, .null, []⟩
  else
    let i := c.listIndex size
    match c.lists[i]?, c.defCapacity with
    | some l, some dc0 =>
      let dc := growCapacity l 64 dc0
      let c1 : Option Coll := if l.empty then c.tryReserve cfg i dc else some c
      match c1 with
      | none => ⟨c, .crash, []⟩
      | some c1 =>
        match c1.lists[i]? with
        | some l1 =>
          if l1.empty then ⟨c1, .null, []⟩
          else (match l1.allocate with
            | some (l2, a) => ⟨c1.setList i l2, .ok a, []⟩
            | none => ⟨c1, .crash, []⟩)
        | none => ⟨c1, .crash, []⟩
    | _, _ => ⟨c, .crash, []⟩

def Coll.deallocateNode (cfg : Cfg) (c : Coll) (a size : Nat) : PRes Coll :=
  let i := c.listIndex size
  match c.lists[i]? with
  | none => ⟨c, .crash, []⟩
  | some l => match l.deallocate cfg a with
    | .ok l' => ⟨c.setList i l', .done, []⟩
    | .handler k => ⟨c, .handler k, []⟩
    | .crash => ⟨c, .crash, []⟩

def Coll.tryDeallocateNode (cfg : Cfg) (c : Coll) (a size : Nat) : PRes Coll :=
  if size > c.maxNodeSize || !c.arena.owns a then ⟨c, .bool false, []⟩
  else let r := c.deallocateNode cfg a size
    match r.out with | .done => ⟨r.st, .bool true, []⟩ | _ => r

/-- `allocate_array(count, node_size)` -/
def Coll.allocateArray (cfg : Cfg) (c : Coll) (count size : Nat) (env : List (Option Nat)) : PRes Coll :=
  if size > c.maxNodeSize then ⟨c, .throws .badNode, []⟩
  else
    let i := c.listIndex size
    let bytes := mul64 count size
    match c.lists[i]?, c.defCapacity with
    | some l, some dc0 =>
      let dc := growCapacity l 64 dc0
      let first : Option (AnyList × Option Nat) := if l.empty then some (l, none) else l.allocateBytes bytes
      match first with
      | none => ⟨c, .crash, []⟩
      | some (l', some a) => ⟨c.setList i l', .ok a, []⟩
      | some (_, none) =>
        -- reserve the default capacity, insert, retry
        match c.reserve cfg i dc env with
        | (r, none) => r
        | (r, some mem) =>
          match r.st.lists[i]? with
          | none => { r with out := .crash }
          | some l1 =>
            match l1.insert cfg mem dc with
            | .handler k => { r with out := .handler k }
            | .crash => { r with out := .crash }
            | .ok l2 =>
              let c2 := r.st.setList i l2
              match l2.allocateBytes bytes with
              | none => ⟨c2, .crash, r.ev⟩
              | some (l3, some a) => ⟨c2.setList i l3, .ok a, r.ev⟩
              | some (_, none) =>
                -- still nothing: the array needs its own reservation, a whole number of the list's nodes (D26 repair)
                let arraySize := mul64 (ceilNodes bytes l2.nodeSize) l2.nodeSize
                if arraySize > add64 (sub64 c2.nextCapacity l2.alignment) 1 then ⟨c2, .throws .badArray, r.ev⟩
                else
                  let env' := env.drop (r.ev.filter (fun e => match e with | .alloc _ _ _ => true | _ => false)).length
                  match c2.reserve cfg i arraySize env' with
                  | (r2, none) => { r2 with ev := r.ev ++ r2.ev }
                  | (r2, some mem2) =>
                    match r2.st.lists[i]? with
                    | none => ⟨r2.st, .crash, r.ev ++ r2.ev⟩
                    | some l4 =>
                      match l4.insert cfg mem2 arraySize with
                      | .handler k => ⟨r2.st, .handler k, r.ev ++ r2.ev⟩
                      | .crash => ⟨r2.st, .crash, r.ev ++ r2.ev⟩
                      | .ok l5 =>
                        match l5.allocateBytes bytes with
                        | some (l6, some a) => ⟨r2.st.setList i l6, .ok a, r.ev ++ r2.ev⟩
                        | _ => ⟨r2.st.setList i l5, .crash, r.ev ++ r2.ev⟩
    | _, _ => ⟨c, .crash, []⟩

def Coll.tryAllocateArray (cfg : Cfg) (c : Coll) (count size : Nat) : PRes Coll :=
  if !c.arrays || size > c.maxNodeSize then ⟨c, .null, []⟩
  else
    let i := c.listIndex size
    let bytes := mul64 count size
    match c.lists[i]?, c.defCapacity with
    | some l, some dc0 =>
      let dc := growCapacity l 64 dc0
      let c1 : Option Coll := if l.empty then c.tryReserve cfg i dc else some c
      match c1 with
      | none => ⟨c, .crash, []⟩
      | some c1 =>
        match c1.lists[i]? with
        | some l1 =>
          if l1.empty then ⟨c1, .null, []⟩
          else (match l1.allocateBytes bytes with
            | some (l2, some a) => ⟨c1.setList i l2, .ok a, []⟩
            | some (_, none) => ⟨c1, .null, []⟩
            | none => ⟨c1, .crash, []⟩)
        | none => ⟨c1, .crash, []⟩
    | _, _ => ⟨c, .crash, []⟩

def Coll.deallocateArray (cfg : Cfg) (c : Coll) (a count size : Nat) : PRes Coll :=
  let i := c.listIndex size
  match c.lists[i]? with
  | none => ⟨c, .crash, []⟩
  | some l => match l.deallocateBytes cfg a (mul64 count size) with
    | .ok l' => ⟨c.setList i l', .done, []⟩
    | .handler k => ⟨c, .handler k, []⟩
    | .crash => ⟨c, .crash, []⟩

def Coll.tryDeallocateArray (cfg : Cfg) (c : Coll) (a count size : Nat) : PRes Coll :=
  if !c.arrays || size > c.maxNodeSize || !c.arena.owns a then ⟨c, .bool false, []⟩
  else let r := c.deallocateArray cfg a count size
    match r.out with | .done => ⟨r.st, .bool true, []⟩ | _ => r

/-- `reserve(node_size, capacity)` (with the D34 repair: the reserved memory is inserted into the list) -/
def Coll.reserveOp (cfg : Cfg) (c : Coll) (size capacity : Nat) (env : List (Option Nat)) : PRes Coll :=
  let i := c.listIndex size
  match c.lists[i]? with
  | none => ⟨c, .crash, []⟩
  | some l =>
    -- (D34 repair) room for at least one node, then the reserved block goes onto the free list: the same two steps as
    -- the refill of an empty bucket
    c.refill cfg i (growCapacity l 64 capacity) env

def Coll.poolCapacityLeft (c : Coll) (size : Nat) : Nat := ((c.lists[c.listIndex size]?).map AnyList.capacity).getD 0

def Coll.onAlloc (cfg : Cfg) (c : Coll) (n : Nat) : Coll := if cfg.leak then { c with leak := c.leak + n } else c
def Coll.onDealloc (cfg : Cfg) (c : Coll) (n : Nat) : Coll := if cfg.leak then { c with leak := c.leak - n } else c

/-- traits -/
def Coll.traitsAllocateNode (cfg : Cfg) (c : Coll) (size align : Nat) (env : List (Option Nat)) : PRes Coll :=
  if align > (alignmentFor (BitVec.ofNat 64 size)).toNat then ⟨c, .throws .badAlign, []⟩
  else
    let r := c.allocateNode cfg size env
    match r.out with | .ok _ => { r with st := r.st.onAlloc cfg size } | _ => r

def Coll.traitsAllocateArray (cfg : Cfg) (c : Coll) (count size align : Nat) (env : List (Option Nat)) : PRes Coll :=
  if align > (alignmentFor (BitVec.ofNat 64 size)).toNat then ⟨c, .throws .badAlign, []⟩
  else
    let r := c.allocateArray cfg count size env
    match r.out with | .ok _ => { r with st := r.st.onAlloc cfg (mul64 count size) } | _ => r

def Coll.traitsDeallocateNode (cfg : Cfg) (c : Coll) (a size : Nat) : PRes Coll :=
  let r := c.deallocateNode cfg a size
  match r.out with | .done => { r with st := r.st.onDealloc cfg size } | _ => r

def Coll.traitsDeallocateArray (cfg : Cfg) (c : Coll) (a count size : Nat) : PRes Coll :=
  let r := c.deallocateArray cfg a count size
  match r.out with | .done => { r with st := r.st.onDealloc cfg (mul64 count size) } | _ => r

def Coll.traitsTryAllocateNode (cfg : Cfg) (c : Coll) (size align : Nat) : PRes Coll :=
  if align > maxAlign then ⟨c, .null, []⟩ else c.tryAllocateNode cfg size

def Coll.traitsTryAllocateArray (cfg : Cfg) (c : Coll) (count size align : Nat) : PRes Coll :=
  if mul64 count size > c.nextCapacity || align > maxAlign then ⟨c, .null, []⟩ else c.tryAllocateArray cfg count size

def Coll.traitsTryDeallocateNode (cfg : Cfg) (c : Coll) (a size align : Nat) : PRes Coll :=
  if align > maxAlign then ⟨c, .bool false, []⟩ else c.tryDeallocateNode cfg a size

def Coll.traitsTryDeallocateArray (cfg : Cfg) (c : Coll) (a count size align : Nat) : PRes Coll :=
  if mul64 count size > c.nextCapacity || align > maxAlign then ⟨c, .bool false, []⟩
  else c.tryDeallocateArray cfg a count size

def Coll.destroy (cfg : Cfg) (c : Coll) : List UpEv × Option Int × Option String :=
  let (_, ev, chk) := c.arena.destroy cfg
  (ev, if cfg.leak && c.leak ≠ 0 then some c.leak else none, chk)

/-! ### construction of a collection -/

def sizeofList (kind : String) : Nat :=
  if kind = "free" then C.sizeof_free_list.toNat else if kind = "ord" then C.sizeof_ordered_list.toNat
  else C.sizeof_small_list.toNat
def alignofList (kind : String) : Nat :=
  if kind = "free" then C.alignof_free_list.toNat else if kind = "ord" then C.alignof_ordered_list.toNat
  else C.alignof_small_list.toNat
def minElemOf (kind : String) : Nat :=
  if kind = "free" then C.free_min_element_size.toNat else if kind = "ord" then C.ordered_min_element_size.toNat
  else C.small_min_element_size.toNat

/-- list `i` of the array at `arr`: constructed with `size_from_index(i + min_size_index)` -/
def Coll.mkList (kind : String) (pol : Policy) (arr i : Nat) : AnyList :=
  let minIdx := minSizeIndex pol (BitVec.ofNat 64 (minElemOf kind))
  let ns := (pol.sizeFromIndex (BitVec.ofNat 64 i + minIdx)).toNat
  let at_ := arr + i * sizeofList kind
  if kind = "free" then .free (FreeList.new ns)
  else if kind = "ord" then .ord (OrdList.new ns at_ (at_ + 8))
  else .small (SmallList.new ns at_)

/-- constructor of the collection: block, the array of lists carved from it by `fixed_memory_stack::allocate`,
lists constructed with `size_from_index(i + min_size_index)`, then the `max_node_size <= def_capacity` check -/
def Coll.create (cfg : Cfg) (src : Src) (kind : String) (pol : Policy) (arrays : Bool) (maxNode : Nat)
    (env : List (Option Nat)) : Option Coll × Out × List UpEv :=
  let a : Arena := { src := src, isCached := false }
  match a.allocateBlock env with
  | .envMissing => (none, .envMissing, [])
  | .fail _ e ev _ => (none, .throws e, ev)
  | .ok a' b ev _ =>
    let minE := minElemOf kind
    let n := (noElements pol (BitVec.ofNat 64 minE) (BitVec.ofNat 64 maxNode)).toNat
    match fixedAllocate b.base (b.base + b.size) (mul64 n (sizeofList kind)) (alignofList kind) cfg.fence with
    | none => (none, .crash, ev)        -- `FOONATHAN_MEMORY_ASSERT_MSG(array_, ...)`: null array is used
    | some (arr, cur') =>
      let c : Coll := { arena := a', cur := cur', policy := pol, minElem := minE, lists := (List.range n).map (Coll.mkList kind pol arr),
                        arrays := arrays }
      match c.defCapacity with
      | none => (some c, .crash, ev)
      | some dc => if maxNode > dc then (none, .throws .badNode, ev ++ (c.destroy cfg).1) else (some c, .done, ev)

end MemVerif.Model
