import MemVerif.Gen.Arith
import MemVerif.Gen.Guards
/-!
Shared vocabulary of the stateful models (L1, executable) and their canonical text form.
Addresses are offsets in the harness' region; `0` is `nullptr`.
-/
namespace MemVerif.Model
open MemVerif.Gen

/-- The preprocessor configuration, a parameter of every model. `fence = debug_fence_size` (0 unless fill). -/
structure Cfg where
  fill : Bool := true
  fence : Nat := 0
  leak : Bool := true
  ptrCheck : Bool := true
  dblDealloc : Bool := false
  assert : Bool := false
deriving Repr, DecidableEq

inductive Exn | oom | oofm | badSize | badNode | badArray | badAlign | upstream
deriving Repr, DecidableEq

def Exn.str : Exn → String
  | .oom => "out_of_memory" | .oofm => "out_of_fixed_memory" | .badSize => "bad_allocation_size"
  | .badNode => "bad_node_size" | .badArray => "bad_array_size" | .badAlign => "bad_alignment"
  | .upstream => "upstream"

/-- observable result of an operation -/
inductive Out
  | ok (addr : Nat) | null | throws (e : Exn) | done | bool (b : Bool)
  | marker (index top end_ : Nat) | num (n : Nat)
  | handler (kind : String)      -- a debug handler fired (invalid pointer ...) ; the harness' handler aborts the op
  | crash                        -- the model predicts undefined behaviour (null dereference, walk off a list)
  | envMissing                   -- the model wanted an upstream answer the trace does not have (tie broken)
deriving Repr, DecidableEq

def Out.str : Out → String
  | .ok a => s!"ok {a}" | .null => "null" | .throws e => s!"throw {e.str}" | .done => "done"
  | .bool b => if b then "true" else "false" | .marker i t e => s!"marker {i} {t} {e}" | .num n => s!"num {n}"
  | .handler k => s!"handler {k}" | .crash => "crash" | .envMissing => "env-missing"

/-- upstream events issued by a step -/
inductive UpEv
  | alloc (size align : Nat) (res : Option Nat)
  | dealloc (addr size align : Nat)
deriving Repr, DecidableEq

def UpEv.str : UpEv → String
  | .alloc s a (some r) => s!"a:{s}:{a}:{r}"
  | .alloc s a none => s!"a:{s}:{a}:fail"
  | .dealloc p s a => s!"d:{p}:{s}:{a}"

def upStr (l : List UpEv) : String := " ".intercalate (l.map UpEv.str)

/-- a block as obtained from a block source (`allocated_mb`) -/
structure Blk where
  base : Nat
  size : Nat
deriving Repr, DecidableEq, Inhabited

def Blk.str (b : Blk) : String := s!"{b.base}:{b.size}"
def blksStr (l : List Blk) : String := "[" ++ ",".intercalate (l.map Blk.str) ++ "]"

/-- canonical text of an address/index list: short lists in full, long ones as a digest (same as the harness) -/
def natListStr (l : List Nat) : String :=
  if l.length > 40 then
    let h : UInt64 := l.foldl (fun h x => h * 1000003 + x.toUInt64 + 1) 7
    s!"[#{l.length} first={l.headD 0} last={l.getLastD 0} h={h}]"
  else toString l

def two64 : Nat := 2 ^ 64

/-- `size_t` subtraction -/
def sub64 (a b : Nat) : Nat := (BitVec.ofNat 64 a - BitVec.ofNat 64 b).toNat
def add64 (a b : Nat) : Nat := (BitVec.ofNat 64 a + BitVec.ofNat 64 b).toNat
def mul64 (a b : Nat) : Nat := (BitVec.ofNat 64 a * BitVec.ofNat 64 b).toNat

/-- `detail::align_offset` (translated) on naturals -/
def alignOff (addr align : Nat) : Nat := (alignOffset (BitVec.ofNat 64 addr) (BitVec.ofNat 64 align)).toNat

def maxAlign : Nat := C.max_alignment.toNat
def implOff : Nat := implementationOffset.toNat

end MemVerif.Model
