import MemVerif.Model.Stack
/-!
Histories over a `memory_stack`: the operation vocabulary of C06 (well-bracketed marker scopes) and an
invariant-carrying run function. Used by the property theorems; the driver does not need it.
-/
namespace MemVerif.Model

/-- Continuation operations with *nested* marker scopes: `scope ops` is `m := top(); ops; unwind(m)`. -/
inductive SOp
  | alloc (size align : Nat)
  | tryAlloc (size align : Nat)
  | scope (ops : List SOp)

/-- environment: an infinite supply of upstream answers -/
abbrev EnvS := Nat → Option Nat

def envTake (e : EnvS) (k : Nat) : List (Option Nat) := [e k]

structure RunRes where
  st : MemStack
  k : Nat                      -- next upstream answer to use
  outs : List Out              -- results of alloc/tryAlloc in order (including those inside scopes)
  acquired : List Blk          -- blocks obtained from upstream during the run, in order
  ok : Bool                    -- no crash / env-missing / handler outcome occurred
deriving Repr

/-- number of upstream events that were allocations which succeeded, as blocks -/
def newBlocks (ev : List UpEv) : List Blk :=
  ev.filterMap fun e => match e with
    | .alloc s _ (some a) => some ⟨a, s⟩
    | _ => none

def usedAnswers (ev : List UpEv) : Nat :=
  (ev.filter fun e => match e with | .alloc _ _ _ => true | _ => false).length

mutual
/-- run one operation -/
def runOp (cfg : Cfg) (e : EnvS) (s : MemStack) (k : Nat) : SOp → RunRes
  | .alloc size align =>
    let (s', out, ev) := s.allocate cfg size align [e k]
    { st := s', k := k + usedAnswers ev, outs := [out], acquired := newBlocks ev,
      ok := out ≠ .crash ∧ out ≠ .envMissing }
  | .tryAlloc size align =>
    let (s', out) := s.tryAllocate cfg size align
    { st := s', k := k, outs := [out], acquired := [], ok := out ≠ .crash }
  | .scope ops =>
    match s.top with
    | none => { st := s, k := k, outs := [], acquired := [], ok := false }
    | some m =>
      let r := runOps cfg e s k ops
      let (s', out) := r.st.unwind cfg m
      { r with st := s', ok := r.ok && out == .done }
/-- run a list of operations -/
def runOps (cfg : Cfg) (e : EnvS) (s : MemStack) (k : Nat) : List SOp → RunRes
  | [] => { st := s, k := k, outs := [], acquired := [], ok := true }
  | op :: ops =>
    let r1 := runOp cfg e s k op
    let r2 := runOps cfg e r1.st r1.k ops
    { st := r2.st, k := r2.k, outs := r1.outs ++ r2.outs, acquired := r1.acquired ++ r2.acquired,
      ok := r1.ok && r2.ok }
end

/-- blocks are non-null, can hold the arena's header, and lie in the lower half of the address space -/
def Blk.Wf (b : Blk) : Prop := 0 < b.base ∧ implOff ≤ b.size ∧ b.base + b.size ≤ 2 ^ 62

/-- structural invariant of a live (not moved-from) memory_stack -/
structure MemStack.Inv (s : MemStack) : Prop where
  nonempty : s.arena.used ≠ []
  cached : s.arena.isCached = true
  wfUsed : ∀ b ∈ s.arena.used, b.Wf
  wfCached : ∀ b ∈ s.arena.cached, b.Wf
  curIn : ∀ b, s.arena.used.head? = some b → b.base + implOff ≤ s.cur ∧ s.cur ≤ b.base + b.size

end MemVerif.Model

namespace MemVerif.Model

mutual
/-- contract of a history: sizes are `size_t` values, alignments are powers of two -/
def SOpWf : SOp → Prop
  | .alloc size align => size < 2 ^ 64 ∧ ∃ k, k < 48 ∧ align = 2 ^ k
  | .tryAlloc size align => size < 2 ^ 64 ∧ ∃ k, k < 48 ∧ align = 2 ^ k
  | .scope ops => SOpsWf ops
def SOpsWf : List SOp → Prop
  | [] => True
  | op :: ops => SOpWf op ∧ SOpsWf ops
end

end MemVerif.Model
