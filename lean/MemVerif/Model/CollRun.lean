import MemVerif.Model.PoolRun
/-!
Ghost-instrumented histories over a `memory_pool_collection` (properties C01/C03/C04 for collections): node
operations. The caller's ledger records `(address, size)` — the size argument of the request, which is also what the
caller passes to `deallocate_node(ptr, size)` (it selects the bucket).
-/
namespace MemVerif.Model

structure GColl where
  c : Coll
  live : List (Nat × Nat) := []
deriving Repr, DecidableEq

/-- node operations of a history -/
inductive COpn
  | allocNode (size : Nat)       -- `allocate_node(size)`
  | tryAllocNode (size : Nat)    -- `try_allocate_node(size)`
  | dealloc (i : Nat)            -- `deallocate_node(ptr, size)` of the `i`-th live node with the size it was requested with
deriving Repr, DecidableEq

def GColl.exec (cfg : Cfg) (e : EnvS) (g : GColl) (k : Nat) : COpn → PRes Coll
  | .allocNode s => g.c.allocateNode cfg s [e k]
  | .tryAllocNode s => g.c.tryAllocateNode cfg s
  | .dealloc i =>
    match g.live[i]? with
    | none => ⟨g.c, .done, []⟩
    | some (a, s) => g.c.deallocateNode cfg a s

def GColl.ledger (g : GColl) (out : Out) : COpn → List (Nat × Nat)
  | .dealloc i => g.live.eraseIdx i
  | .allocNode s | .tryAllocNode s => match out with
    | .ok a => (a, s) :: g.live
    | _ => g.live

def GColl.step (cfg : Cfg) (e : EnvS) (g : GColl) (k : Nat) (op : COpn) : GColl × Nat :=
  let r := g.exec cfg e k op
  (⟨r.st, g.ledger r.out op⟩, k + usedAnswers r.ev)

def GColl.run (cfg : Cfg) (e : EnvS) (g : GColl) (k : Nat) : List COpn → GColl × Nat
  | [] => (g, k)
  | op :: ops => let r := g.step cfg e k op; GColl.run cfg e r.1 r.2 ops

end MemVerif.Model
