import MemVerif.Model.Pool
import MemVerif.Model.StackRun
/-!
Ghost-instrumented histories over a `memory_pool` (property C01).

The pool model (`Pool`, Pool.lean) is run unchanged; next to it the *ghost* list `live` records what the caller
holds: one `(address, bytes)` entry for every allocation that was handed out (`Out.ok a`) and not yet released.
A release names a live entry by its index and is performed with the parameters the entry was taken with — that is
the caller's contract (`deallocate_node(ptr)` for a node, `deallocate_array(ptr, n)` for an array of `n` nodes).
-/
namespace MemVerif.Model

/-- pool + the caller's ledger of live allocations `(address, bytes)`, newest first -/
structure GPool where
  p : Pool
  live : List (Nat × Nat) := []
deriving Repr, DecidableEq

/-- the operations of a history -/
inductive POp
  | allocNode                  -- `allocate_node()`
  | tryAllocNode               -- `try_allocate_node()`
  | allocArray (n : Nat)       -- `allocate_array(n)`                (the caller receives `n * node_size()` bytes)
  | tryAllocArray (n : Nat)    -- `try_allocate_array(n)`            (likewise)
  | dealloc (i : Nat)          -- release the `i`-th live allocation (out of range: no such allocation, no-op)
deriving Repr, DecidableEq

/-- The library call an operation stands for, and the number of bytes the caller receives if it succeeds.
`dealloc i`: a live entry of more than `node_size()` bytes is an array and goes back through
`deallocate_array` (`Pool.deallocateBytes a bytes`), every other entry through `deallocate_node`. -/
def GPool.exec (cfg : Cfg) (e : EnvS) (g : GPool) (k : Nat) : POp → PRes Pool × Nat
  | .allocNode => (g.p.allocateNode cfg [e k], g.p.nodeSize)
  | .tryAllocNode => (g.p.tryAllocateNode, g.p.nodeSize)
  | .allocArray n => (g.p.allocateArray cfg n [e k], n * g.p.nodeSize)
  | .tryAllocArray n => (g.p.tryAllocateArrayBytes (n * g.p.nodeSize), n * g.p.nodeSize)
  | .dealloc i =>
    match g.live[i]? with
    | none => (⟨g.p, .done, []⟩, 0)
    | some (a, bytes) =>
      (if bytes > g.p.nodeSize then g.p.deallocateBytes cfg a bytes else g.p.deallocateNode cfg a, 0)

/-- ledger update: a successful allocation is entered, a release removes its entry -/
def GPool.ledger (g : GPool) (out : Out) (bytes : Nat) : POp → List (Nat × Nat)
  | .dealloc i => g.live.eraseIdx i
  | _ => match out with
    | .ok a => (a, bytes) :: g.live
    | _ => g.live

/-- one step; `k` is the index of the next upstream answer (advanced by the number of upstream requests made) -/
def GPool.step (cfg : Cfg) (e : EnvS) (g : GPool) (k : Nat) (op : POp) : GPool × Nat :=
  let r := g.exec cfg e k op
  (⟨r.1.st, g.ledger r.1.out r.2 op⟩, k + usedAnswers r.1.ev)

/-- a history -/
def GPool.run (cfg : Cfg) (e : EnvS) (g : GPool) (k : Nat) : List POp → GPool × Nat
  | [] => (g, k)
  | op :: ops => let r := g.step cfg e k op; GPool.run cfg e r.1 r.2 ops

/-- observable results of a history, in order -/
def GPool.outs (cfg : Cfg) (e : EnvS) (g : GPool) (k : Nat) : List POp → List Out
  | [] => []
  | op :: ops => (g.exec cfg e k op).1.out :: let r := g.step cfg e k op; GPool.outs cfg e r.1 r.2 ops

end MemVerif.Model
