import MemVerif.Model.Basic
/-!
Event-level models of the object-creating helpers (`smart_ptr.hpp`, `deleter.hpp`, `joint_allocator.hpp`): what is
allocated, constructed, destroyed, released and whether the exception leaves the helper, as a list of events in program
order. Loops are structural recursions mirroring the source loops (`detail::construct`, its rollback loop, the deleters'
destroy loops, `joint_array::builder`), so the closed forms in `Props/C20.lean` are theorems, not definitions.

Elements are numbered in the order their construction is attempted (`id`), starting at `start`.
-/
namespace MemVerif.Model

inductive Ev
  | alloc (arr : Bool) (count size align : Nat)
  | ctor (id : Nat)          -- element `id` was constructed
  | ctorThrow (id : Nat)     -- the constructor of element `id` threw
  | dtor (id : Nat)
  | dealloc (arr : Bool) (count size align : Nat)
  | propagate                -- the exception leaves the helper (reaches the caller)
deriving Repr, DecidableEq

def Ev.str : Ev → String
  | .alloc false _ s a => s!"A:node:{s}:{a}"
  | .alloc true c s a => s!"A:arr:{c}:{s}:{a}"
  | .ctor i => s!"C{i}"
  | .ctorThrow i => s!"X{i}"
  | .dtor i => s!"D{i}"
  | .dealloc false _ s a => s!"F:node:{s}:{a}"
  | .dealloc true c s a => s!"F:arr:{c}:{s}:{a}"
  | .propagate => "T"

def evsStr (l : List Ev) : String := " ".intercalate (l.map Ev.str)

/-- `for (; cur != end; ++cur) ::new (cur) T(args...)` over `n` elements starting with id `cur`; the constructor of
element `fail` throws. Returns the events and the id at which it threw. -/
def ctorLoop (fail : Option Nat) : (cur n : Nat) → List Ev × Option Nat
  | _, 0 => ([], none)
  | cur, n + 1 =>
    if fail = some cur then ([.ctorThrow cur], some cur)
    else
      let r := ctorLoop fail (cur + 1) n
      (.ctor cur :: r.1, r.2)

/-- `for (el = begin; el != cur; ++el) el->~T()` -/
def dtorLoop : (cur n : Nat) → List Ev
  | _, 0 => []
  | cur, n + 1 => .dtor cur :: dtorLoop (cur + 1) n

/-- `detail::construct(std::false_type, begin, end)`: the loop inside `try`, the rollback loop in `catch (...)`, `throw;` -/
def construct (start n : Nat) (fail : Option Nat) : List Ev × Bool :=
  match ctorLoop fail start n with
  | (e, none) => (e, false)
  | (e, some cur) => (e ++ dtorLoop start (cur - start), true)

/-! ### `allocate_unique` -/

/-- `allocate_unique<T>(alloc, args...)`: the guard `raw_ptr` (an `allocator_deallocator`) releases without destroying -/
def allocateUnique (size align : Nat) (fail : Bool) : List Ev :=
  .alloc false 1 size align ::
    (if fail then [.ctorThrow 0, .dealloc false 1 size align, .propagate] else [.ctor 0])

/-- `allocator_deleter<T>` -/
def deleteUnique (size align : Nat) : List Ev := [.dtor 0, .dealloc false 1 size align]

/-- `allocate_unique<T[]>(alloc, n)` -/
def allocateUniqueArray (n size align : Nat) (fail : Option Nat) : List Ev :=
  let r := construct 0 n fail
  .alloc true n size align :: (r.1 ++ if r.2 then [.dealloc true n size align, .propagate] else [])

/-- `allocator_deleter<T[]>`: destroys `size_` elements front to back, then releases the array -/
def deleteUniqueArray (n size align : Nat) : List Ev := dtorLoop 0 n ++ [.dealloc true n size align]

/-! ### joint objects: `joint_ptr::create`, `joint_array`, `reset`, `clone_joint` -/

/-- one `joint_array` constructor of `n` elements (all forms share `builder`): `create` per element; when one throws
`~builder` destroys the ones created so far (front to back) and the exception leaves the constructor -/
def jointArrayCtor (start n : Nat) (fail : Option Nat) : List Ev × Bool := construct start n fail

/-- `~joint_array`: `for (i = 0; i != size_; ++i) ptr_[i].~T()` -/
def jointArrayDtor (start n : Nat) : List Ev := dtorLoop start n

/-- destructors of already constructed members, in reverse order of construction (`done` = list of (start, n), most
recently constructed first) -/
def destroyMembers : List (Nat × Nat) → List Ev
  | [] => []
  | (s, n) :: rest => jointArrayDtor s n ++ destroyMembers rest

/-- the member-initialiser list of a joint type whose members are `joint_array`s of the given lengths -/
def constructMembers (fail : Option Nat) : (members : List Nat) → (start : Nat) → (done : List (Nat × Nat)) →
    List Ev × Bool × List (Nat × Nat)
  | [], _, done => ([], false, done)
  | n :: ms, start, done =>
    let r := jointArrayCtor start n fail
    if r.2 then (r.1 ++ destroyMembers done, true, done)
    else
      let q := constructMembers fail ms (start + n) ((start, n) :: done)
      (r.1 ++ q.1, q.2.1, q.2.2)

/-- `joint_ptr::create(additional_size, args...)` for an object of `objSize` bytes -/
def jointCreate (objSize extra align : Nat) (members : List Nat) (start : Nat) (fail : Option Nat) : List Ev :=
  let r := constructMembers fail members start []
  .alloc false 1 (objSize + extra) align ::
    (r.1 ++ if r.2.1 then [.dealloc false 1 (objSize + extra) align, .propagate] else [])

/-- `joint_ptr::reset()`: `~T()` (members in reverse order), then one release of `sizeof(T) + capacity` bytes -/
def jointReset (objSize extra align : Nat) (members : List Nat) (start : Nat) : List Ev :=
  let r := constructMembers none members start []
  destroyMembers r.2.2 ++ [.dealloc false 1 (objSize + extra) align]

/-! ### projections used by the statements -/

def Ev.ctorId : Ev → Option Nat | .ctor i => some i | _ => none
def Ev.dtorId : Ev → Option Nat | .dtor i => some i | _ => none
def Ev.allocOf : Ev → Option (Bool × Nat × Nat × Nat) | .alloc a c s al => some (a, c, s, al) | _ => none
def Ev.deallocOf : Ev → Option (Bool × Nat × Nat × Nat) | .dealloc a c s al => some (a, c, s, al) | _ => none

def ctorIds (l : List Ev) : List Nat := l.filterMap Ev.ctorId
def dtorIds (l : List Ev) : List Nat := l.filterMap Ev.dtorId
def allocs (l : List Ev) := l.filterMap Ev.allocOf
def deallocs (l : List Ev) := l.filterMap Ev.deallocOf

/-- decidable well-formedness of an event list (the harness evaluates the same predicate on the real code's log):
an element is destroyed only while it is alive, constructed only while memory is outstanding, memory is released only
when no element is alive and with the parameters it was obtained with; at the end nothing is alive or outstanding -/
def wellFormedGo : List Ev → (alive : List Nat) → (out : List (Bool × Nat × Nat × Nat)) → Bool
  | [], alive, out => alive.isEmpty && out.isEmpty
  | .alloc a c s al :: es, alive, out => wellFormedGo es alive ((a, c, s, al) :: out)
  | .ctor i :: es, alive, out => !out.isEmpty && !alive.contains i && wellFormedGo es (i :: alive) out
  | .ctorThrow _ :: es, alive, out => wellFormedGo es alive out
  | .dtor i :: es, alive, out => alive.contains i && wellFormedGo es (alive.erase i) out
  | .dealloc a c s al :: es, alive, out =>
    (match out with
     | o :: os => o == (a, c, s, al) && alive.isEmpty && wellFormedGo es alive os
     | [] => false)
  | .propagate :: es, alive, out => wellFormedGo es alive out

def wellFormed (l : List Ev) : Bool := wellFormedGo l [] []

end MemVerif.Model
