import MemVerif.Model.Pool
import MemVerif.Props.C09
import MemVerif.Props.C07
import MemVerif.Props.C01Stack
/-!
# C08 — composable deallocation recognises exactly its own memory

`try_deallocate_*` of pools, collections, stacks and the iteration allocator first asks the arena (`memory_block_stack::owns`)
/ the block (`memory_block::contains`) whether the pointer lies in the usable part of a block the allocator holds.
Live allocations of an allocator lie inside the usable part of its blocks (C01); live allocations of a *sibling* lie in
the sibling's upstream blocks, which are disjoint from ours (`EnvOk`) — possibly directly adjacent.
-/
namespace MemVerif.Props.C08
open MemVerif.Model

/-- memory inside the usable part of a held block is recognised -/
theorem C08_owns_inside (a : Arena) (b : Blk) (hb : b ∈ a.used) (p : Nat)
    (h : b.usable.base ≤ p ∧ p < b.usable.base + b.usable.size) : a.owns p = true := by
  unfold Arena.owns
  rw [List.any_eq_true]
  exact ⟨b, hb, by simpa using h⟩

/-- **Foreign memory is never recognised**: a pointer that lies in none of the arena's blocks — in particular inside a
sibling allocator's block that starts exactly one past the end of an own block (`p = base + size`) or ends directly
before one (`p < base`) — is not owned. Half-open comparison, no hypothesis on adjacency. -/
theorem C08_owns_foreign (a : Arena) (p : Nat) (h : ∀ b ∈ a.used, p < b.base ∨ b.base + b.size ≤ p) :
    a.owns p = false := by
  unfold Arena.owns
  rw [List.any_eq_false]
  intro b hb
  have := h b hb
  rw [decide_eq_true_eq]
  simp only [Blk.usable]
  intro ⟨h1, h2⟩
  omega

/-- `memory_pool::try_deallocate_node` on foreign memory: `false`, nothing changes, no upstream event -/
theorem C08_pool_try_dealloc_foreign (cfg : Cfg) (p : Pool) (a : Nat) (h : p.owns a = false) :
    p.tryDeallocateNode cfg a = ⟨p, .bool false, []⟩ ∧ ∀ n, p.tryDeallocateBytes cfg a n = ⟨p, .bool false, []⟩ := by
  simp [Pool.tryDeallocateNode, Pool.tryDeallocateBytes, h]

/-- … on own memory: exactly the effect of `deallocate_node`, and `true` -/
theorem C08_pool_try_dealloc_own (cfg : Cfg) (p : Pool) (a : Nat) (h : p.owns a = true)
    (hd : (p.deallocateNode cfg a).out = .done) :
    (p.tryDeallocateNode cfg a).out = .bool true ∧ (p.tryDeallocateNode cfg a).st = (p.deallocateNode cfg a).st := by
  simp [Pool.tryDeallocateNode, h, hd]

/-- `memory_pool_collection::try_deallocate_node/array` on foreign memory -/
theorem C08_coll_try_dealloc_foreign (cfg : Cfg) (c : Coll) (a size : Nat) (h : c.arena.owns a = false) :
    c.tryDeallocateNode cfg a size = ⟨c, .bool false, []⟩ ∧
    ∀ n, c.tryDeallocateArray cfg a n size = ⟨c, .bool false, []⟩ := by
  simp [Coll.tryDeallocateNode, Coll.tryDeallocateArray, h]

/-- **A fallback allocator sends every release to the sub-allocator that served the allocation, with the same call
shape** — any nesting depth, any mix of allocations served by defaults and fallbacks, arrays and nodes, both interfaces
(this is `C09_release_matches` read for `fallback_allocator`; the leaves' ownership answers are exact by the theorems
above). -/
theorem C08_fallback_routes_home (e : AExpr) (hd : C09.Distinct e) (t t' : Bool) (r : Req) (ans : List Bool) (c : LeafCall)
    (hc : c ∈ (route t e r ans).calls) (hok : c.ok = true) :
    (release t' e r c.leaf).2.1 = true ∧ ∀ c' ∈ (release t' e r c.leaf).1, c'.ok = true → c'.leaf = c.leaf ∧ c'.req = c.req := by
  obtain ⟨h1, h2⟩ := C09.C09_release_matches e hd t t' r ans c hc hok
  refine ⟨h1, ?_⟩
  intro c' hc' hok'
  have : c' ∈ (release t' e r c.leaf).1.filter (·.ok) := List.mem_filter.2 ⟨hc', by simpa using hok'⟩
  rw [h2] at this
  simp only [List.mem_singleton] at this
  subst this
  exact ⟨rfl, rfl⟩

/-! ### stacks: `try_deallocate_*` only answers the ownership question -/

/-- **`iteration_allocator`: memory of every iteration is recognised.** Whatever `allocate`/`try_allocate` hands out
in the current iteration lies inside the allocator's block, so `try_deallocate_node/array` (`block_.contains`) answers
`true` for every byte of it … -/
theorem C08_iter_recognises_own (cfg : Cfg) (it it' : Iter) (hI : it.Inv) (size k : Nat) (hk : k < 48) (hs : size < 2 ^ 64)
    (hf : cfg.fence ≤ 2 ^ 16) (p : Nat) (h : it.tryAllocate cfg size (2 ^ k) = (it', .ok p)) :
    ∀ q, p ≤ q → q < p + size → it'.contains q = true := by
  obtain ⟨_, _, h1, h2, _⟩ := C07.C07_alloc_in_region cfg it hI size k hk hs hf p it' h
  have hblk : it'.block = it.block := by
    unfold Iter.tryAllocate at h
    simp only at h
    split at h
    · simp at h
    · simp only [Prod.mk.injEq] at h; rw [← h.1]
  have hs0 := Iter.blockStart_mono it hI.geo (Nat.zero_le it.cur) (Nat.le_of_lt hI.cur)
  have he0 := Iter.blockStart_mono it hI.geo (show it.cur + 1 ≤ it.n from hI.cur) (Nat.le_refl _)
  rw [Iter.blockStart_zero it hI.geo] at hs0
  rw [Iter.blockStart_n it hI.geo] at he0
  intro q hq1 hq2
  unfold Iter.contains
  rw [hblk, decide_eq_true_eq]
  unfold Iter.blockEnd at h2
  omega

/-- … and it stays recognised through any number of `next_iteration()` calls (the block never changes), in
particular after the iteration counter has wrapped around -/
theorem C08_iter_contains_next (it : Iter) (p : Nat) : it.nextIteration.contains p = it.contains p := rfl

/-- memory outside the block — in particular the first byte after it, where a sibling allocator's block may start —
is never recognised -/
theorem C08_iter_foreign (it : Iter) (p : Nat) (h : p < it.block.base ∨ it.block.base + it.block.size ≤ p) :
    it.contains p = false := by
  unfold Iter.contains
  rw [decide_eq_false_iff_not]
  omega

/-- **`memory_stack`: every live allocation is recognised** (`try_deallocate_node/array` = `arena_.owns(ptr)`): at every
point of every history each byte of each allocation in the caller's ledger is owned. -/
theorem C08_stack_recognises_own (cfg : Cfg) (e : EnvS) (hf : cfg.fence ≤ 2 ^ 16) (s : MemStack) (hs : s.Inv)
    (hsrc : s.arena.src.NonStatic) (k : Nat) (ops : List SOp) (hw : SOpsWf ops)
    (hlen : s.arena.used.length + s.arena.cached.length + (runOps cfg e s k ops).acquired.length < 2 ^ 64)
    (henv : BlocksOk (s.arena.used ++ s.arena.cached ++ (runOps cfg e s k ops).acquired))
    (live : List (Nat × Nat)) (hq : SQ s.cur s.arena.used live) :
    ∀ a ∈ topLive cfg e s k live ops, ∀ q, a.1 ≤ q → q < a.1 + a.2 → (runOps cfg e s k ops).st.arena.owns q = true := by
  intro a ha q h1 h2
  obtain ⟨b, hb, hb1, hb2⟩ := (C01Stack.C01_stack_live_disjoint_inside cfg e hf s hs hsrc k ops hw hlen henv live hq).2 a ha
  apply C08_owns_inside _ b hb
  have : implOff = 16 := by decide
  simp only [Blk.usable]
  omega

/-- non-vacuity: two pools on adjacent upstream blocks; the boundary address belongs to the upper one only -/
example :
    let lower : Arena := { src := .fixed 0, isCached := false, used := [⟨4096, 1024⟩] }
    let upper : Arena := { src := .fixed 0, isCached := false, used := [⟨5120, 1024⟩] }
    lower.owns 5119 = true ∧ lower.owns 5120 = false ∧ upper.owns 5120 = false ∧ upper.owns (5120 + implOff) = true ∧
    upper.owns 5119 = false := by decide

end MemVerif.Props.C08
