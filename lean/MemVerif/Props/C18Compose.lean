import MemVerif.Props.C09
/-!
# C18 — reported maxima of compositions are true upper bounds

`fallback_allocator`, the wrappers (`aligned_allocator`, `tracked_allocator`) and the storages report `max_node_size()` /
`max_alignment()` computed from their parts (`Model.maxima`). The property says a request above the reported figure never
succeeds. That is inherited from the leaves: if every leaf refuses what lies above *its own* figures, then every composition
without a `binary_segregator`, of any depth, through both interfaces and for every behaviour of the leaves, refuses what lies
above the figures *it* reports. `binary_segregator` reports its fallback's figures only (documented: "it assumes that the
fallback will be used for larger allocations"), and the statement is false for it: counterexamples below (finding D35).
-/
namespace MemVerif.Props.C18Compose
open MemVerif.Model MemVerif.Props.C09

/-- a leaf call that was served respects the figures leaf `c.leaf` reports -/
def LeafHonest (lm : Nat → Maxima) (c : LeafCall) : Prop :=
  c.ok = true → (c.req.arr = false → c.req.size ≤ (lm c.leaf).node) ∧ c.req.align ≤ (lm c.leaf).align

instance (lm : Nat → Maxima) (c : LeafCall) : Decidable (LeafHonest lm c) := by unfold LeafHonest; infer_instance

theorem C18_compose_node_bound (lm : Nat → Maxima) (e : AExpr) :
    ∀ (t : Bool) (r : Req) (ans : List Bool), SegFree e → Req.WF r → r.arr = false →
      (∀ c ∈ (route t e r ans).calls, LeafHonest lm c) → (route t e r ans).ok = true →
      r.size ≤ (maxima lm e).node ∧ r.align ≤ (maxima lm e).align := by
  induction e with
  | leaf i ha =>
    intro t r ans _ _ harr hh hok
    simp only [route] at hh hok
    have hl : leafReq ha r = r := by simp [leafReq, harr]
    have h := hh _ (List.mem_singleton.mpr rfl) hok
    rw [hl] at h
    simp only [maxima]
    exact ⟨h.1 harr, h.2⟩
  | aligned m a ih =>
    intro t r ans hs hw harr hh hok
    simp only [route] at hh hok
    have h := ih t { r with align := max m r.align } ans hs (fun h => hw h) harr hh hok
    simp only [maxima]
    exact ⟨h.1, Nat.le_trans (Nat.le_max_right _ _) h.2⟩
  | tracked a ih =>
    intro t r ans hs hw harr hh hok
    simp only [route] at hh hok
    exact ih t r ans hs hw harr hh hok
  | fallback d f ihd ihf =>
    intro t r ans hs hw harr hh hok
    simp only [route] at hh hok
    simp only [maxima, Maxima.sup]
    by_cases hx : (route false d r ans).ok = true
    · simp only [hx, ↓reduceIte] at hh hok
      have h := ihd false r ans hs.1 hw harr hh hx
      exact ⟨Nat.le_trans h.1 (Nat.le_max_left _ _), Nat.le_trans h.2 (Nat.le_max_left _ _)⟩
    · simp only [hx] at hh hok
      have h := ihf t r (route false d r ans).rest hs.2 hw harr
        (fun c hc => hh c (List.mem_append.mpr (Or.inr hc))) hok
      exact ⟨Nat.le_trans h.1 (Nat.le_max_right _ _), Nat.le_trans h.2 (Nat.le_max_right _ _)⟩
  | segregator m s f _ _ => intro _ _ _ hs; exact absurd hs (by simp [SegFree])
  | storage a ih =>
    intro t r ans hs hw harr hh hok
    simp only [route] at hh hok
    exact ih t r ans hs hw harr hh hok
  | anyRef a ih =>
    intro t r ans hs hw harr hh hok
    simp only [route] at hh hok
    have hc : r.count = 1 := hw harr
    have hr : anyReq r = Req.node r.size r.align := by simp [anyReq, hc]
    rw [hr] at hh hok
    have h := ih t (Req.node r.size r.align) ans hs (fun _ => rfl) rfl hh hok
    exact h

/-- **Reported maxima are upper bounds** (contrapositive form the property uses): a node request whose size exceeds the
composition's `max_node_size()`, or whose alignment exceeds its `max_alignment()`, is never served. -/
theorem C18_compose_above_max_refused (lm : Nat → Maxima) (e : AExpr) (t : Bool) (r : Req) (ans : List Bool)
    (hs : SegFree e) (hw : Req.WF r) (harr : r.arr = false)
    (hh : ∀ c ∈ (route t e r ans).calls, LeafHonest lm c)
    (habove : (maxima lm e).node < r.size ∨ (maxima lm e).align < r.align) :
    (route t e r ans).ok = false := by
  cases hok : (route t e r ans).ok
  · rfl
  · have h := C18_compose_node_bound lm e t r ans hs hw harr hh hok
    omega

/-- served leaf calls respect the leaf's array figure too -/
def LeafHonestA (lm : Nat → Maxima) (c : LeafCall) : Prop :=
  c.ok = true → (c.req.arr = false → c.req.size ≤ (lm c.leaf).node) ∧ (c.req.arr = true → c.req.bytes ≤ (lm c.leaf).array)

theorem maxima_node_le_array (lm : Nat → Maxima) (h : ∀ i, (lm i).node ≤ (lm i).array) (e : AExpr) :
    (maxima lm e).node ≤ (maxima lm e).array := by
  induction e with
  | leaf i ha => simp only [maxima]; split <;> simp [h i]
  | aligned m a ih => exact ih
  | tracked a ih => exact ih
  | fallback d f ihd ihf => simp only [maxima, Maxima.sup]; omega
  | segregator m s f _ ihf => exact ihf
  | storage a ih => exact ih
  | anyRef a ih => exact ih

/-- **Array requests**: what a composition without a segregator serves is at most `max_array_size()` bytes (array request) or
`max_node_size()` bytes (node request), provided no leaf reports a smaller array figure than node figure (the type-erased
reference sends an array of one element down the node path). -/
theorem C18_compose_array_bound (lm : Nat → Maxima) (hna : ∀ i, (lm i).node ≤ (lm i).array) (e : AExpr) :
    ∀ (t : Bool) (r : Req) (ans : List Bool), SegFree e → Req.WF r →
      (∀ c ∈ (route t e r ans).calls, LeafHonestA lm c) → (route t e r ans).ok = true →
      (r.arr = false → r.size ≤ (maxima lm e).node) ∧ (r.arr = true → r.bytes ≤ (maxima lm e).array) := by
  induction e with
  | leaf i ha =>
    intro t r ans _ _ hh hok
    simp only [route] at hh hok
    have h := hh _ (List.mem_singleton.mpr rfl) hok
    simp only [maxima]
    cases harr : r.arr
    · have hl : leafReq ha r = r := by simp [leafReq, harr]
      rw [hl] at h
      exact ⟨fun _ => h.1 harr, fun hc => by simp at hc⟩
    · refine ⟨fun hc => by simp at hc, fun _ => ?_⟩
      cases ha
      · have hl : leafReq false r = Req.node (mul64 r.count r.size) r.align := by simp [leafReq, harr]
        rw [hl] at h
        have := h.1 rfl
        simpa [Req.bytes, harr, Req.node] using this
      · have hl : leafReq true r = r := by simp [leafReq]
        rw [hl] at h
        simpa using h.2 harr
  | aligned m a ih =>
    intro t r ans hs hw hh hok
    simp only [route] at hh hok
    have h := ih t { r with align := max m r.align } ans hs (fun h => hw h) hh hok
    simpa [maxima, Req.bytes] using h
  | tracked a ih =>
    intro t r ans hs hw hh hok
    simp only [route] at hh hok
    exact ih t r ans hs hw hh hok
  | fallback d f ihd ihf =>
    intro t r ans hs hw hh hok
    simp only [route] at hh hok
    simp only [maxima, Maxima.sup]
    by_cases hx : (route false d r ans).ok = true
    · simp only [hx, ↓reduceIte] at hh hok
      have h := ihd false r ans hs.1 hw hh hx
      exact ⟨fun hc => Nat.le_trans (h.1 hc) (Nat.le_max_left _ _), fun hc => Nat.le_trans (h.2 hc) (Nat.le_max_left _ _)⟩
    · simp only [hx] at hh hok
      have h := ihf t r (route false d r ans).rest hs.2 hw
        (fun c hc => hh c (List.mem_append.mpr (Or.inr hc))) hok
      exact ⟨fun hc => Nat.le_trans (h.1 hc) (Nat.le_max_right _ _), fun hc => Nat.le_trans (h.2 hc) (Nat.le_max_right _ _)⟩
  | segregator m s f _ _ => intro _ _ _ hs; exact absurd hs (by simp [SegFree])
  | storage a ih =>
    intro t r ans hs hw hh hok
    simp only [route] at hh hok
    exact ih t r ans hs hw hh hok
  | anyRef a ih =>
    intro t r ans hs hw hh hok
    simp only [route] at hh hok
    simp only [maxima]
    by_cases hc : r.count = 1
    · have hr : anyReq r = Req.node r.size r.align := by simp [anyReq, hc]
      rw [hr] at hh hok
      have h := (ih t (Req.node r.size r.align) ans hs (fun _ => rfl) hh hok).1 rfl
      have hle := maxima_node_le_array lm hna a
      refine ⟨fun _ => h, fun harr => ?_⟩
      have hb : r.bytes ≤ r.size := by
        simp only [Req.bytes, harr, hc, mul64, ↓reduceIte, BitVec.toNat_mul, BitVec.toNat_ofNat]
        exact Nat.le_trans (Nat.mod_le _ _) (by simp [Nat.mod_le])
      exact Nat.le_trans hb (Nat.le_trans h hle)
    · have harr : r.arr = true := by
        cases hh' : r.arr
        · exact absurd (hw hh') hc
        · rfl
      have hr : anyReq r = Req.array r.count r.size r.align := by simp [anyReq, hc]
      rw [hr] at hh hok
      have h := (ih t (Req.array r.count r.size r.align) ans hs (fun hc' => by simp [Req.array] at hc') hh hok).2 rfl
      refine ⟨fun hc' => by simp [harr] at hc', fun _ => ?_⟩
      simpa [Req.bytes, Req.array, harr] using h

/-- the reported figures are attained by a part: nothing larger than every leaf's figure is ever reported -/
theorem maxima_node_le_leaves (lm : Nat → Maxima) (B : Nat) (hB : ∀ i, (lm i).node ≤ B) (e : AExpr) : (maxima lm e).node ≤ B := by
  induction e with
  | leaf i ha => exact hB i
  | aligned m a ih => exact ih
  | tracked a ih => exact ih
  | fallback d f ihd ihf => simp only [maxima, Maxima.sup]; exact Nat.max_le.mpr ⟨ihd, ihf⟩
  | segregator m s f _ ihf => exact ihf
  | storage a ih => exact ih
  | anyRef a ih => exact ih

/-- non-vacuity: a two-level fallback over honest leaves, a request served by the second leaf -/
def exE : AExpr := .fallback (.fallback (.leaf 0 true) (.leaf 1 false)) (.leaf 2 true)
example : (route true exE (Req.node 60 8) [false, true]).ok = true ∧
    (∀ c ∈ (route true exE (Req.node 60 8) [false, true]).calls, LeafHonest harnessLeafMaxima c) ∧
    (maxima harnessLeafMaxima exE).node = 80 := by decide

/-- **Counterexample for `binary_segregator`** (finding D35): the segregatable part (leaf 0, honest: its own figure is 4096)
serves a request of 100 bytes, which lies above the figure 64 the segregator reports (its fallback's). -/
def segLm : Nat → Maxima := fun i => if i = 0 then ⟨4096, 4096, 16⟩ else ⟨64, 64, 16⟩
def segE : AExpr := .segregator 1024 (.leaf 0 true) (.leaf 1 true)
theorem C18_segregator_max_counterexample :
    (route true segE (Req.node 100 8) [true]).ok = true ∧
    (∀ c ∈ (route true segE (Req.node 100 8) [true]).calls, LeafHonest segLm c) ∧
    (maxima segLm segE).node = 64 ∧ 64 < 100 := by decide

end MemVerif.Props.C18Compose
