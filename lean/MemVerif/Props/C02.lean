import MemVerif.Lemmas.StackArith
import MemVerif.Lemmas.C07
import MemVerif.Lemmas.C06Base
/-!
# C02 — returned memory honours the requested size, count and alignment

Part 1: the bump-stack family (`fixed_memory_stack::allocate`, which is the allocation path of
`static_allocator`, `memory_stack::try_allocate`, `iteration_allocator::try_allocate`, the joint stack and the
pool collection's block carving). Alignments are *all* powers of two (over-aligned requests included), any fence size.
-/
namespace MemVerif.Props.C02
open MemVerif.Model

/-- A served request is aligned, preceded and followed by its fences, `size` bytes long, and stays inside `[cur, end]`. -/
theorem C02_stack_aligned_sized {cur end_ size k fence p c : Nat} (hk : k < 64)
    (hce : cur ≤ end_) (he : end_ < 2 ^ 64) (hs : size < 2 ^ 64) (hf : cur + fence + fence + 2 ^ k < 2 ^ 64)
    (h : fixedAllocate cur end_ size (2 ^ k) fence = some (p, c)) :
    p % 2 ^ k = 0 ∧ cur + fence ≤ p ∧ p < cur + fence + 2 ^ k ∧ c = p + size + fence ∧ c ≤ end_ :=
  fixedAllocate_spec hk hce he hs hf h

/-- A request that fits is served: null is returned only when the memory really is insufficient. -/
theorem C02_stack_no_spurious_null {cur end_ size k fence : Nat} (hk : k < 64) (hc0 : cur ≠ 0)
    (hce : cur ≤ end_) (he : end_ < 2 ^ 64) (hs : size < 2 ^ 64) (hf : cur + fence + fence + 2 ^ k < 2 ^ 64)
    (hfit : fence + alignOff (cur + fence) (2 ^ k) + size + fence ≤ end_ - cur) :
    ∃ p c, fixedAllocate cur end_ size (2 ^ k) fence = some (p, c) :=
  fixedAllocate_complete hk hc0 hce he hs hf hfit

/-- `static_allocator::allocate_node`: aligned, sized, inside the storage, and the top only moves up. -/
theorem C02_static_allocator (cfg : Cfg) (s s' : Static) (size k p : Nat) (hk : k < 64)
    (hce : s.cur ≤ s.end_) (he : s.end_ < 2 ^ 64) (hs : size < 2 ^ 64) (hf : s.cur + cfg.fence + cfg.fence + 2 ^ k < 2 ^ 64)
    (h : s.allocateNode cfg size (2 ^ k) = (s', .ok p)) :
    p % 2 ^ k = 0 ∧ s.cur ≤ p ∧ p + size ≤ s'.cur ∧ s'.cur ≤ s.end_ ∧ s'.end_ = s.end_ := by
  unfold Static.allocateNode at h
  split at h
  · simp at h
  · rename_i p' c hfa
    simp only [Prod.mk.injEq, Out.ok.injEq] at h
    obtain ⟨h1, h2⟩ := h
    subst h1 h2
    have := fixedAllocate_spec hk hce he hs hf hfa
    obtain ⟨a1, a2, _, a4, a5⟩ := this
    exact ⟨a1, by omega, by simp; omega, by simpa using a5, rfl⟩

/-- `static_allocator` signals exhaustion by `out_of_fixed_memory` and then leaves its state unchanged. -/
theorem C02_static_failure_unchanged (cfg : Cfg) (s s' : Static) (size align : Nat) (e : Exn)
    (h : s.allocateNode cfg size align = (s', .throws e)) : s' = s ∧ e = .oofm := by
  unfold Static.allocateNode at h
  split at h
  · simp only [Prod.mk.injEq, Out.throws.injEq] at h; exact ⟨h.1.symm, h.2.symm⟩
  · simp at h

/-! ### `memory_stack::allocate` (the growing path: current block, cached block or new block) -/

theorem arena_alloc_ok_head {a a' : Arena} {env env' : List (Option Nat)} {b : Blk} {ev : List UpEv}
    (h : a.allocateBlock env = .ok a' b ev env') : ∃ blk, a'.used = blk :: a.used ∧ b = blk.usable := by
  unfold Arena.allocateBlock at h
  split at h
  · simp only [ArenaRes.ok.injEq] at h
    obtain ⟨h1, h2, _⟩ := h
    subst h1
    exact ⟨_, rfl, h2.symm⟩
  · split at h
    · simp at h
    · simp at h
    · simp only [ArenaRes.ok.injEq] at h
      obtain ⟨h1, h2, _⟩ := h
      subst h1
      exact ⟨_, rfl, h2.symm⟩

theorem bumpPtr_aligned (cfg : Cfg) (cur k : Nat) (hk : k < 64) (h : cur + cfg.fence < 2 ^ 64) :
    bumpPtr cfg cur (2 ^ k) % 2 ^ k = 0 ∧ cur + cfg.fence ≤ bumpPtr cfg cur (2 ^ k) ∧
      bumpPtr cfg cur (2 ^ k) < cur + cfg.fence + 2 ^ k := by
  have := alignOff_spec (cur + cfg.fence) k hk h
  unfold bumpPtr
  exact ⟨this.1, by omega, by omega⟩

/-- **`memory_stack::allocate` returns aligned memory** (every state, every outcome of growth, every power-of-two
alignment): the address is a multiple of the alignment, and it is the *least* such address behind the front fence
(no padding beyond `alignment - 1` bytes). -/
theorem C02_memory_stack_allocate_aligned (cfg : Cfg) (s s' : MemStack) (size k p : Nat) (env : List (Option Nat))
    (ev : List UpEv) (hk : k < 64) (hcur : s.cur + cfg.fence < 2 ^ 64)
    (hblk : ∀ b ∈ s'.arena.used, b.base + implOff + cfg.fence < 2 ^ 64)
    (h : s.allocate cfg size (2 ^ k) env = (s', .ok p, ev)) : p % 2 ^ k = 0 := by
  rw [allocate_eq] at h
  split at h
  · simp at h
  · simp only [Prod.mk.injEq, Out.ok.injEq] at h
    rw [← h.2.1]
    exact (bumpPtr_aligned cfg s.cur k hk hcur).1
  · split at h
    · simp at h
    · simp at h
    · rename_i a b ev' env' hab
      simp only [Prod.mk.injEq] at h
      obtain ⟨hs', hout, _⟩ := h
      unfold finishOut at hout
      split at hout
      · simp at hout
      · simp only [Out.ok.injEq] at hout
        rw [← hout]
        refine (bumpPtr_aligned cfg b.base k hk ?_).1
        obtain ⟨blk, hu, hb⟩ := arena_alloc_ok_head hab
        have := hblk blk (by rw [← hs']; simp only; rw [hu]; exact List.mem_cons_self)
        rw [hb]
        simpa only [Blk.usable] using this

end MemVerif.Props.C02
