import MemVerif.Lemmas.StackArith
import MemVerif.Lemmas.C07
/-!
# C02 — returned memory honours the requested size, count and alignment

Part 1: the bump-stack family (`fixed_memory_stack::allocate`, which is the allocation path of
`static_allocator`, `memory_stack::try_allocate`, `iteration_allocator::try_allocate`, the joint stack and the
pool collection's block carving). Alignments are *all* powers of two (over-aligned requests included), any fence size.
-/
namespace MemVerif.Props.C02
open MemVerif.Model

/-- A served request is aligned, preceded and followed by its fences, `size` bytes long, and stays inside `[cur, end]`. -/
theorem C02_stack_aligned_sized {cur end_ size k fence p c : Nat} (hk : k < 64)
    (hce : cur ≤ end_) (he : end_ < 2 ^ 64) (hs : size < 2 ^ 64) (hf : cur + fence + fence + 2 ^ k < 2 ^ 64)
    (h : fixedAllocate cur end_ size (2 ^ k) fence = some (p, c)) :
    p % 2 ^ k = 0 ∧ cur + fence ≤ p ∧ p < cur + fence + 2 ^ k ∧ c = p + size + fence ∧ c ≤ end_ :=
  fixedAllocate_spec hk hce he hs hf h

/-- A request that fits is served: null is returned only when the memory really is insufficient. -/
theorem C02_stack_no_spurious_null {cur end_ size k fence : Nat} (hk : k < 64) (hc0 : cur ≠ 0)
    (hce : cur ≤ end_) (he : end_ < 2 ^ 64) (hs : size < 2 ^ 64) (hf : cur + fence + fence + 2 ^ k < 2 ^ 64)
    (hfit : fence + alignOff (cur + fence) (2 ^ k) + size + fence ≤ end_ - cur) :
    ∃ p c, fixedAllocate cur end_ size (2 ^ k) fence = some (p, c) :=
  fixedAllocate_complete hk hc0 hce he hs hf hfit

/-- `static_allocator::allocate_node`: aligned, sized, inside the storage, and the top only moves up. -/
theorem C02_static_allocator (cfg : Cfg) (s s' : Static) (size k p : Nat) (hk : k < 64)
    (hce : s.cur ≤ s.end_) (he : s.end_ < 2 ^ 64) (hs : size < 2 ^ 64) (hf : s.cur + cfg.fence + cfg.fence + 2 ^ k < 2 ^ 64)
    (h : s.allocateNode cfg size (2 ^ k) = (s', .ok p)) :
    p % 2 ^ k = 0 ∧ s.cur ≤ p ∧ p + size ≤ s'.cur ∧ s'.cur ≤ s.end_ ∧ s'.end_ = s.end_ := by
  unfold Static.allocateNode at h
  split at h
  · simp at h
  · rename_i p' c hfa
    simp only [Prod.mk.injEq, Out.ok.injEq] at h
    obtain ⟨h1, h2⟩ := h
    subst h1 h2
    have := fixedAllocate_spec hk hce he hs hf hfa
    obtain ⟨a1, a2, _, a4, a5⟩ := this
    exact ⟨a1, by omega, by simp; omega, by simpa using a5, rfl⟩

/-- `static_allocator` signals exhaustion by `out_of_fixed_memory` and then leaves its state unchanged. -/
theorem C02_static_failure_unchanged (cfg : Cfg) (s s' : Static) (size align : Nat) (e : Exn)
    (h : s.allocateNode cfg size align = (s', .throws e)) : s' = s ∧ e = .oofm := by
  unfold Static.allocateNode at h
  split at h
  · simp only [Prod.mk.injEq, Out.throws.injEq] at h; exact ⟨h.1.symm, h.2.symm⟩
  · simp at h

end MemVerif.Props.C02
