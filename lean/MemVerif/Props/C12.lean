import MemVerif.Model.Pool
import MemVerif.Lemmas.C05
/-!
# C12 — moving an allocator transfers all its memory; the moved-from object is harmless

The move operations of the models: the destination receives the complete state (blocks, free nodes, top pointer, leak
count), the source becomes the documented empty state, and destroying the source makes no upstream call and reports
no leak. That every later operation on the destination behaves as it would have on the source is then immediate
(the destination *is* the source state); the re-linking of the intrusive sentinels is covered by the correspondence
(state dumps after every move walk the real links).
-/
namespace MemVerif.Props.C12
open MemVerif.Model

/-- memory_stack: the new owner has exactly the old state; the moved-from stack is empty -/
theorem C12_stack_move (s : MemStack) : (s.moveOut).1 = s ∧ (s.moveOut).2.arena.used = [] ∧
    (s.moveOut).2.arena.cached = [] ∧ (s.moveOut).2.cur = 0 ∧ (s.moveOut).2.leak = 0 := ⟨rfl, rfl, rfl, rfl, rfl⟩

/-- destroying a moved-from memory_stack: no upstream call, no leak report, in every configuration -/
theorem C12_stack_moved_from_inert (cfg : Cfg) (s : MemStack) :
    ((s.moveOut).2.destroy cfg).2.1 = [] ∧ ((s.moveOut).2.destroy cfg).2.2 = none := by
  refine ⟨?_, ?_⟩
  · exact moved_from_inert cfg s.arena
  · simp [MemStack.destroy, MemStack.moveOut]

/-- destroying a moved-from arena makes no upstream call (growing, fixed and static sources; cached or not) -/
theorem C12_arena_moved_from_inert (cfg : Cfg) (a : Arena) : (a.movedFrom.destroy cfg).2.1 = [] :=
  moved_from_inert cfg a

/-- iteration_allocator: the moved-from object (`cur_ == N`) does not return its block a second time -/
theorem C12_iter_moved_from_inert (cfg : Cfg) (it : Iter) : (it.movedFrom.destroy cfg).2 = [] := by
  simp [Iter.destroy, Iter.movedFrom]

/-- and the live one returns it exactly once (a second destruction is inert) -/
theorem C12_iter_destroy_once (cfg : Cfg) (it : Iter) : ((it.destroy cfg).1.destroy cfg).2 = [] := by
  unfold Iter.destroy
  split
  · simp
  · rename_i h; simp [h]

/-- ordered free list: the move hands over every node and the capacity, re-bases the proxies, resets the cursor to
the front; the source is left without nodes -/
theorem C12_ordlist_move (l : OrdList) (B' E' : Nat) :
    (l.moveTo B' E').1.nodes = l.nodes ∧ (l.moveTo B' E').1.cap = l.cap ∧ (l.moveTo B' E').1.ns = l.ns ∧
      (l.moveTo B' E').1.B = B' ∧ (l.moveTo B' E').1.E = E' ∧ (l.moveTo B' E').1.ldp = B' ∧
      (l.moveTo B' E').2.nodes = [] ∧ (l.moveTo B' E').2.cap = 0 := ⟨rfl, rfl, rfl, rfl, rfl, rfl, rfl, rfl⟩

/-- the cursor of the moved-to list is a valid adjacent pair (begin proxy, first node or end proxy) -/
theorem C12_ordlist_move_cursor (l : OrdList) (B' E' : Nat) (hBE : B' ≠ E') (hB : B' ∉ l.nodes) (hE : E' ∉ l.nodes) :
    (l.moveTo B' E').1.posOf (l.moveTo B' E').1.ldp = some 0 ∧ (l.moveTo B' E').1.posOf (l.moveTo B' E').1.ld = some 1 := by
  constructor
  · simp [OrdList.moveTo, OrdList.posOf]
  · cases hn : l.nodes with
    | nil => simp [OrdList.moveTo, OrdList.posOf, hn, Ne.symm hBE]
    | cons x xs =>
      have hxB : x ≠ B' := by intro h; apply hB; rw [hn, h]; exact List.mem_cons_self
      have hxE : x ≠ E' := by intro h; apply hE; rw [hn, h]; exact List.mem_cons_self
      simp [OrdList.moveTo, OrdList.posOf, hn, hxB, hxE, List.idxOf?]
      simp [List.findIdx?_cons]

end MemVerif.Props.C12
