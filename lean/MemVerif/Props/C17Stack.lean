import MemVerif.Model.StackFill
import MemVerif.Lemmas.C01Stack
/-!
C17, stack family (`memory_stack`, `iteration_allocator`, everything built on `detail::fixed_memory_stack`): **which bytes
an operation writes and with what**.

* `C17_stack_alloc_pattern`: the writes of `allocate_unchecked` leave `[fence | padding | new memory | fence]` with the
  four debug patterns and touch nothing below the old top or at / above the new top.
* `C17_stack_allocate_writes` / `_failure_writes_nothing`: `memory_stack::allocate` writes exactly one such footprint —
  starting at the old top, or at the start of the block it grew into — ending at the new top; a request that fails
  writes nothing. Same for `try_allocate` (`C17_stack_try_allocate_writes`).
* `C17_stack_allocate_frame`: hence memory handed out earlier (it lies below the old top of its block: C01) is untouched
  and the returned bytes carry `new_memory`.
* `C17_stack_unwind_writes`: `unwind(m)` writes `freed_memory` from the marker's top upwards only; nothing below the
  marker — the allocations that stay live — is touched.
* `C17_iter_next_writes`: `next_iteration` marks exactly the used part of the region it switches to.
* without `FOONATHAN_MEMORY_DEBUG_FILL` no operation writes anything (`C17_stack_nofill`).

The model functions (`Model/StackFill.lean`) are compared with the bytes the real code leaves in the footprint after every
operation of the stack and iteration subjects (`w=` field of the state dump).
-/
namespace MemVerif.Props.C17Stack
open MemVerif.Model MemVerif.Gen

theorem fill_in (m : Bytes) {off len v i : Nat} (h1 : off ≤ i) (h2 : i < off + len) : fill m off len v i = v := by
  unfold fill; simp [h1, h2]

theorem fill_out (m : Bytes) {off len v i : Nat} (h : i < off ∨ off + len ≤ i) : fill m off len v i = m i := by
  unfold fill
  have : ¬ (off ≤ i ∧ i < off + len) := by omega
  simp [this]

/-- **the footprint of one allocation**: patterns inside, nothing outside -/
theorem C17_stack_alloc_pattern (m : Bytes) (cur size offset fence : Nat) :
    let m' := applyFills m (allocFills cur size offset fence)
    (∀ i, cur ≤ i → i < cur + fence → m' i = magicFence) ∧
    (∀ i, cur + fence ≤ i → i < cur + fence + offset → m' i = magicAlign) ∧
    (∀ i, cur + fence + offset ≤ i → i < cur + fence + offset + size → m' i = magicNew) ∧
    (∀ i, cur + fence + offset + size ≤ i → i < cur + fence + offset + size + fence → m' i = magicFence) ∧
    (∀ i, i < cur ∨ cur + fence + offset + size + fence ≤ i → m' i = m i) := by
  intro m'
  have hm' : m' = fill (fill (fill (fill m cur fence magicFence) (cur + fence) offset magicAlign) (cur + fence + offset) size magicNew)
      (cur + fence + offset + size) fence magicFence := rfl
  refine ⟨?_, ?_, ?_, ?_, ?_⟩ <;> intro i
  · intro h1 h2
    rw [hm', fill_out _ (by omega), fill_out _ (by omega), fill_out _ (by omega), fill_in _ h1 h2]
  · intro h1 h2
    rw [hm', fill_out _ (by omega), fill_out _ (by omega), fill_in _ h1 h2]
  · intro h1 h2
    rw [hm', fill_out _ (by omega), fill_in _ h1 h2]
  · intro h1 h2
    rw [hm', fill_in _ h1 h2]
  · intro h
    rw [hm', fill_out _ (by omega), fill_out _ (by omega), fill_out _ (by omega), fill_out _ (by omega)]

/-- **`memory_stack::allocate` writes exactly one footprint** that ends at the new top and starts at the old top or at
the start of the block the stack grew into -/
theorem C17_stack_allocate_writes (cfg : Cfg) (s : MemStack) (size align : Nat) (env : List (Option Nat)) (hfill : cfg.fill = true)
    {p : Nat} (hout : (s.allocate cfg size align env).2.1 = .ok p) :
    ∃ start off, s.allocateFills cfg size align env = allocFills start size off cfg.fence ∧
      start + cfg.fence + off = p ∧ p + size + cfg.fence = (s.allocate cfg size align env).1.cur ∧
      (start = s.cur ∨ ∃ a b ev r, s.arena.allocateBlock env = .ok a b ev r ∧ start = b.base) := by
  unfold MemStack.allocate at hout ⊢
  unfold MemStack.allocateFills
  simp only [hfill, Bool.not_true, Bool.false_eq_true, if_false] at hout ⊢
  generalize hng : (if s.cur = 0 then some true
      else match s.blockEnd with
        | none => none
        | some e => some (!fits cfg.fence (alignOff (s.cur + cfg.fence) align) size (sub64 e s.cur))) = ng at hout ⊢
  cases ng with
  | none => simp at hout
  | some g =>
    cases g with
    | false =>
      simp only [allocUnchecked] at hout ⊢
      cases hout
      exact ⟨s.cur, _, rfl, rfl, rfl, Or.inl rfl⟩
    | true =>
      simp only at hout ⊢
      cases ha : s.arena.allocateBlock env with
      | envMissing => simp [ha] at hout
      | fail a e ev r => simp [ha] at hout
      | ok a b ev r =>
        simp only [ha] at hout ⊢
        by_cases hn : neededSat cfg.fence (alignOff (b.base + cfg.fence) align) size > b.size
        · simp [hn] at hout
        · simp only [hn, if_false, allocUnchecked] at hout ⊢
          cases hout
          exact ⟨b.base, _, rfl, rfl, rfl, Or.inr ⟨a, b, ev, r, rfl, rfl⟩⟩

/-- **a failed `memory_stack::allocate` writes nothing** -/
theorem C17_stack_failure_writes_nothing (cfg : Cfg) (s : MemStack) (size align : Nat) (env : List (Option Nat))
    (hout : ∀ p, (s.allocate cfg size align env).2.1 ≠ .ok p) : s.allocateFills cfg size align env = [] := by
  unfold MemStack.allocate at hout
  unfold MemStack.allocateFills
  by_cases hfill : cfg.fill
  · simp only [hfill, Bool.not_true, Bool.false_eq_true, if_false] at hout ⊢
    generalize hng : (if s.cur = 0 then some true
        else match s.blockEnd with
          | none => none
          | some e => some (!fits cfg.fence (alignOff (s.cur + cfg.fence) align) size (sub64 e s.cur))) = ng at hout ⊢
    cases ng with
    | none => rfl
    | some g =>
      cases g with
      | false => exact absurd rfl (hout _)
      | true =>
        simp only at hout ⊢
        cases ha : s.arena.allocateBlock env with
        | envMissing => rfl
        | fail a e ev r => rfl
        | ok a b ev r =>
          simp only [ha] at hout ⊢
          by_cases hn : neededSat cfg.fence (alignOff (b.base + cfg.fence) align) size > b.size
          · simp [hn]
          · simp only [hn, if_false, allocUnchecked] at hout
            exact absurd rfl (hout _)
  · simp [hfill]

/-- **frame and pattern of a successful allocation**: the returned bytes carry `new_memory`, the fences before and
after it `fence_memory`, and no byte below the footprint's start — the old top, or the start of the block the stack grew
into — or at / above the new top changes -/
theorem C17_stack_allocate_frame (cfg : Cfg) (s : MemStack) (size align : Nat) (env : List (Option Nat)) (hfill : cfg.fill = true)
    {p : Nat} (hout : (s.allocate cfg size align env).2.1 = .ok p) (m : Bytes) :
    let m' := applyFills m (s.allocateFills cfg size align env)
    ∃ start, (start = s.cur ∨ ∃ a b ev r, s.arena.allocateBlock env = .ok a b ev r ∧ start = b.base) ∧
      start + cfg.fence ≤ p ∧
      (∀ i, start ≤ i → i < start + cfg.fence → m' i = magicFence) ∧
      (∀ i, start + cfg.fence ≤ i → i < p → m' i = magicAlign) ∧
      (∀ i, p ≤ i → i < p + size → m' i = magicNew) ∧
      (∀ i, p + size ≤ i → i < p + size + cfg.fence → m' i = magicFence) ∧
      (∀ i, i < start → m' i = m i) ∧
      (∀ i, (s.allocate cfg size align env).1.cur ≤ i → m' i = m i) := by
  intro m'
  obtain ⟨start, off, hf, h1, h2, h3⟩ := C17_stack_allocate_writes cfg s size align env hfill hout
  obtain ⟨q1, q2, q3, q4, q5⟩ := C17_stack_alloc_pattern m start size off cfg.fence
  have hm' : m' = applyFills m (allocFills start size off cfg.fence) := by show applyFills m _ = _; rw [hf]
  refine ⟨start, h3, by omega, ?_, ?_, ?_, ?_, ?_, ?_⟩
  · intro i a b; rw [hm']; exact q1 i a b
  · intro i a b; rw [hm']; exact q2 i a (by omega)
  · intro i a b; rw [hm']; exact q3 i (by omega) (by omega)
  · intro i a b; rw [hm']; exact q4 i (by omega) (by omega)
  · intro i a; rw [hm']; exact q5 i (Or.inl a)
  · intro i a; rw [hm']; exact q5 i (Or.inr (by omega))

/-- … and when the stack grew, the whole footprint lies inside the block it grew into -/
theorem C17_stack_allocate_in_block (cfg : Cfg) (s : MemStack) (size align : Nat) (env : List (Option Nat)) (hfill : cfg.fill = true)
    (hf : cfg.fence ≤ 2 ^ 16) {k : Nat} (hk : k < 48) (hal : align = 2 ^ k) (hsz : size < 2 ^ 64)
    {p : Nat} (hout : (s.allocate cfg size align env).2.1 = .ok p) {a : Arena} {b : Blk} {ev : List UpEv} {r : List (Option Nat)}
    (ha : s.arena.allocateBlock env = .ok a b ev r) (hb : b.base + b.size ≤ 2 ^ 62) (hgrow : (s.allocate cfg size align env).1.arena = a) :
    s.allocateFills cfg size align env = allocFills s.cur size (alignOff (s.cur + cfg.fence) align) cfg.fence ∨
    (b.base + cfg.fence ≤ p ∧ (s.allocate cfg size align env).1.cur ≤ b.base + b.size) := by
  unfold MemStack.allocate at hout hgrow ⊢
  unfold MemStack.allocateFills
  simp only [hfill, Bool.not_true, Bool.false_eq_true, if_false] at hout hgrow ⊢
  generalize hng : (if s.cur = 0 then some true
      else match s.blockEnd with
        | none => none
        | some e => some (!fits cfg.fence (alignOff (s.cur + cfg.fence) align) size (sub64 e s.cur))) = ng at hout hgrow ⊢
  cases ng with
  | none => simp at hout
  | some g =>
    cases g with
    | false => left; rfl
    | true =>
      right
      simp only [ha] at hout hgrow ⊢
      by_cases hn : neededSat cfg.fence (alignOff (b.base + cfg.fence) align) size > b.size
      · simp [hn] at hout
      · simp only [hn, if_false, allocUnchecked] at hout ⊢
        cases hout
        have hoff : alignOff (b.base + cfg.fence) align < 2 ^ 48 := by
          rw [hal]
          have := alignOff_lt (addr := b.base + cfg.fence) (k := k) (by omega) (by omega)
          calc alignOff (b.base + cfg.fence) (2 ^ k) < 2 ^ k := this
            _ ≤ 2 ^ 48 := Nat.pow_le_pow_right (by omega) (by omega)
        have := neededSat_le hf hoff hsz (by omega) hn
        constructor <;> omega

/-- `try_allocate`: one footprint at the old top, or nothing -/
theorem C17_stack_try_allocate_writes (cfg : Cfg) (s : MemStack) (size align : Nat) (hfill : cfg.fill = true) :
    (∀ p, (s.tryAllocate cfg size align).2 = .ok p →
      s.tryAllocateFills cfg size align = allocFills s.cur size (alignOff (s.cur + cfg.fence) align) cfg.fence ∧
      s.cur + cfg.fence + alignOff (s.cur + cfg.fence) align = p ∧ p + size + cfg.fence = (s.tryAllocate cfg size align).1.cur) ∧
    ((∀ p, (s.tryAllocate cfg size align).2 ≠ .ok p) → s.tryAllocateFills cfg size align = []) := by
  unfold MemStack.tryAllocate MemStack.tryAllocateFills fixedAllocateFills
  simp only [hfill, Bool.not_true, Bool.false_eq_true, if_false]
  cases hbe : s.blockEnd with
  | none => simp
  | some e =>
    simp only
    cases hfa : fixedAllocate s.cur e size align cfg.fence with
    | none => simp
    | some pc =>
      obtain ⟨p, c⟩ := pc
      simp only
      unfold fixedAllocate at hfa
      simp only at hfa
      split at hfa
      · cases hfa
      · split at hfa
        · cases hfa
        · simp only [Option.some.injEq, Prod.mk.injEq] at hfa
          obtain ⟨rfl, rfl⟩ := hfa
          constructor
          · intro p hp
            cases hp
            refine ⟨?_, ?_, ?_⟩ <;> first | rfl | trivial
          · intro h; exact absurd rfl (h _)

/-- **`unwind(m)` writes `freed_memory` from the marker's top upwards and nothing else**: every byte below the marker —
the allocations that stay live — keeps its value; a rejected unwind writes nothing -/
theorem C17_stack_unwind_writes (cfg : Cfg) (s : MemStack) (mk : Marker) (m : Bytes) :
    let m' := applyFills m (s.unwindFills cfg mk)
    (∀ i, i < mk.top → m' i = m i) ∧
    ((s.unwindEv cfg mk).2.1 ≠ .done → s.unwindFills cfg mk = []) ∧
    ((s.unwindEv cfg mk).2.1 = .done → cfg.fill = true → sub64 (s.arena.used.length - 1) mk.index = 0 →
      (∀ i, mk.top ≤ i → i < s.cur → m' i = magicFreed) ∧ (∀ i, s.cur ≤ i → mk.top ≤ s.cur → m' i = m i)) ∧
    ((s.unwindEv cfg mk).2.1 = .done → cfg.fill = true → sub64 (s.arena.used.length - 1) mk.index ≠ 0 →
      (∀ i, mk.top ≤ i → i < mk.end_ → m' i = magicFreed) ∧ (∀ i, mk.end_ ≤ i → mk.top ≤ mk.end_ → m' i = m i)) := by
  intro m'
  have hm' : m' = applyFills m (s.unwindFills cfg mk) := rfl
  unfold MemStack.unwindFills at hm' ⊢
  by_cases hfill : cfg.fill
  · simp only [hfill, Bool.not_true, Bool.false_eq_true, if_false] at hm' ⊢
    cases hout : (s.unwindEv cfg mk).2.1 with
    | done =>
      simp only [hout] at hm'
      by_cases hk : sub64 (s.arena.used.length - 1) mk.index = 0
      · simp only [hk, ne_eq, not_true_eq_false, if_false] at hm'
        have e : m' = fill m mk.top (s.cur - mk.top) magicFreed := hm'
        refine ⟨?_, ?_, ?_, ?_⟩
        · intro i hi; rw [e]; exact fill_out _ (Or.inl hi)
        · intro h; exact absurd rfl h
        · intro _ _ _
          refine ⟨?_, ?_⟩
          · intro i a b; rw [e]; exact fill_in _ a (by omega)
          · intro i a b; rw [e]; exact fill_out _ (Or.inr (by omega))
        · intro _ _ h; exact absurd hk h
      · simp only [hk, ne_eq, not_false_eq_true, if_true] at hm'
        have e : m' = fill m mk.top (mk.end_ - mk.top) magicFreed := hm'
        refine ⟨?_, ?_, ?_, ?_⟩
        · intro i hi; rw [e]; exact fill_out _ (Or.inl hi)
        · intro h; exact absurd rfl h
        · intro _ _ h; exact absurd h hk
        · intro _ _ _
          refine ⟨?_, ?_⟩
          · intro i a b; rw [e]; exact fill_in _ a (by omega)
          · intro i a b; rw [e]; exact fill_out _ (Or.inr (by omega))
    | _ =>
      simp only [hout] at hm'
      refine ⟨?_, ?_, ?_, ?_⟩
      · intro i _; rw [hm']; rfl
      · intro _; rfl
      · intro h; cases h
      · intro h; cases h
  · have hff : cfg.fill = false := by simpa using hfill
    simp only [hff, Bool.not_false, if_true] at hm' ⊢
    refine ⟨?_, ?_, ?_, ?_⟩
    · intro i _; rw [hm']; rfl
    · intro _; trivial
    · intro _ h; cases h
    · intro _ h; cases h

/-- **`next_iteration` marks exactly the used part of the region it switches to** -/
theorem C17_iter_next_writes (cfg : Cfg) (it : Iter) (hfill : cfg.fill = true) (m : Bytes) :
    let c := (it.cur + 1) % it.n
    let m' := applyFills m (it.nextIterationFills cfg)
    (∀ i, it.blockStart c ≤ i → i < it.tops.getD c 0 → m' i = magicFreed) ∧
    (∀ i, i < it.blockStart c ∨ (it.tops.getD c 0 ≤ i ∧ it.blockStart c ≤ it.tops.getD c 0) → m' i = m i) := by
  intro c m'
  have e : m' = fill m (it.blockStart c) (it.tops.getD c 0 - it.blockStart c) magicFreed := by
    show applyFills m (it.nextIterationFills cfg) = _
    unfold Iter.nextIterationFills
    simp [hfill, applyFills, applyFill, c]
  constructor
  · intro i a b; rw [e]; exact fill_in _ a (by omega)
  · intro i h; rw [e]; exact fill_out _ (by omega)

/-- `iteration_allocator::allocate` writes one footprint at the current stack's top, or nothing when it throws -/
theorem C17_iter_allocate_writes (cfg : Cfg) (it : Iter) (size align : Nat) (hfill : cfg.fill = true) :
    (∀ p, (it.allocate cfg size align).2 = .ok p →
      it.allocateFills cfg size align = allocFills (it.tops.getD it.cur 0) size (alignOff (it.tops.getD it.cur 0 + cfg.fence) align) cfg.fence ∧
      it.tops.getD it.cur 0 + cfg.fence + alignOff (it.tops.getD it.cur 0 + cfg.fence) align = p) ∧
    ((∀ p, (it.allocate cfg size align).2 ≠ .ok p) → it.allocateFills cfg size align = []) := by
  unfold Iter.allocate Iter.allocateFills
  simp only [hfill, Bool.not_true, Bool.false_eq_true, if_false]
  split
  · simp
  · simp only [allocUnchecked]
    constructor
    · intro p hp; cases hp; refine ⟨?_, ?_⟩ <;> first | rfl | trivial
    · intro h; exact absurd rfl (h _)

/-- **without `FOONATHAN_MEMORY_DEBUG_FILL` nothing is written** -/
theorem C17_stack_nofill (cfg : Cfg) (hfill : cfg.fill = false) (s : MemStack) (it : Iter) (size align : Nat) (env : List (Option Nat))
    (mk : Marker) :
    s.allocateFills cfg size align env = [] ∧ s.tryAllocateFills cfg size align = [] ∧ s.unwindFills cfg mk = [] ∧
    it.allocateFills cfg size align = [] ∧ it.tryAllocateFills cfg size align = [] ∧ it.nextIterationFills cfg = [] := by
  unfold MemStack.allocateFills MemStack.tryAllocateFills MemStack.unwindFills Iter.allocateFills Iter.tryAllocateFills
    Iter.nextIterationFills
  simp [hfill]

/-- the run-length text of a footprint (a test, labelled as a test) -/
example : fillsStr (allocFills 1000 24 3 8) = " w=1000:fd*8,ed*3,cd*24,fd*8" := by decide
example : fillsStr (allocFills 1000 24 0 0) = " w=1000:cd*24" := by decide
example : fillsStr [] = " w=-" := by decide

end MemVerif.Props.C17Stack
