import MemVerif.Lemmas.C07
/-!
# C07 — iteration allocator: memory lives exactly N iterations; regions are disjoint

Model: `MemVerif.Model.Iter` (Stack.lean): `block`, `tops[i]`, `cur`; `blockStart i = base + i*size/N` exactly as the
source computes it (in `size_t`). Statements hold for every `N ≥ 1` and **every** block size (in particular
`size mod N ≠ 0`), every configuration, every operation history.
-/
namespace MemVerif.Props.C07
open MemVerif.Model

/-- The `N` regions tile the block: they start at the block's base, end at its end, and are ordered. -/
theorem C07_regions_partition (it : Iter) (g : it.Geo) :
    it.blockStart 0 = it.block.base ∧ it.blockStart it.n = it.block.base + it.block.size ∧
      (∀ i j, i < j → j < it.n → it.blockEnd i ≤ it.blockStart j) ∧
      (∀ i, i < it.n → it.block.base ≤ it.blockStart i ∧ it.blockStart i ≤ it.blockEnd i ∧
        it.blockEnd i ≤ it.block.base + it.block.size) :=
  ⟨it.blockStart_zero g, it.blockStart_n g, fun _ _ hij hj => it.regions_disjoint g hij hj,
   fun i hi => ⟨(it.region_inside g hi).1, it.blockStart_mono g (Nat.le_succ i) (by omega), (it.region_inside g hi).2⟩⟩

/-- The constructor establishes the invariant "every stack's top lies in its own region"
(this is the statement that was false before the D4 repair: stacks started at `i * (size / N)`). -/
theorem C07_create_inv (n : Nat) (src : Src) (env : List (Option Nat)) (it : Iter) (ev : List UpEv)
    (h : Iter.create n src env = (some it, .done, ev)) (g : it.Geo) : it.Inv ∧ it.cur = 0 ∧
      ∀ i, i < it.n → it.tops.getD i 0 = it.blockStart i := by
  unfold Iter.create at h
  split at h <;> try (simp at h)
  rename_i s b ev' env' _
  obtain ⟨h1, h2⟩ := h
  subst h1
  have hget : ∀ i, i < n → ((List.range n).map (Iter.blockStart { n := n, src := s, block := b, tops := [], cur := 0 })).getD i 0
      = Iter.blockStart { n := n, src := s, block := b, tops := [], cur := 0 } i := by
    intro i hi
    simp [List.getD, hi]
  refine ⟨⟨g, by simp, g.npos, ?_⟩, rfl, ?_⟩
  · intro i hi
    have := hget i hi
    constructor
    · show Iter.blockStart _ i ≤ _
      simp only [Iter.blockStart] at this ⊢
      omega
    · have hm := Iter.blockStart_mono _ g (Nat.le_succ i) (show i + 1 ≤ n from hi)
      simp only [Iter.blockStart, Iter.blockEnd, Nat.succ_eq_add_one] at this hm ⊢
      omega
  · intro i hi
    have := hget i hi
    simp only [Iter.blockStart] at this ⊢
    exact this

/-- Every successful allocation lies inside the region of the current iteration, aligned, with its fences,
and does not touch the stacks of other iterations (for `allocate` and `try_allocate` alike). -/
theorem C07_alloc_in_region (cfg : Cfg) (it : Iter) (hI : it.Inv) (size k : Nat) (hk : k < 48) (hs : size < 2 ^ 64)
    (hf : cfg.fence ≤ 2 ^ 16) (p : Nat) (it' : Iter)
    (h : it.tryAllocate cfg size (2 ^ k) = (it', .ok p)) :
    it'.Inv ∧ p % 2 ^ k = 0 ∧ it.blockStart it.cur ≤ p ∧ p + size ≤ it.blockEnd it.cur ∧
      (∀ j, j ≠ it.cur → it'.tops.getD j 0 = it.tops.getD j 0) := by
  unfold Iter.tryAllocate at h
  simp only at h
  split at h
  · simp at h
  · rename_i p' c hfa
    simp only [Prod.mk.injEq, Out.ok.injEq] at h
    obtain ⟨h1, h2⟩ := h
    subst h1 h2
    have := Iter.alloc_step cfg it hI size k hk hs hf p' c hfa
    obtain ⟨a1, a2, a3, a4, a5, a6⟩ := this
    have ht := (hI.topIn it.cur hI.cur).1
    exact ⟨a1, a2, by omega, by omega, a6⟩

/-- The throwing `allocate` serves exactly the requests `try_allocate` serves, with the same result and state;
where `try_allocate` answers null it throws `out_of_fixed_memory` and changes nothing. -/
theorem C07_allocate_eq_try (cfg : Cfg) (it : Iter) (size align : Nat) (ht : it.tops.getD it.cur 0 < 2 ^ 64) :
    it.allocate cfg size align =
      match it.tryAllocate cfg size align with
      | (_, .null) => (it, .throws .oofm)
      | r => r := by
  unfold Iter.allocate Iter.tryAllocate fixedAllocate allocUnchecked
  simp only
  generalize it.tops.getD it.cur 0 = top at *
  have hnull : MemVerif.Gen.fixedStackNull (BitVec.ofNat 64 top) = decide (top = 0) := by
    unfold MemVerif.Gen.fixedStackNull
    by_cases h0 : top = 0
    · subst h0; rfl
    · simp only [h0, decide_false, beq_eq_false_iff_ne, ne_eq]
      intro h
      have := congrArg BitVec.toNat h
      rw [ofNat_toNat_lt ht] at this
      simp at this; exact h0 this
  rw [hnull]
  by_cases h0 : top = 0
  · subst h0; simp
  · simp only [h0, decide_false, Bool.false_or, Bool.false_eq_true, ↓reduceIte]
    unfold MemVerif.Gen.fixedStackRejects fits
    cases MemVerif.Gen.stackAllocationFits _ _ _ _ <;> simp

/-- Switching makes the full capacity of the new current region available and leaves every other region as it was. -/
theorem C07_full_capacity_on_switch (it : Iter) (hI : it.Inv) :
    it.nextIteration.Inv ∧ it.nextIteration.cur = (it.cur + 1) % it.n ∧
      it.nextIteration.capacityLeft it.nextIteration.cur =
        it.blockEnd ((it.cur + 1) % it.n) - it.blockStart ((it.cur + 1) % it.n) ∧
      (∀ j, j ≠ (it.cur + 1) % it.n → it.nextIteration.tops.getD j 0 = it.tops.getD j 0) :=
  Iter.next_inv it hI

/-- **Lifetime.** The stack (hence the memory) of the iteration that was current is not reset by fewer than `N`
calls of `next_iteration`; the `N`-th call returns to it. -/
theorem C07_lifetime (it : Iter) (hI : it.Inv) :
    (∀ k, k < it.n → (it.nextN k).tops.getD it.cur 0 = it.tops.getD it.cur 0 ∧ ((0 < k) → (it.nextN k).cur ≠ it.cur)) ∧
      (it.nextN it.n).cur = it.cur := by
  constructor
  · intro k hk
    refine ⟨it.nextN_keeps hI k hk, ?_⟩
    intro hk0
    rw [(it.nextN_spec hI k).2.1]
    have hcur := hI.cur
    intro hc
    by_cases hlt : it.cur + k < it.n
    · rw [Nat.mod_eq_of_lt hlt] at hc; omega
    · have : (it.cur + k) % it.n = it.cur + k - it.n := by
        rw [Nat.mod_eq_sub_mod (by omega), Nat.mod_eq_of_lt (by omega)]
      omega
  · rw [(it.nextN_spec hI it.n).2.1]
    rw [Nat.add_mod_right]; exact Nat.mod_eq_of_lt hI.cur

/-- non-vacuity: a concrete 3-iteration allocator over a 1025-byte block (the D4 reproducer) satisfies the hypotheses -/
example : (⟨3, .fixed 0, ⟨1048576, 1025⟩, [1048576, 1048917, 1049259], 0⟩ : Iter).Geo :=
  ⟨by decide, by decide, by decide, by decide, by decide⟩

end MemVerif.Props.C07
