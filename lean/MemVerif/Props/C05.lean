import MemVerif.Lemmas.C05
/-!
# C05 — every upstream block is returned exactly once, unchanged, in reverse order

Model: `MemVerif.Model.Arena` (two LIFO block stacks + block source) and the `ledger` replay of the upstream
event log (ArenaRun.lean). Statements hold for cached and uncached arenas, growing and fixed sources, every
history of allocate_block / deallocate_block / shrink_to_fit, and **every** upstream environment `e`
(an upstream failure is an environment that answers `none` at that position: all failure positions are covered).
-/
namespace MemVerif.Props.C05
open MemVerif.Model

/-- **LIFO, unchanged, exactly once.** For any history followed by destruction, the upstream log replays as a stack:
every release returns the most recently acquired outstanding block with the address and size it was acquired with,
and at the end nothing is outstanding. -/
theorem C05_lifo_balanced (cfg : Cfg) (e : EnvS) (src : Src) (hsrc : src.isUpstream = true) (cached : Bool)
    (ops : List AOp) :
    let a0 : Arena := { src := src, isCached := cached }
    let r := a0.runOps cfg e 0 ops
    ledger [] (r.2.2 ++ (r.1.destroy cfg).2.1) = some [] :=
  lifo_balanced cfg e src hsrc cached ops

/-- **Acquisition order invariant**: at every point of every history the outstanding blocks, most recent first, are
the cache (deepest = most recent) followed by the used blocks. -/
theorem C05_acquisition_order (cfg : Cfg) (e : EnvS) (src : Src) (hsrc : src.isUpstream = true) (cached : Bool)
    (ops : List AOp) :
    let a0 : Arena := { src := src, isCached := cached }
    let r := a0.runOps cfg e 0 ops
    ledger [] r.2.2 = some (r.1.cached.reverse ++ r.1.used) :=
  acquisition_order cfg e src hsrc cached ops

/-- **Cached blocks are reused before any new block is requested.** -/
theorem C05_cache_first (a : Arena) (c : Blk) (cs : List Blk) (env : List (Option Nat))
    (hc : a.isCached = true) (hcs : a.cached = c :: cs) :
    ∃ a', a.allocateBlock env = .ok a' c.usable [] env ∧ a'.used = c :: a.used ∧ a'.cached = cs ∧ a'.src = a.src :=
  cache_first a c cs env hc hcs

/-- **A failing upstream leaves the arena's blocks as they were** (and the failure propagates). -/
theorem C05_failure_keeps_blocks (a : Arena) (env : List (Option Nat)) (a' : Arena) (ex : Exn) (ev : List UpEv)
    (env' : List (Option Nat)) (h : a.allocateBlock env = .fail a' ex ev env') :
    a'.used = a.used ∧ a'.cached = a.cached ∧ a'.src = a.src ∧ newBlocks ev = [] :=
  failure_keeps_blocks a env a' ex ev env' h

/-- **A moved-from arena is inert**: destroying it makes no upstream call (C12). -/
theorem C05_moved_from_inert (cfg : Cfg) (a : Arena) : (a.movedFrom.destroy cfg).2.1 = [] :=
  moved_from_inert cfg a

end MemVerif.Props.C05
