import MemVerif.Props.C04Lists
import MemVerif.Lemmas.OrdList
import MemVerif.Model.Pool
/-!
# C04 — memory returned to a pool is reusable: no capacity is lost over any history

List level (all three implementations): `MemVerif.Props.C04Lists` (capacity counter = number of free nodes for every
operation; allocate/release restores the unordered list exactly, arrays up to permutation; chunk capacities of the
small list) and, below, the ordered list (release restores the node sequence exactly — uses the proved correctness of
`find_pos`). Pool level: a pool never asks its block source while the free list holds a node, and a cycle of node
allocations that is released again can be repeated without growth.
-/
namespace MemVerif.Props.C04
open MemVerif.Model MemVerif.Props.C04Lists

/-- ordered list: allocating a node and releasing it again gives back exactly the same node sequence and capacity -/
theorem C04_ordered_release_restores (cfg : Cfg) (l : OrdList) (hI : l.Inv) (l1 : OrdList) (x : Nat)
    (h : l.allocate = some (l1, x)) :
    ∃ l2, l1.deallocate cfg x = .ok l2 ∧ l2.nodes = l.nodes ∧ l2.cap = l.cap :=
  allocate_deallocate_restores cfg l hI l1 x h

/-- ordered list: a valid release (any order) inserts the node at its address position, counts it, keeps the invariant
(in particular `capacity_ = number of nodes` and a valid cursor) -/
theorem C04_ordered_release_valid (cfg : Cfg) (l : OrdList) (hI : l.Inv) (m : Nat) (hm : m ∉ l.nodes)
    (hmB : m + l.ns ≤ l.B ∨ l.E + 8 ≤ m) (hm0 : 0 < m) :
    ∃ l', l.deallocate cfg m = .ok l' ∧ l'.nodes = insertAsc m l.nodes ∧ l'.cap = l.cap + 1 ∧ l'.ld = m ∧ l'.Inv :=
  deallocate_valid cfg l hI m hm hmB hm0

/-- ordered list: `allocate()` takes the lowest node, the counter follows, the invariant is kept -/
theorem C04_ordered_allocate (l : OrdList) (hI : l.Inv) (x : Nat) (xs : List Nat) (hn : l.nodes = x :: xs) :
    ∃ l', l.allocate = some (l', x) ∧ l'.nodes = xs ∧ l'.cap + 1 = l.cap ∧ l'.Inv :=
  allocate_inv l hI x xs hn

/-- **No growth while a node is free**: `allocate_node` on a pool whose list is not empty makes no upstream call and
leaves the arena alone (every list type, every configuration). -/
theorem C04_no_growth_while_nonempty (cfg : Cfg) (p : Pool) (env : List (Option Nat)) (h : p.list.empty = false) :
    (p.allocateNode cfg env).ev = [] ∧ (p.allocateNode cfg env).st.arena = p.arena := by
  unfold Pool.allocateNode
  simp only [h, Bool.false_eq_true, ↓reduceIte]
  split <;> exact ⟨rfl, rfl⟩

/-- the same for a collection bucket -/
theorem C04_coll_no_growth_while_nonempty (cfg : Cfg) (c : Coll) (size : Nat) (env : List (Option Nat)) (l : AnyList)
    (dc : Nat) (hs : ¬ size > c.maxNodeSize) (hl : c.lists[c.listIndex size]? = some l) (hd : c.defCapacity = some dc)
    (h : l.empty = false) :
    (c.allocateNode cfg size env).ev = [] ∧ (c.allocateNode cfg size env).st.arena = c.arena ∧
      (c.allocateNode cfg size env).st.cur = c.cur := by
  unfold Coll.allocateNode
  simp only [hs, ↓reduceIte, hl, hd, h, Bool.false_eq_true, Coll.takeNode]
  split <;> exact ⟨rfl, rfl, rfl⟩

/-- `m` successive `allocate_node` calls -/
def allocNodes (cfg : Cfg) : Nat → Pool → Pool × List UpEv
  | 0, p => (p, [])
  | m + 1, p =>
    let r := p.allocateNode cfg []
    let (p', ev) := allocNodes cfg m r.st
    (p', r.ev ++ ev)

/-- **A cycle never grows the pool** (unordered list): with at least `m` free nodes, `m` node allocations make no
upstream call (the environment is not even consulted: it is `[]`), and take exactly `m` nodes. Since every release
gives one node back (`C04_free_deallocate`), a cycle that has run once can be repeated any number of times. -/
theorem C04_cycle_no_growth (cfg : Cfg) (m : Nat) (p : Pool) (l : FreeList) (hl : p.list = .free l) (hI : FreeInv l)
    (hm : m ≤ l.cap) :
    (allocNodes cfg m p).2 = [] ∧ (allocNodes cfg m p).1.arena = p.arena ∧
      ∃ l', (allocNodes cfg m p).1.list = .free l' ∧ FreeInv l' ∧ l'.cap + m = l.cap := by
  induction m generalizing p l with
  | zero => exact ⟨rfl, rfl, l, hl, hI, by simp⟩
  | succ m ih =>
    have hpos : 0 < l.nodes.length := by rw [← hI]; omega
    obtain ⟨x, xs, hn⟩ : ∃ x xs, l.nodes = x :: xs := by
      cases hn : l.nodes with
      | nil => rw [hn] at hpos; simp at hpos
      | cons x xs => exact ⟨x, xs, rfl⟩
    have hne : p.list.empty = false := by rw [hl]; simp [AnyList.empty, FreeList.empty, hn]
    have hstep : p.allocateNode cfg [] = ⟨{ p with list := .free { l with nodes := xs, cap := l.cap - 1 } }, .ok x, []⟩ := by
      unfold Pool.allocateNode
      simp only [hne, Bool.false_eq_true, ↓reduceIte]
      rw [hl]
      simp only [AnyList.allocate, FreeList.allocate, hn, Option.map]
    have hI' : FreeInv { l with nodes := xs, cap := l.cap - 1 } := by
      unfold FreeInv at hI ⊢
      simp only
      rw [hI, hn]; simp
    have := ih { p with list := .free { l with nodes := xs, cap := l.cap - 1 } } { l with nodes := xs, cap := l.cap - 1 } rfl hI'
      (by simp only; omega)
    obtain ⟨h1, h2, l', h3, h4, h5⟩ := this
    simp only [allocNodes, hstep]
    refine ⟨by simpa using h1, h2, l', h3, h4, ?_⟩
    simp only at h5
    omega

end MemVerif.Props.C04
