import MemVerif.Lemmas.HeapList
/-!
# C01 (L2) — the unordered free list with its pointer encoding refines the sequence model

`Model/HeapList.lean` writes `free_memory_list` as the code is: memory is a map from addresses to stored words, the list
is `first_` plus the `next` word at the start of every free node (`list_get_next` / `list_set_next`), `insert_impl` and
`list_search_array` are loops. The theorems below show, for every memory content and every list,

* **refinement**: under the representation predicate `HRepr` (following the stored words from `first_` spells out the
  L1 node sequence and ends in `nullptr`; nodes distinct and non-null) every member function returns what the L1 model
  `FreeList` returns and re-establishes `HRepr` with the L1 result — so every theorem about `FreeList` / pools over it
  (C01, C02, C04) is a theorem about the pointer-level list;
* **frame**: the only words written are `next` words of nodes that are on the free list afterwards (`deallocate`: the
  released node; `insert_impl`: the cells of the inserted run; `allocate(n)`: the node in front of the run taken;
  `allocate()`: nothing). With C01's frame clause (free cells are disjoint from live allocations) the list never
  writes a link word into live memory.

The hypotheses "`p` / the run is not on the list" are exactly what the pool invariant provides for live allocations
and fresh blocks (`CellInv.apart`). Debug fills are separate (C17 model).
-/
namespace MemVerif.Props.C01Heap
open MemVerif.Model

/-- `deallocate(ptr)` refines the L1 push -/
theorem C01_heap_deallocate {hl : HList} {l : FreeList} (h : HRepr hl l) (p : Nat) (hp : p ∉ l.nodes) (hp0 : p ≠ 0) :
    HRepr (hl.deallocate p) (l.deallocate p) :=
  HList.deallocate_refines h p hp hp0

/-- `allocate()` refines the L1 pop: same address, and memory is not written at all -/
theorem C01_heap_allocate {hl : HList} {l : FreeList} (h : HRepr hl l) :
    match hl.allocate, l.allocate with
    | none, none => True
    | some (hl', a), some (l', b) => a = b ∧ HRepr hl' l' ∧ hl'.heap = hl.heap
    | _, _ => False :=
  HList.allocate_refines h

/-- `insert_impl(mem, size)` (a new block, or a released array) refines the L1 insertion of the run at the front -/
theorem C01_heap_insert {hl : HList} {l : FreeList} (h : HRepr hl l) (mem size : Nat) (hns : 0 < l.ns)
    (hd : ∀ x ∈ blockNodes mem l.ns (size / l.ns), x ∉ l.nodes) (hm0 : 0 < mem) :
    match hl.insertImpl mem size, l.insertImpl mem size with
    | none, none => True
    | some hl', some l' => HRepr hl' l'
    | _, _ => False :=
  HList.insertImpl_refines h mem size hns hd hm0

/-- `allocate(n)` refines the L1 array allocation: the pointer-chasing search `list_search_array` finds exactly the
run the sequence-level search finds (or neither finds one), the run is unlinked by one store (or by moving `first_`),
the same address is returned -/
theorem C01_heap_allocate_array {hl : HList} {l : FreeList} (h : HRepr hl l) (hns : 0 < l.ns) (n : Nat) :
    match hl.allocateBytes n l.nodes.length, l.allocateBytes n with
    | none, none => True
    | some (hl', r), some (l', r') => r = r' ∧ HRepr hl' l'
    | _, _ => False :=
  HList.allocateBytes_refines h hns n

/-- `deallocate(ptr, n)` refines the L1 array release (`ceil(n / node_size)` cells go back) -/
theorem C01_heap_deallocate_array {hl : HList} {l : FreeList} (h : HRepr hl l) (p n : Nat) (hns : 0 < l.ns)
    (hd : ∀ x ∈ blockNodes p l.ns (cellsOf l.ns n), x ∉ l.nodes) (hp0 : 0 < p) :
    match hl.deallocateBytes p n, l.deallocateBytes p n with
    | none, none => True
    | some hl', some l' => HRepr hl' l'
    | _, _ => False :=
  HList.deallocateBytes_refines h p n hns hd hp0

/-! ### frame: which words are written -/

/-- `deallocate(ptr)` writes one word: the `next` word of the released node -/
theorem C01_heap_frame_deallocate (hl : HList) (p a : Nat) (h : (hl.deallocate p).heap a ≠ hl.heap a) : a = p := by
  unfold HList.deallocate Heap.set at h
  simp only at h
  by_cases e : a = p
  · exact e
  · simp [e] at h

/-- `insert_impl` writes only `next` words of the cells it inserts -/
theorem C01_heap_frame_insert (hl hl' : HList) (mem size a : Nat) (h : hl.insertImpl mem size = some hl')
    (hne : hl'.heap a ≠ hl.heap a) : a ∈ blockNodes mem hl.ns (size / hl.ns) := by
  unfold HList.insertImpl at h
  simp only at h
  split at h
  · cases h
  · rename_i hk
    simp only [Option.some.injEq] at h
    subst h
    simp only at hne
    obtain ⟨k, hk'⟩ : ∃ k, size / hl.ns = k + 1 := ⟨size / hl.ns - 1, (Nat.succ_pred_eq_of_pos (Nat.pos_of_ne_zero hk)).symm⟩
    rw [hk'] at hne ⊢
    simp only [Nat.add_sub_cancel] at hne
    by_cases hin : a ∈ blockNodes mem hl.ns (k + 1)
    · exact hin
    · exfalso
      apply hne
      have h1 : a ≠ mem + k * hl.ns := by
        intro e; apply hin; rw [e, blockNodes_succ_append]; simp
      have h2 : a ∉ blockNodes mem hl.ns k := by
        intro m; apply hin; rw [blockNodes_succ_append]; simp [m]
      rw [Heap.set_other _ _ h1, linkRun_other _ _ k mem a h2]

/-- `allocate(n)` writes at most one word: the `next` word of the node in front of the run it takes (`i.prev`) -/
theorem C01_heap_frame_allocate_array (hl hl' : HList) (n len a : Nat) (r : Option Nat)
    (h : hl.allocateBytes n len = some (hl', r)) (hne : hl'.heap a ≠ hl.heap a) :
    ∃ i, listSearchArray hl.heap hl.first n hl.ns len = some i ∧ i.prev ≠ 0 ∧ a = i.prev := by
  unfold HList.allocateBytes at h
  split at h
  · -- node-sized: `allocate()` does not write
    unfold HList.allocate at h
    split at h
    · simp at h
    · simp only [Option.map_some, Option.some.injEq, Prod.mk.injEq] at h
      rw [← h.1] at hne
      exact absurd rfl hne
  · split at h
    · cases h
    · split at h
      · simp only [Option.some.injEq, Prod.mk.injEq] at h
        rw [← h.1] at hne
        exact absurd rfl hne
      · rename_i i hi
        simp only [Option.some.injEq, Prod.mk.injEq] at h
        rw [← h.1] at hne
        by_cases hp : i.prev ≠ 0
        · simp only [hp, ne_eq, not_false_eq_true, if_true] at hne
          refine ⟨i, hi, hp, ?_⟩
          unfold Heap.set at hne
          by_cases e : a = i.prev
          · exact e
          · simp [e] at hne
        · simp only [hp, if_false] at hne
          exact absurd rfl hne

/-! ### non-vacuity -/

/-- a concrete memory: nodes at 104, 112, 120 chained in that order, then 200; `allocate(16)` (two 8-byte nodes) unlinks
`104, 112` by moving `first_`; releasing the array again re-links it in front -/
example :
    let heap : Heap := fun a => if a = 104 then 112 else if a = 112 then 120 else if a = 120 then 200 else 0
    let hl : HList := { ns := 8, first := 104, cap := 4, heap := heap }
    let l : FreeList := { ns := 8, nodes := [104, 112, 120, 200], cap := 4 }
    HRepr hl l ∧
      (hl.allocateBytes 16 4).map (fun r => (r.2, r.1.first, r.1.cap)) = some (some 104, 120, 2) ∧
      ((hl.allocateBytes 16 4).bind fun r => (r.1.deallocateBytes 104 16).map
        fun h2 => (h2.first, h2.heap 104, h2.heap 112, h2.cap)) = some (104, 112, 120, 4) := by
  refine ⟨⟨rfl, rfl, ?_, by decide, by decide⟩, by decide, by decide⟩
  exact ⟨rfl, rfl, rfl, rfl, rfl⟩

end MemVerif.Props.C01Heap
