import MemVerif.Lemmas.C01Coll
import MemVerif.Props.C19
/-!
C01 for `memory_pool_collection` over the intrusive free lists (`node_pool`, `array_pool` buckets), **node
operations** (`allocate_node(size)`, `try_allocate_node(size)`, `deallocate_node(ptr, size)`), every history, every
bucket policy, every configuration (fence size up to `2^32`).

`…_partial`: the full property C01 also quantifies over `allocate_array` on a collection and over collections whose
buckets are `small_node_pool` lists; those stay at the correspondence level (`checks/c01.py`).

The model run here (`GColl`, `Model/CollRun.lean`) is the collection model the driver executes (`Coll`,
`Model/Pool.lean`), with a ghost ledger of what the caller holds.
-/
namespace MemVerif.Props.C01Coll
open MemVerif.Model MemVerif.Gen

/-- the invariant, with the ledger -/
def GInv (arr arrLen : Nat) (g : GColl) : Prop := CInv arr arrLen g.c g.live

/-- **Construction**: a freshly constructed collection over either intrusive list satisfies the invariant (the list
array is the byte range the constructor carved from the first block). -/
theorem C01_coll_create (cfg : Cfg) (src : Src) (kind : String) (hk : kind = "free" ∨ kind = "ord") (pol : Policy)
    (arrays : Bool) (maxNode : Nat) (env : List (Option Nat)) (hf : cfg.fence ≤ 2 ^ 32)
    (hn : (noElements pol (BitVec.ofNat 64 (minElemOf kind)) (BitVec.ofNat 64 maxNode)).toNat * sizeofList kind < 2 ^ 64)
    {c : Coll} {out : Out} {ev : List UpEv} (h : Coll.create cfg src kind pol arrays maxNode env = (some c, out, ev))
    (hb : BlocksOk c.arena.used) :
    ∃ arr arrLen, GInv arr arrLen ⟨c, []⟩ :=
  Coll.create_inv cfg src kind hk pol arrays maxNode env hf hn h hb

/-- **C01 (invariant), collections, node operations.** Along every history of node requests and releases of live
nodes (each released with the size it was requested with), with an environment whose blocks are well formed and
pairwise disjoint, the invariant holds at the end. -/
theorem C01_coll_invariant_partial (cfg : Cfg) (e : EnvS) (arr arrLen : Nat) (hf : cfg.fence ≤ 2 ^ 32) (g : GColl) (k : Nat)
    (ops : List COpn) (hI : GInv arr arrLen g) (henv : BlocksOk (g.run cfg e k ops).1.c.arena.used) :
    GInv arr arrLen (g.run cfg e k ops).1 :=
  GColl.run_inv cfg e hf ops g k hI henv

/-- … hence **at every point** of the history -/
theorem C01_coll_every_point_partial (cfg : Cfg) (e : EnvS) (arr arrLen : Nat) (hf : cfg.fence ≤ 2 ^ 32) (g : GColl) (k : Nat)
    (ops : List COpn) (n : Nat) (hI : GInv arr arrLen g) (henv : BlocksOk (g.run cfg e k ops).1.c.arena.used) :
    GInv arr arrLen (g.run cfg e k (ops.take n)).1 := by
  have hsplit : (g.run cfg e k ops).1 = ((g.run cfg e k (ops.take n)).1.run cfg e (g.run cfg e k (ops.take n)).2 (ops.drop n)).1 := by
    have : ∀ (ops1 ops2 : List COpn) (g : GColl) (k : Nat),
        g.run cfg e k (ops1 ++ ops2) = (g.run cfg e k ops1).1.run cfg e (g.run cfg e k ops1).2 ops2 := by
      intro ops1
      induction ops1 with
      | nil => intro ops2 g k; rfl
      | cons op ops1 ih => intro ops2 g k; exact ih ops2 _ _
    rw [← this, List.take_append_drop]
  apply GColl.run_inv cfg e hf (ops.take n) g k hI
  rw [hsplit] at henv
  exact henv.suffix (GColl.run_ext cfg e (ops.drop n) _ _).used

/-- what the invariant says about the caller's memory: the byte ranges of the live nodes (each as long as the node
size of the bucket that served it) are pairwise disjoint, disjoint from every free cell of every bucket and from the
array of list objects, and inside blocks the collection holds -/
theorem live_facts {arr arrLen : Nat} {g : GColl} (h : GInv arr arrLen g) :
    (g.live.map fun as => (as.1, g.c.nsOf as.2)).Pairwise (fun r s => r.1 + r.2 ≤ s.1 ∨ s.1 + s.2 ≤ r.1) ∧
    (∀ as ∈ g.live, ∃ b ∈ g.c.arena.used, b.usable.base ≤ as.1 ∧ as.1 + g.c.nsOf as.2 ≤ b.usable.base + b.usable.size) ∧
    (∀ as ∈ g.live, ∀ l ∈ g.c.lists, ∀ x ∈ l.cells, as.1 + g.c.nsOf as.2 ≤ x ∨ x + l.nodeSize ≤ as.1) ∧
    (∀ as ∈ g.live, as.1 + g.c.nsOf as.2 ≤ arr ∨ arr + arrLen ≤ as.1) := by
  have hd := h.rinv.disj
  unfold collRanges at hd
  rw [List.pairwise_cons, List.pairwise_append] at hd
  obtain ⟨d1, _, d3, d4⟩ := hd
  refine ⟨d3, ?_, ?_, ?_⟩
  · intro as has
    have hm : (as.1, g.c.nsOf as.2) ∈ collRanges arr arrLen g.c g.live := by
      unfold collRanges liveRanges
      exact List.mem_cons_of_mem _ (List.mem_append_right _ (List.mem_map.mpr ⟨as, has, rfl⟩))
    obtain ⟨b, hb, hin⟩ := h.rinv.inside _ hm
    refine ⟨b, hb, ?_⟩
    have hw := h.blocks.1 b hb
    unfold Blk.Wf at hw
    unfold InBlk at hin
    unfold Blk.usable
    simp only at hin ⊢
    omega
  · intro as has l hl x hx
    have h1 : (x, l.nodeSize) ∈ cellRanges g.c.lists :=
      List.mem_flatMap.mpr ⟨l, hl, List.mem_map.mpr ⟨x, hx, rfl⟩⟩
    have h2 : (as.1, g.c.nsOf as.2) ∈ liveRanges g.c g.live := List.mem_map.mpr ⟨as, has, rfl⟩
    have := d4 _ h1 _ h2
    unfold RDisj2 at this
    simp only at this
    omega
  · intro as has
    have h2 : (as.1, g.c.nsOf as.2) ∈ liveRanges g.c g.live := List.mem_map.mpr ⟨as, has, rfl⟩
    have := d1 _ (List.mem_append_right _ h2)
    unfold RDisj2 at this
    simp only at this
    omega

/-- **C01 (live allocations), collections, node operations.** At the end of any such history — hence at every point —
the live nodes are pairwise disjoint, apart from all free memory and from the list array, and inside held blocks. -/
theorem C01_coll_live_disjoint_inside_partial (cfg : Cfg) (e : EnvS) (arr arrLen : Nat) (hf : cfg.fence ≤ 2 ^ 32) (g : GColl)
    (k : Nat) (ops : List COpn) (hI : GInv arr arrLen g) (henv : BlocksOk (g.run cfg e k ops).1.c.arena.used) :
    let g' := (g.run cfg e k ops).1
    (g'.live.map fun as => (as.1, g'.c.nsOf as.2)).Pairwise (fun r s => r.1 + r.2 ≤ s.1 ∨ s.1 + s.2 ≤ r.1) ∧
    (∀ as ∈ g'.live, ∃ b ∈ g'.c.arena.used, b.usable.base ≤ as.1 ∧ as.1 + g'.c.nsOf as.2 ≤ b.usable.base + b.usable.size) ∧
    (∀ as ∈ g'.live, ∀ l ∈ g'.c.lists, ∀ x ∈ l.cells, as.1 + g'.c.nsOf as.2 ≤ x ∨ x + l.nodeSize ≤ as.1) ∧
    (∀ as ∈ g'.live, as.1 + g'.c.nsOf as.2 ≤ arr ∨ arr + arrLen ≤ as.1) :=
  live_facts (GColl.run_inv cfg e hf ops g k hI henv)

/-- **Every bucket's list stays well formed, and the bump pointer stays inside the current block**: the
preconditions of the list-level theorems (C04/C16/C18) hold for every bucket at every point. -/
theorem C01_coll_lists_wellformed_partial (cfg : Cfg) (e : EnvS) (arr arrLen : Nat) (hf : cfg.fence ≤ 2 ^ 32) (g : GColl)
    (k : Nat) (ops : List COpn) (hI : GInv arr arrLen g) (henv : BlocksOk (g.run cfg e k ops).1.c.arena.used) :
    let g' := (g.run cfg e k ops).1
    (∀ (i : Nat) (l : AnyList), g'.c.lists[i]? = some l → l.SInv g'.c.arena.used [] ∧ 0 < l.nodeSize) ∧
    (∃ b0 rest, g'.c.arena.used = b0 :: rest ∧ b0.usable.base ≤ g'.c.cur ∧ g'.c.cur ≤ b0.base + b0.size) := by
  intro g'
  have h := GColl.run_inv cfg e hf ops g k hI henv
  exact ⟨fun i l hl => ⟨(h.lists i l hl).2.1, (h.lists i l hl).2.2⟩, h.top⟩

/-- **Releasing a live node always succeeds** (no handler call, no crash, no upstream traffic), in every configuration,
at every point of every history. -/
theorem C01_coll_release_succeeds (cfg : Cfg) (e : EnvS) (arr arrLen : Nat) (hf : cfg.fence ≤ 2 ^ 32) (g : GColl) (k : Nat)
    (ops : List COpn) (hI : GInv arr arrLen g) (henv : BlocksOk (g.run cfg e k ops).1.c.arena.used) (i a s : Nat)
    (hi : (g.run cfg e k ops).1.live[i]? = some (a, s)) :
    ((g.run cfg e k ops).1.c.deallocateNode cfg a s).out = .done ∧ ((g.run cfg e k ops).1.c.deallocateNode cfg a s).ev = [] :=
  GColl.release_succeeds cfg (GColl.run_inv cfg e hf ops g k hI henv) hi

/-! ### the caller's size fits the bucket's node size -/

/-- the node size the list constructor stores is the model's `listNodeSize` for the intrusive lists -/
theorem intrusive_eq_listNodeSize (x : BitVec 64) : intrusiveNodeSize x.toNat = (listNodeSize 8#64 x).toNat := by
  unfold intrusiveNodeSize listNodeSize
  have h8 : C.free_min_element_size.toNat = 8 := by decide
  rw [h8]
  by_cases h : x.toNat > 8
  · have : x > 8#64 := by simpa [BitVec.lt_def] using h
    simp [h, this]
  · have : ¬ x > 8#64 := by simpa [BitVec.lt_def] using h
    simp [h, this]

/-- a collection whose buckets were sized by the constructor -/
def Sized (c : Coll) : Prop :=
  c.minElem = 8 ∧ ∀ (i : Nat) (l : AnyList), c.lists[i]? = some l →
    l.nodeSize = (listNodeSize 8#64 (c.policy.sizeFromIndex (BitVec.ofNat 64 i + minSizeIndex c.policy 8#64))).toNat

/-- **a constructed collection over either intrusive list is `Sized`** -/
theorem C01_coll_create_sized (cfg : Cfg) (src : Src) (kind : String) (hk : kind = "free" ∨ kind = "ord") (pol : Policy)
    (arrays : Bool) (maxNode : Nat) (env : List (Option Nat)) {c : Coll} {out : Out} {ev : List UpEv}
    (h : Coll.create cfg src kind pol arrays maxNode env = (some c, out, ev)) : Sized c := by
  obtain ⟨h1, h2, arr, n, h3⟩ := Coll.create_shape cfg src kind pol arrays maxNode env h
  have hm : minElemOf kind = 8 := by rcases hk with rfl | rfl <;> decide
  refine ⟨by rw [h2, hm], ?_⟩
  intro i l hl
  rw [h3] at hl
  simp only [List.getElem?_map, Option.map_eq_some_iff] at hl
  obtain ⟨j, hj, hl⟩ := hl
  have hij : j = i := by
    by_cases hlt : i < n
    · rw [List.getElem?_range hlt] at hj; exact (Option.some.inj hj).symm
    · rw [List.getElem?_eq_none (by simpa using hlt)] at hj; cases hj
  subst hij
  rw [← hl, h1]
  have e8 : BitVec.ofNat 64 (minElemOf kind) = 8#64 := by rw [hm]
  rcases hk with rfl | rfl
  · simp only [Coll.mkList, if_true, e8]
    exact intrusive_eq_listNodeSize _
  · have hne : ¬ ("ord" = "free") := by decide
    simp only [Coll.mkList, hne, if_false, if_true, e8]
    exact intrusive_eq_listNodeSize _

/-- **the bucket that serves `size` has nodes of `bucketNodeSize policy 8 size` bytes** -/
theorem nsOf_eq_bucketNodeSize {c : Coll} (hs : Sized c) (size : Nat) {l : AnyList}
    (hl : c.lists[c.listIndex size]? = some l) :
    c.nsOf size = (bucketNodeSize c.policy 8#64 (BitVec.ofNat 64 size)).toNat := by
  unfold Coll.nsOf
  rw [hl]
  simp only [Option.map_some, Option.getD_some]
  rw [hs.2 _ l hl]
  unfold Coll.listIndex bucketNodeSize
  rw [hs.1]
  have e8 : BitVec.ofNat 64 8 = 8#64 := rfl
  rw [e8, BitVec.ofNat_toNat, BitVec.setWidth_eq, BitVec.sub_add_cancel]

/-- **C02-style corollary used by C01**: with identity buckets the live range of a node covers the requested size -/
theorem C01_coll_size_fits_identity {c : Coll} (hs : Sized c) (hp : c.policy = .identity) (size : Nat) (hsz : size < 2 ^ 64)
    {l : AnyList} (hl : c.lists[c.listIndex size]? = some l) : size ≤ c.nsOf size := by
  rw [nsOf_eq_bucketNodeSize hs size hl, hp]
  have := C19.C19_bucket_fits_identity 8#64 (BitVec.ofNat 64 size)
  rwa [BitVec.toNat_ofNat, Nat.mod_eq_of_lt hsz] at this

/-- … and with log2 buckets (sizes from 1 to `2^63`) -/
theorem C01_coll_size_fits_log2 {c : Coll} (hs : Sized c) (hp : c.policy = .log2) (size : Nat) (h0 : 0 < size)
    (hsz : size ≤ 2 ^ 63) {l : AnyList} (hl : c.lists[c.listIndex size]? = some l) : size ≤ c.nsOf size := by
  rw [nsOf_eq_bucketNodeSize hs size hl, hp]
  have hlt : size < 2 ^ 64 := by omega
  have hne : BitVec.ofNat 64 size ≠ 0#64 := by
    intro h
    have := congrArg BitVec.toNat h
    rw [BitVec.toNat_ofNat, Nat.mod_eq_of_lt hlt] at this
    simp at this
    omega
  have := C19.C19_bucket_fits_log2 8#64 (BitVec.ofNat 64 size) hne (by decide)
    (by rw [BitVec.toNat_ofNat, Nat.mod_eq_of_lt hlt]; exact hsz) (by decide)
  rwa [BitVec.toNat_ofNat, Nat.mod_eq_of_lt hlt] at this

/-! ### the hypotheses are satisfiable (tests, labelled as tests) -/

/-- a concrete collection (`node_pool`, log2 buckets up to 64 bytes, 16-byte fences, blocks of 1000 then 2000 bytes):
the constructed state and the final state of a history that empties the first block, gives its rest to a bucket,
grows, and releases in another order have pairwise disjoint well-formed blocks, which is all the theorems above ask
of the environment; the ledger at the end holds seven nodes from four buckets. -/
def demo : Bool :=
  let cfg : Cfg := { fence := 16, dblDealloc := true, assert := true }
  let e : EnvS := fun k => if k = 0 then some 4096 else if k = 1 then some 65536 else none
  let ops : List COpn := [.allocNode 8, .allocNode 33, .tryAllocNode 64, .allocNode 17, .dealloc 1, .allocNode 64,
    .allocNode 9, .tryAllocNode 3, .dealloc 0, .allocNode 40, .allocNode 64, .tryAllocNode 65]
  match Coll.create cfg (.growing 2 1 1000) "free" .log2 false 64 [e 0] with
  | (some c0, out, _) =>
    let g := (GColl.run cfg e ⟨c0, []⟩ 1 ops).1
    decide (out = .done) && decide (BlocksOk c0.arena.used) && decide (BlocksOk g.c.arena.used) &&
      decide (g.c.arena.used.length = 2) && decide (g.live.length = 7)
  | _ => false

example : demo = true := by decide

end MemVerif.Props.C01Coll
