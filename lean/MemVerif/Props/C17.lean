import MemVerif.Model.Debug
/-!
# C17 — fences catch every overflow beside low-level allocations; fill patterns exact

Theorems over the byte-level model of `debug_fill_new` / `debug_fill_free` / `debug_is_filled` and of the low-level
allocators' layout `[fence | node | fence]` (fence = `max_alignment` for heap/malloc/new, one page for virtual memory,
0 when fences are disabled). All statements are for every node size, every fence size, every memory content — no bound.
-/
namespace MemVerif.Props.C17
open MemVerif.Model

/-! ### `debug_is_filled` finds exactly the first differing byte -/

theorem firstMismatch_none (m : Bytes) (v : Nat) : ∀ (len off : Nat),
    firstMismatch m v off len = none ↔ ∀ i, off ≤ i → i < off + len → m i = v := by
  intro len
  induction len with
  | zero => intro off; simp [firstMismatch]; intro i h1 h2; omega
  | succ len ih =>
    intro off
    unfold firstMismatch
    by_cases h : m off = v
    · simp only [h, ne_eq, not_true_eq_false, ↓reduceIte]
      rw [ih (off + 1)]
      constructor
      · intro hh i h1 h2
        by_cases hi : i = off
        · subst hi; exact h
        · exact hh i (by omega) (by omega)
      · intro hh i h1 h2
        exact hh i (by omega) (by omega)
    · simp only [ne_eq, h, not_false_eq_true, ↓reduceIte]
      constructor
      · intro hh; exact absurd hh (by simp)
      · intro hh; exact absurd (hh off (Nat.le_refl _) (by omega)) h

theorem firstMismatch_some (m : Bytes) (v : Nat) : ∀ (len off j : Nat),
    firstMismatch m v off len = some j →
      off ≤ j ∧ j < off + len ∧ m j ≠ v ∧ ∀ k, off ≤ k → k < j → m k = v := by
  intro len
  induction len with
  | zero => intro off j h; simp [firstMismatch] at h
  | succ len ih =>
    intro off j h
    unfold firstMismatch at h
    by_cases hv : m off = v
    · simp only [hv, ne_eq, not_true_eq_false, ↓reduceIte] at h
      obtain ⟨h1, h2, h3, h4⟩ := ih (off + 1) j h
      refine ⟨by omega, by omega, h3, ?_⟩
      intro k hk1 hk2
      by_cases hk : k = off
      · subst hk; exact hv
      · exact h4 k (by omega) hk2
    · simp only [ne_eq, hv, not_false_eq_true, ↓reduceIte, Option.some.injEq] at h
      subst h
      exact ⟨Nat.le_refl _, by omega, hv, by intro k h1 h2; omega⟩

/-- a dirty byte in the range is always found -/
theorem firstMismatch_exists (m : Bytes) (v off len i : Nat) (h1 : off ≤ i) (h2 : i < off + len) (hd : m i ≠ v) :
    ∃ j, firstMismatch m v off len = some j := by
  cases h : firstMismatch m v off len with
  | some j => exact ⟨j, rfl⟩
  | none => exact absurd ((firstMismatch_none m v len off).1 h i h1 h2) hd

/-! ### fences of the low-level allocators -/

/-- offset `i` of the raw block lies in the fence before the node -/
def InPre (fence i : Nat) : Prop := i < fence
/-- … in the fence after the node -/
def InPost (size fence i : Nat) : Prop := fence + size ≤ i ∧ i < fence + size + fence
def InFence (size fence i : Nat) : Prop := InPre fence i ∨ InPost size fence i

private theorem fill_outside (m : Bytes) (off len v i : Nat) (h : i < off ∨ off + len ≤ i) : fill m off len v i = m i := by
  unfold fill
  rw [if_neg]; omega

private theorem fill_inside (m : Bytes) (off len v i : Nat) (h1 : off ≤ i) (h2 : i < off + len) : fill m off len v i = v := by
  unfold fill
  rw [if_pos ⟨h1, h2⟩]

/-- **In-bounds writes are never reported**: if both fences still hold the fence pattern (whatever the node holds),
`deallocate_node` calls the overflow handler zero times. -/
theorem C17_inbounds_never_reported (size fence : Nat) (m : Bytes)
    (hclean : ∀ i, InFence size fence i → m i = magicFence) : llFreeReports size fence m = [] := by
  unfold llFreeReports fillFree
  simp only [Nat.sub_self]
  have hpre : firstMismatch (fill m fence size magicFreed) magicFence 0 fence = none := by
    rw [firstMismatch_none]
    intro i _ h2
    rw [fill_outside _ _ _ _ _ (Or.inl (by omega))]
    exact hclean i (Or.inl (by unfold InPre; omega))
  have hpost : firstMismatch (fill m fence size magicFreed) magicFence (fence + size) fence = none := by
    rw [firstMismatch_none]
    intro i h1 h2
    rw [fill_outside _ _ _ _ _ (Or.inr h1)]
    exact hclean i (Or.inr ⟨h1, h2⟩)
  rw [hpre, hpost]; rfl

/-- **Every write into a fence is reported, with the address of the first corrupted byte**: if some fence byte (at any
offset of either fence, any value different from the fence pattern) is dirty, the handler is called, and its first call
names the lowest dirty fence byte of the block (the fence before the node is checked first). -/
theorem C17_fence_any_write_reported (size fence : Nat) (m : Bytes) (i : Nat) (hi : InFence size fence i)
    (hd : m i ≠ magicFence) :
    ∃ j rest, llFreeReports size fence m = j :: rest ∧ InFence size fence j ∧ m j ≠ magicFence ∧ j ≤ i ∧
      ∀ k, k < j → InFence size fence k → m k = magicFence := by
  unfold llFreeReports fillFree
  simp only [Nat.sub_self]
  have hout : ∀ k, InFence size fence k → fill m fence size magicFreed k = m k := by
    intro k hk
    apply fill_outside
    rcases hk with hk | hk
    · left; unfold InPre at hk; omega
    · right; exact hk.1
  cases hpre : firstMismatch (fill m fence size magicFreed) magicFence 0 fence with
  | some j =>
    obtain ⟨_, h2, h3, h4⟩ := firstMismatch_some _ _ _ _ _ hpre
    have hjf : InFence size fence j := Or.inl (by unfold InPre; omega)
    refine ⟨j, _, rfl, hjf, by rw [← hout j hjf]; exact h3, ?_, ?_⟩
    · rcases hi with hi | hi
      · -- i in the same fence: j is its first dirty byte
        rcases Nat.lt_or_ge i j with hlt | hge
        · exact absurd (by rw [← hout i (Or.inl hi)]; exact h4 i (Nat.zero_le _) hlt) hd
        · exact hge
      · have := hi.1; omega
    · intro k hk hkf
      rw [← hout k hkf]; exact h4 k (Nat.zero_le _) hk
  | none =>
    have hpreclean := (firstMismatch_none _ _ _ _).1 hpre
    have hipost : InPost size fence i := by
      rcases hi with hi | hi
      · unfold InPre at hi
        exact absurd (by rw [← hout i (Or.inl hi)]; exact hpreclean i (Nat.zero_le _) (by omega)) hd
      · exact hi
    obtain ⟨j, hj⟩ := firstMismatch_exists (fill m fence size magicFreed) magicFence (fence + size) fence i hipost.1 hipost.2
      (by rw [hout i (Or.inr hipost)]; exact hd)
    obtain ⟨h1, h2, h3, h4⟩ := firstMismatch_some _ _ _ _ _ hj
    have hjf : InFence size fence j := Or.inr ⟨h1, h2⟩
    rw [hj]
    refine ⟨j, [], rfl, hjf, by rw [← hout j hjf]; exact h3, ?_, ?_⟩
    · rcases Nat.lt_or_ge i j with hlt | hge
      · exact absurd (by rw [← hout i (Or.inr hipost)]; exact h4 i hipost.1 hlt) hd
      · exact hge
    · intro k hk hkf
      rcases hkf with hkf | hkf
      · unfold InPre at hkf
        rw [← hout k (Or.inl hkf)]; exact hpreclean k (Nat.zero_le _) (by omega)
      · rw [← hout k (Or.inr hkf)]; exact h4 k hkf.1 hk

/-- a handler that returns is called at most once per fence -/
theorem C17_at_most_two_reports (size fence : Nat) (m : Bytes) : (llFreeReports size fence m).length ≤ 2 := by
  unfold llFreeReports fillFree
  simp only
  cases firstMismatch (fill m fence size magicFreed) magicFence (fence - fence) fence <;>
  cases firstMismatch (fill m fence size magicFreed) magicFence (fence + size) fence <;> simp

/-! ### fill patterns -/

/-- **New-memory pattern**: every byte of a node handed out carries `new_memory`, both fences carry `fence_memory`,
and nothing outside `[raw, raw + fence + size + fence)` is touched (neighbouring memory). -/
theorem C17_new_pattern (m : Bytes) (raw size fence : Nat) :
    (∀ i, raw + fence ≤ i → i < raw + fence + size → fillNew m raw size fence i = magicNew) ∧
    (∀ i, raw ≤ i → i < raw + fence → fillNew m raw size fence i = magicFence) ∧
    (∀ i, raw + fence + size ≤ i → i < raw + fence + size + fence → fillNew m raw size fence i = magicFence) ∧
    (∀ i, i < raw ∨ raw + fence + size + fence ≤ i → fillNew m raw size fence i = m i) := by
  unfold fillNew
  refine ⟨?_, ?_, ?_, ?_⟩
  · intro i h1 h2
    rw [fill_outside _ _ _ _ _ (Or.inl h2), fill_inside _ _ _ _ _ h1 h2]
  · intro i h1 h2
    rw [fill_outside _ _ _ _ _ (Or.inl (by omega)), fill_outside _ _ _ _ _ (Or.inl h2), fill_inside _ _ _ _ _ h1 h2]
  · intro i h1 h2
    rw [fill_inside _ _ _ _ _ h1 h2]
  · intro i h
    rw [fill_outside _ _ _ _ _ (by omega), fill_outside _ _ _ _ _ (by omega), fill_outside _ _ _ _ _ (by omega)]

/-- **Freed-memory pattern**: after `debug_fill_free` every byte of the node carries `freed_memory` and no other byte
changed (the fences are only read). A pool then overwrites the first `link` bytes with its link word / index byte. -/
theorem C17_freed_pattern (m : Bytes) (node size fence : Nat) :
    (∀ i, node ≤ i → i < node + size → (fillFree m node size fence).1 i = magicFreed) ∧
    (∀ i, i < node ∨ node + size ≤ i → (fillFree m node size fence).1 i = m i) := by
  unfold fillFree
  exact ⟨fun i h1 h2 => fill_inside _ _ _ _ _ h1 h2, fun i h => fill_outside _ _ _ _ _ h⟩

/-- in-bounds user writes on a fresh low-level node are never reported (corollary for concrete write lists) -/
theorem C17_inbounds_pokes_never_reported (size fence : Nat) (ws : List (Nat × Nat))
    (hin : ∀ w ∈ ws, fence ≤ w.1 ∧ w.1 < fence + size) :
    llFreeReports size fence (poke (llNew size fence) ws) = [] := by
  apply C17_inbounds_never_reported
  have key : ∀ (ws : List (Nat × Nat)) (m : Bytes), (∀ w ∈ ws, fence ≤ w.1 ∧ w.1 < fence + size) →
      (∀ i, InFence size fence i → m i = magicFence) → ∀ i, InFence size fence i → poke m ws i = magicFence := by
    intro ws
    induction ws with
    | nil => intro m _ hm i hi; exact hm i hi
    | cons w ws ih =>
      intro m hw hm i hi
      obtain ⟨o, v⟩ := w
      unfold poke
      apply ih _ (fun w hw' => hw w (List.mem_cons_of_mem _ hw')) _ i hi
      intro k hk
      have := hw (o, v) List.mem_cons_self
      have hne : k ≠ o := by
        rcases hk with hk | hk
        · unfold InPre at hk; simp only at this; omega
        · have := hk.1; simp only at *; omega
      simp [hne, hm k hk]
  apply key ws _ hin
  intro i hi
  have h := C17_new_pattern (fun _ => 0) 0 size fence
  rcases hi with hi | hi
  · unfold InPre at hi
    exact h.2.1 i (Nat.zero_le _) (by omega)
  · exact h.2.2.1 i (by have := hi.1; omega) (by have := hi.2; omega)

/-- non-vacuity / instances: a 5-byte node with 16-byte fences; a write one past the end and one before the start -/
example : llFreeReports 5 16 (poke (llNew 5 16) [(21, 0x41)]) = [21] := by decide
example : llFreeReports 5 16 (poke (llNew 5 16) [(15, 0)]) = [15] := by decide
example : llFreeReports 5 16 (poke (llNew 5 16) [(30, 1), (3, 2), (9, 7), (36, 0)]) = [3, 30] := by decide
example : llFreeReports 5 16 (poke (llNew 5 16) [(16, 1), (20, 2)]) = [] := by decide
example : llFreeReports 5 16 (poke (llNew 5 16) [(21, 0xFD)]) = [] := by decide   -- rewriting the pattern itself is invisible

end MemVerif.Props.C17
