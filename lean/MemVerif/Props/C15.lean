import MemVerif.Model.Pool
/-!
# C15 — leak reporting is exact: net bytes on destruction, silence when balanced

The leak counter of the stateful arena allocators (`object_leak_checker`): `on_allocate`/`on_deallocate` are called by
`allocator_traits` with `size` (nodes) or `count * size` (arrays) — never with the pool's node size — after the
underlying operation succeeded; destruction reports the net amount iff it is non-zero; a move carries the count along.
-/
namespace MemVerif.Props.C15
open MemVerif.Model

/-- traits-level operations of a pool, with the address to release chosen by the caller -/
inductive TOp
  | allocNode (size align : Nat)
  | allocArray (count size align : Nat)
  | deallocNode (addr size : Nat)
  | deallocArray (addr count size : Nat)

/-- one traits operation on the pool model; the environment supplies upstream answers -/
def tstep (cfg : Cfg) (p : Pool) (env : List (Option Nat)) : TOp → PRes Pool
  | .allocNode s a => p.traitsAllocateNode cfg s a env
  | .allocArray c s a => p.traitsAllocateArray cfg c s a env
  | .deallocNode a s => p.traitsDeallocateNode cfg a s
  | .deallocArray a c s => p.traitsDeallocateArray cfg a c s

/-- the amount an operation contributes to the net count, given its observed outcome -/
def delta (op : TOp) (out : Out) : Int :=
  match op, out with
  | .allocNode s _, .ok _ => s
  | .allocArray c s _, .ok _ => mul64 c s
  | .deallocNode _ s, .done => -(s : Int)
  | .deallocArray _ c s, .done => -(mul64 c s : Int)
  | _, _ => 0

/-- **One step is exact**: the counter moves by the traits-level size iff the operation succeeded, and not at all
with leak checking disabled. -/
theorem C15_step_exact (cfg : Cfg) (p : Pool) (env : List (Option Nat)) (op : TOp) :
    (tstep cfg p env op).st.leak = p.leak + (if cfg.leak then delta op (tstep cfg p env op).out else 0) := by
  have hAB : ∀ q : Pool, ∀ env', (q.allocateBlock cfg env').st.leak = q.leak := by
    intro q env'
    unfold Pool.allocateBlock
    split
    · rfl
    · rfl
    · split <;> rfl
  have hAN : ∀ env', (p.allocateNode cfg env').st.leak = p.leak := by
    intro env'
    unfold Pool.allocateNode
    by_cases he : p.list.empty = true
    · simp only [he, ↓reduceIte]
      have := hAB p env'
      cases ho : (p.allocateBlock cfg env').out <;> simp only [] <;> (try exact this)
      split <;> exact this
    · simp only [he, Bool.false_eq_true, ↓reduceIte]
      split <;> rfl
  have hAA : ∀ b env', (p.allocateArrayBytes cfg b env').st.leak = p.leak := by
    intro b env'
    unfold Pool.allocateArrayBytes
    simp only
    split
    · rfl
    · rfl
    · have := hAB p env'
      cases ho : (p.allocateBlock cfg env').out <;> simp only [] <;> (try exact this)
      split <;> exact this
  have hL : ∀ r : ListRes AnyList, (liftList p r).st.leak = p.leak := by
    intro r; unfold liftList; split <;> rfl
  cases op with
  | allocNode s a =>
    simp only [tstep, Pool.traitsAllocateNode]
    split
    · simp [delta]
    · split
      · simp [delta]
      · split
        · rename_i addr hout
          simp only [Pool.onAlloc, hout, delta]
          split <;> simp_all
        · rename_i hne
          have := hAN env
          cases ho : (p.allocateNode cfg env).out <;> simp_all [delta]
  | allocArray c s a =>
    simp only [tstep, Pool.traitsAllocateArray]
    split
    · simp [delta]
    · split
      · simp [delta]
      · split
        · simp [delta]
        · split
          · rename_i addr hout
            simp only [Pool.onAlloc, hout, delta]
            split <;> simp_all
          · rename_i hne
            have := hAA (mul64 c s) env
            cases ho : (p.allocateArrayBytes cfg (mul64 c s) env).out <;> simp_all [delta]
  | deallocNode a s =>
    simp only [tstep, Pool.traitsDeallocateNode, Pool.deallocateNode]
    have := hL (p.list.deallocate cfg a)
    split
    · rename_i hout
      simp only [Pool.onDealloc, hout, delta]
      split <;> simp_all <;> omega
    · cases ho : (liftList p (p.list.deallocate cfg a)).out <;> simp_all [delta]
  | deallocArray a c s =>
    simp only [tstep, Pool.traitsDeallocateArray, Pool.deallocateBytes]
    have := hL (p.list.deallocateBytes cfg a (mul64 c s))
    split
    · rename_i hout
      simp only [Pool.onDealloc, hout, delta]
      split <;> simp_all <;> omega
    · cases ho : (liftList p (p.list.deallocateBytes cfg a (mul64 c s))).out <;> simp_all [delta]

/-- run a history; `envs` gives the upstream answers available to each step -/
def trun (cfg : Cfg) (p : Pool) : List (TOp × List (Option Nat)) → Pool × List (TOp × Out)
  | [] => (p, [])
  | (op, env) :: rest =>
    let r := tstep cfg p env op
    let (p', log) := trun cfg r.st rest
    (p', (op, r.out) :: log)

/-- **Net exact**: after any history the counter equals the initial value plus the sum of the traits-level sizes of
the successful allocations minus those of the releases. -/
theorem C15_net_exact (cfg : Cfg) (hl : cfg.leak = true) (p : Pool) (h : List (TOp × List (Option Nat))) :
    (trun cfg p h).1.leak = p.leak + ((trun cfg p h).2.map fun x => delta x.1 x.2).sum := by
  induction h generalizing p with
  | nil => simp [trun]
  | cons x rest ih =>
    obtain ⟨op, env⟩ := x
    simp only [trun, List.map_cons, List.sum_cons]
    rw [ih, C15_step_exact, hl]
    simp only [↓reduceIte]
    omega

/-- **Reported once, iff non-zero, with the exact net amount**; never with leak checking disabled. -/
theorem C15_report_iff_nonzero (cfg : Cfg) (p : Pool) :
    (p.destroy cfg).2.1 = (if cfg.leak && p.leak ≠ 0 then some p.leak else none) := by
  simp [Pool.destroy]

/-- **Silence when balanced**: a history whose traits-level amounts cancel leaves nothing to report, whatever the
mismatch between element sizes and the pool's node size. -/
theorem C15_balanced_silent (cfg : Cfg) (hl : cfg.leak = true) (p : Pool) (hp : p.leak = 0) (h : List (TOp × List (Option Nat)))
    (hbal : ((trun cfg p h).2.map fun x => delta x.1 x.2).sum = 0) :
    ((trun cfg p h).1.destroy cfg).2.1 = none := by
  rw [C15_report_iff_nonzero, C15_net_exact cfg hl, hp, hbal]
  simp

/-- memory_stack: the same accounting (`on_allocate(size)` after a successful allocation) and a move carries the count -/
theorem C15_stack_move_transfers (s : MemStack) : (s.moveOut).1.leak = s.leak ∧ (s.moveOut).2.leak = 0 := ⟨rfl, rfl⟩

theorem C15_stack_report (cfg : Cfg) (s : MemStack) :
    (s.destroy cfg).2.2 = (if cfg.leak && s.leak ≠ 0 then some s.leak else none) := by
  simp [MemStack.destroy]

end MemVerif.Props.C15
