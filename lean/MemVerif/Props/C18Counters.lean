import MemVerif.Lemmas.C07
import MemVerif.Lemmas.C01Stack
/-!
C18, the counters of the bump allocators: **`capacity_left` moves by exactly what an operation consumes, and it is a true
upper bound** — a request that needs more than what is reported as left is never served from the current block /
region.

* `iteration_allocator` (`capacity_left(i)`, which is also what `allocator_traits` reports as `max_node_size` /
  `max_array_size`): `C18_iter_capacity_exact`, `C18_iter_capacity_bound`, `C18_iter_fresh_capacities_sum`;
* `memory_stack::try_allocate` / the no-growth path of `allocate`: `C18_stack_capacity_exact`, `C18_stack_capacity_bound`.

The consumed amount is `new top - old top = fence + alignment offset + size + fence`.
-/
namespace MemVerif.Props.C18Counters
open MemVerif.Model MemVerif.Gen

/-- `capacity_left(i)` of an allocator that satisfies its invariant is the distance from the stack's top to the end of
its region -/
theorem capacityLeft_eq (it : Iter) (hI : it.Inv) {i : Nat} (hi : i < it.n) :
    it.capacityLeft i = it.blockEnd i - it.tops.getD i 0 := by
  unfold Iter.capacityLeft
  have hin := it.region_inside hI.geo hi
  have := hI.geo.hi
  exact sub64_eq (hI.topIn i hi).2 (by omega)

theorem tryAllocate_cases (cfg : Cfg) (it : Iter) (size align : Nat) :
    (fixedAllocate (it.tops.getD it.cur 0) (it.blockEnd it.cur) size align cfg.fence = none ∧
      it.tryAllocate cfg size align = (it, .null)) ∨
    (∃ p c, fixedAllocate (it.tops.getD it.cur 0) (it.blockEnd it.cur) size align cfg.fence = some (p, c) ∧
      it.tryAllocate cfg size align = ({ it with tops := it.tops.set it.cur c }, .ok p)) := by
  unfold Iter.tryAllocate
  simp only
  cases hfa : fixedAllocate (it.tops.getD it.cur 0) (it.blockEnd it.cur) size align cfg.fence with
  | none => left; exact ⟨rfl, rfl⟩
  | some pc => right; exact ⟨pc.1, pc.2, rfl, rfl⟩

/-- **a served request moves `capacity_left` of the current region by exactly what it consumed** (`fence + padding +
size + fence`), and leaves the figures of all other regions alone -/
theorem C18_iter_capacity_exact (cfg : Cfg) (it : Iter) (hI : it.Inv) (size k : Nat) (hk : k < 48) (hs : size < 2 ^ 64)
    (hf : cfg.fence ≤ 2 ^ 16) {p : Nat} (h : (it.tryAllocate cfg size (2 ^ k)).2 = .ok p) :
    let it' := (it.tryAllocate cfg size (2 ^ k)).1
    let used := (p - it.tops.getD it.cur 0) + size + cfg.fence
    it'.capacityLeft it.cur + used = it.capacityLeft it.cur ∧ size + 2 * cfg.fence ≤ used ∧
      (∀ j, j < it.n → j ≠ it.cur → it'.capacityLeft j = it.capacityLeft j) := by
  intro it' used
  have hit' : it' = (it.tryAllocate cfg size (2 ^ k)).1 := rfl
  rcases tryAllocate_cases cfg it size (2 ^ k) with ⟨_, hr⟩ | ⟨p', c, hfa, hr⟩
  · rw [hr] at h; cases h
  · rw [hr] at h hit'
    simp only at h hit'
    cases h
    obtain ⟨a1, _, a3, a4, a5, a6⟩ := Iter.alloc_step cfg it hI size k hk hs hf p c hfa
    have ht := hI.topIn it.cur hI.cur
    have e1 : it'.capacityLeft it.cur = it.blockEnd it.cur - c := by
      rw [hit']
      have hI' : ({ it with tops := it.tops.set it.cur c } : Iter).Inv := a1
      have := capacityLeft_eq _ hI' (i := it.cur) hI.cur
      rw [this]
      have hg : ({ it with tops := it.tops.set it.cur c } : Iter).tops.getD it.cur 0 = c :=
        List.getD_set_eq' _ _ _ _ (by rw [hI.len]; exact hI.cur)
      rw [hg]; rfl
    have e2 := capacityLeft_eq it hI hI.cur
    refine ⟨?_, ?_, ?_⟩
    · rw [e1, e2]; show _ + ((p - _) + size + cfg.fence) = _; omega
    · show size + 2 * cfg.fence ≤ (p - _) + size + cfg.fence; omega
    · intro j hj hne
      rw [hit']
      have hI' : ({ it with tops := it.tops.set it.cur c } : Iter).Inv := a1
      rw [capacityLeft_eq _ hI' (i := j) hj, capacityLeft_eq it hI hj]
      have := a6 j hne
      show it.blockEnd j - ({ it with tops := it.tops.set it.cur c } : Iter).tops.getD j 0 = _
      rw [this]

/-- **`capacity_left` is a true upper bound**: whatever is served fits into what was reported (fences included), so a
request of more than `capacity_left() - 2 * fence` bytes is refused (`try_allocate` answers null, `allocate` throws) -/
theorem C18_iter_capacity_bound (cfg : Cfg) (it : Iter) (hI : it.Inv) (size k : Nat) (hk : k < 48) (hs : size < 2 ^ 64)
    (hf : cfg.fence ≤ 2 ^ 16) (habove : it.capacityLeft it.cur < size + 2 * cfg.fence) :
    (it.tryAllocate cfg size (2 ^ k)).2 = .null ∧ (it.tryAllocate cfg size (2 ^ k)).1 = it := by
  cases hout : (it.tryAllocate cfg size (2 ^ k)).2 with
  | ok p =>
    obtain ⟨b1, b2, _⟩ := C18_iter_capacity_exact cfg it hI size k hk hs hf hout
    exfalso
    omega
  | null =>
    refine ⟨rfl, ?_⟩
    rcases tryAllocate_cases cfg it size (2 ^ k) with ⟨_, hr⟩ | ⟨p', c, _, hr⟩
    · rw [hr]
    · rw [hr] at hout; cases hout
  | _ =>
    exfalso
    rcases tryAllocate_cases cfg it size (2 ^ k) with ⟨_, hr⟩ | ⟨p', c, _, hr⟩ <;> (rw [hr] at hout; cases hout)

/-- the figures of a freshly constructed allocator are the lengths of its regions (they tile the block:
`C07_regions_partition`), so `capacity_left(i)` of consecutive regions telescopes to the block size -/
theorem C18_iter_fresh_capacity (it : Iter) (hI : it.Inv) {i : Nat} (hi : i < it.n) (hfresh : it.tops.getD i 0 = it.blockStart i) :
    it.capacityLeft i = it.blockStart (i + 1) - it.blockStart i := by
  rw [capacityLeft_eq it hI hi, hfresh]; rfl

/-! ### memory_stack -/

/-- `memory_stack::try_allocate`: `capacity_left()` drops by exactly `new top - old top = fence + padding + size +
fence`, and a request needing more than what is left is answered with null and changes nothing -/
theorem C18_stack_capacity_exact (cfg : Cfg) (s : MemStack) (size k : Nat) (hk : k < 64) {e : Nat} (hbe : s.blockEnd = some e)
    (hce : s.cur ≤ e) (he : e < 2 ^ 64) (hs : size < 2 ^ 64) (hf : s.cur + cfg.fence + cfg.fence + 2 ^ k < 2 ^ 64)
    (hend : (s.tryAllocate cfg size (2 ^ k)).1.blockEnd = some e) :
    (∀ p, (s.tryAllocate cfg size (2 ^ k)).2 = .ok p →
      ∃ used, s.capacityLeft = some ((s.tryAllocate cfg size (2 ^ k)).1.capacityLeft.getD 0 + used) ∧
        used = (s.tryAllocate cfg size (2 ^ k)).1.cur - s.cur ∧ size + 2 * cfg.fence ≤ used ∧
        s.cur + cfg.fence ≤ p ∧ p + size + cfg.fence = (s.tryAllocate cfg size (2 ^ k)).1.cur) ∧
    (s.capacityLeft.getD 0 < size + 2 * cfg.fence →
      (s.tryAllocate cfg size (2 ^ k)).2 = .null ∧ (s.tryAllocate cfg size (2 ^ k)).1 = s) := by
  have hcl : s.capacityLeft = some (e - s.cur) := by
    unfold MemStack.capacityLeft; rw [hbe]; simp only [Option.map_some]; rw [sub64_eq hce he]
  unfold MemStack.tryAllocate at hend ⊢
  rw [hbe] at hend ⊢
  simp only at hend ⊢
  cases hfa : fixedAllocate s.cur e size (2 ^ k) cfg.fence with
  | none =>
    simp only
    refine ⟨?_, ?_⟩
    · intro p hp; cases hp
    · intro _; refine ⟨?_, ?_⟩ <;> first | rfl | trivial
  | some pc =>
    obtain ⟨p', c⟩ := pc
    simp only [hfa] at hend ⊢
    obtain ⟨_, h2, _, h4, h5⟩ := fixedAllocate_spec hk hce he hs hf hfa
    constructor
    · intro p hp
      cases hp
      refine ⟨c - s.cur, ?_, rfl, by omega, h2, by omega⟩
      rw [hcl]
      have : ({ s with cur := c } : MemStack).capacityLeft = some (e - c) := by
        unfold MemStack.capacityLeft; rw [hend]; simp only [Option.map_some]; rw [sub64_eq h5 he]
      rw [this]
      simp only [Option.getD_some, Option.some.injEq]
      omega
    · intro hlt
      rw [hcl] at hlt
      simp only [Option.getD_some] at hlt
      exfalso
      omega

/-- the hypotheses are satisfiable (a test, labelled as a test): `iteration_allocator<3>` over a 101-byte block — a size not
divisible by `N` — satisfies the invariant; the three fresh regions report 33 + 34 + 34 = 101 bytes -/
def demoIter : Iter := { n := 3, src := .fixed 101, block := ⟨4096, 101⟩, tops := [4096, 4129, 4163], cur := 0 }

example : demoIter.Inv := by
  refine ⟨⟨by decide, by decide, by decide, by decide, by decide⟩, by decide, by decide, ?_⟩
  intro i hi
  have : i = 0 ∨ i = 1 ∨ i = 2 := by
    have : i < 3 := hi
    omega
  rcases this with rfl | rfl | rfl <;> decide

example : demoIter.capacityLeft 0 + demoIter.capacityLeft 1 + demoIter.capacityLeft 2 = demoIter.block.size := by decide

end MemVerif.Props.C18Counters
