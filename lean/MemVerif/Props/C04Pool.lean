import MemVerif.Props.C01Ord
/-!
# C04 — no capacity is lost over any history (`memory_pool` over each of the three free lists)

The pool invariant `PInvG` (`Lemmas/C01PoolG.lean`) carries an **exact accounting** clause: at every point of every
history, the number of free cells plus the number of cells occupied by live allocations equals the number of cells the
blocks in use were cut into (`usable size / node size` per block). Together with C01 (cells pairwise disjoint, inside
the blocks) this says that every cell of every block is either on the free list or part of exactly one live
allocation: releasing a node or an array makes exactly the memory that was taken available again, arrays included
(`ceil(n / node_size)` cells both ways, the D3 repair), in any order of releases, for the unordered, the ordered and
the small node list, in every configuration. For the intrusive lists the cells of a block are `usable size / node
size` (`C04_blockcells_intrusive`); for the small list they are the nodes of the chunks `insert` builds in it.

What this does *not* say (and what is false for the unordered list, finding D15): that an array request finds a
contiguous run whenever enough cells are free.
-/
namespace MemVerif.Props.C04Pool
open MemVerif.Model MemVerif.Props.C01Ord

/-- the capacity counter of a well-formed list is the number of its free cells -/
theorem capacity_eq_cells {l : AnyList} {used : List Blk} {live : List (Nat × Nat)} (h : l.SInv used live) :
    l.capacity = l.cells.length := by
  cases l with
  | free fl => exact h
  | ord ol => exact (show ol.Inv from h).cap
  | small sl =>
    have hS : SmallOk sl used live := h
    show sl.cap = (sl.chunks.flatMap (Chunk.freeCells sl.ns)).length
    rw [hS.invS.1]
    have : ∀ cs : List Chunk, (∀ c ∈ cs, c.capacity = c.free.length) →
        (cs.map Chunk.capacity).sum = (cs.flatMap (Chunk.freeCells sl.ns)).length := by
      intro cs
      induction cs with
      | nil => intro _; rfl
      | cons c cs ih =>
        intro hc
        simp only [List.map_cons, List.sum_cons, List.flatMap_cons, List.length_append]
        rw [ih (fun x hx => hc x (List.mem_cons_of_mem _ hx)), hc c List.mem_cons_self]
        simp [Chunk.freeCells]
    exact this _ (fun c hc => (hS.invS.2 c hc).1)

/-- number of cells the blocks in use were cut into -/
def blockCellCount (l : AnyList) (used : List Blk) : Nat := (cellsOfBlocks l used).length

/-- cells of the blocks in use: only grows along a history -/
theorem blockCellCount_suffix (l : AnyList) {u u' : List Blk} (h : u <:+ u') : blockCellCount l u ≤ blockCellCount l u' := by
  obtain ⟨t, rfl⟩ := h
  simp [blockCellCount, cellsOfBlocks, List.flatMap_append]

/-- for the two intrusive lists a block contributes `usable size / node size` cells -/
theorem C04_blockcells_intrusive (l : AnyList) (used : List Blk) (h : ∀ P, l.obj ≠ .small P) :
    blockCellCount l used = (used.map fun b => b.usable.size / l.nodeSize).sum := by
  unfold blockCellCount
  rw [cellsOfBlocks_intrusive l used h, blockCellList_length]
  rfl

/-- the block-cell function only depends on the kind and node size of the list -/
theorem blockCells_eq_of {l l' : AnyList} (hns : l'.nodeSize = l.nodeSize) (hobj : l'.obj = l.obj) (b : Blk) :
    l'.blockCells b = l.blockCells b := by
  cases l with
  | free fl =>
    cases l' with
    | free fl' => simp only [AnyList.nodeSize] at hns; simp [AnyList.blockCells, hns]
    | ord ol' => simp [AnyList.obj] at hobj
    | small sl' => simp [AnyList.obj] at hobj
  | ord ol =>
    cases l' with
    | free fl' => simp [AnyList.obj] at hobj
    | ord ol' => simp only [AnyList.nodeSize] at hns; simp [AnyList.blockCells, hns]
    | small sl' => simp [AnyList.obj] at hobj
  | small sl =>
    cases l' with
    | free fl' => simp [AnyList.obj] at hobj
    | ord ol' => simp [AnyList.obj] at hobj
    | small sl' => simp only [AnyList.nodeSize] at hns; simp [AnyList.blockCells, hns]

/-- … which no operation changes -/
theorem blockCellCount_run (cfg : Cfg) (e : EnvS) (ns : Nat) (o : AnyList.ListObj) (g : GPool) (k : Nat) (ops : List POp)
    (hI : GInvG ns o g) (hfit : ∀ op ∈ ops, op.Fits ns) (henv : EnvOkG o (g.run cfg e k ops).1.p.arena.used)
    (used : List Blk) : blockCellCount (g.run cfg e k ops).1.p.list used = blockCellCount g.p.list used := by
  have h := GPool.run_invG cfg e ops g k hI hfit henv
  unfold blockCellCount cellsOfBlocks
  congr 2
  funext b
  exact blockCells_eq_of (h.nsEq.trans hI.nsEq.symm) (h.objEq.trans hI.objEq.symm) b

/-- **Exact accounting at every point of every history**: the capacity counter plus the cells of the live
allocations is the total number of cells of the blocks in use. `_partial`: `hfit` as for C01 (D21). -/
theorem C04_ipool_capacity_exact_partial (cfg : Cfg) (e : EnvS) (ns : Nat) (o : AnyList.ListObj) (g : GPool) (k : Nat)
    (ops : List POp) (hI : GInvG ns o g) (hfit : ∀ op ∈ ops, op.Fits ns)
    (henv : EnvOkG o (g.run cfg e k ops).1.p.arena.used) :
    let g' := (g.run cfg e k ops).1
    g'.p.list.capacity + (liveCells ns g'.live).length = blockCellCount g'.p.list g'.p.arena.used := by
  intro g'
  have h := GPool.run_invG cfg e ops g k hI hfit henv
  rw [capacity_eq_cells h.sinv]
  exact h.full

/-- **No capacity is lost.** After any history at whose end everything allocated has been released (the ledger is
empty), the pool's capacity is at least what it was at the start plus all cells that were live at the start: it is
exactly the number of cells of all blocks in use, and the blocks in use at the start are still in use. -/
theorem C04_ipool_no_capacity_lost_partial (cfg : Cfg) (e : EnvS) (ns : Nat) (o : AnyList.ListObj) (g : GPool) (k : Nat)
    (ops : List POp) (hI : GInvG ns o g) (hfit : ∀ op ∈ ops, op.Fits ns)
    (henv : EnvOkG o (g.run cfg e k ops).1.p.arena.used) (hall : (g.run cfg e k ops).1.live = []) :
    g.p.list.capacity + (liveCells ns g.live).length ≤ (g.run cfg e k ops).1.p.list.capacity ∧
    (g.run cfg e k ops).1.p.list.capacity =
      blockCellCount (g.run cfg e k ops).1.p.list (g.run cfg e k ops).1.p.arena.used := by
  have h := C04_ipool_capacity_exact_partial cfg e ns o g k ops hI hfit henv
  simp only [hall, liveCells_nil, List.length_nil, Nat.add_zero] at h
  have h0 : g.p.list.capacity + (liveCells ns g.live).length = blockCellCount g.p.list g.p.arena.used := by
    rw [capacity_eq_cells hI.sinv]; exact hI.full
  have hm := blockCellCount_suffix g.p.list (GPool.run_used_suffix cfg e ops g k)
  have hr := blockCellCount_run cfg e ns o g k ops hI hfit henv (g.run cfg e k ops).1.p.arena.used
  exact ⟨by omega, h⟩

/-- **A cycle restores the capacity exactly when the pool did not grow**: if the history releases everything it
allocated and the block list at the end is the block list at the start, the capacity counter is back at its old
value — for any interleaving of node and array allocations and any release order. -/
theorem C04_ipool_cycle_exact_partial (cfg : Cfg) (e : EnvS) (ns : Nat) (o : AnyList.ListObj) (g : GPool) (k : Nat)
    (ops : List POp) (hI : GInvG ns o g) (hfit : ∀ op ∈ ops, op.Fits ns)
    (henv : EnvOkG o (g.run cfg e k ops).1.p.arena.used) (h0 : g.live = [])
    (hall : (g.run cfg e k ops).1.live = []) (hsame : (g.run cfg e k ops).1.p.arena.used = g.p.arena.used) :
    (g.run cfg e k ops).1.p.list.capacity = g.p.list.capacity := by
  have h := (C04_ipool_no_capacity_lost_partial cfg e ns o g k ops hI hfit henv hall).2
  have hs : g.p.list.capacity = blockCellCount g.p.list g.p.arena.used := by
    have := hI.full
    rw [h0] at this
    simpa [capacity_eq_cells hI.sinv, blockCellCount] using this
  rw [h, hsame, hs, blockCellCount_run cfg e ns o g k ops hI hfit henv]

/-- each single allocation moves the capacity counter by exactly the number of cells it takes: a successful
`allocate_node` by one, a successful `allocate_array(n)` by `ceil(n·node_size / node_size) = n` … stated through the
accounting identity: capacity + live cells is unchanged by every operation that does not acquire a block. -/
theorem C04_ipool_step_exact_partial (cfg : Cfg) (e : EnvS) (ns : Nat) (o : AnyList.ListObj) (g : GPool) (k : Nat) (op : POp)
    (hI : GInvG ns o g) (hfit : op.Fits ns) (henv : EnvOkG o (g.step cfg e k op).1.p.arena.used)
    (hsame : (g.step cfg e k op).1.p.arena.used = g.p.arena.used) :
    (g.step cfg e k op).1.p.list.capacity + (liveCells ns (g.step cfg e k op).1.live).length =
      g.p.list.capacity + (liveCells ns g.live).length := by
  have hrun : (g.run cfg e k [op]).1 = (g.step cfg e k op).1 := rfl
  have h := GPool.step_invG cfg e g k op hI hfit henv
  have h1 := h.full
  have h2 := hI.full
  rw [← capacity_eq_cells h.sinv] at h1
  rw [← capacity_eq_cells hI.sinv] at h2
  have hb := blockCellCount_run cfg e ns o g k [op] hI (by simpa using hfit) (by rw [hrun]; exact henv) g.p.arena.used
  rw [hrun] at hb
  unfold blockCellCount at hb
  rw [h1, h2, hsame, hb]

/-! ### non-vacuity -/

/-- an ordered pool (Debug configuration) run through a history with nodes, arrays, growth and out-of-order releases
ends with an empty ledger and all 32 cells of its two blocks (96 and 192 bytes, 16-byte header each, 8-byte nodes) free -/
example :
    let cfg : Cfg := { fence := 8, dblDealloc := true, assert := true }
    let e : EnvS := fun k => if k = 0 then some 5000 else if k = 1 then some 1000 else none
    let ops : List POp := [.allocNode, .allocArray 3, .allocArray 6, .dealloc 1, .allocNode, .allocArray 7, .dealloc 3,
      .dealloc 0, .dealloc 0, .dealloc 0]
    let c := Pool.create cfg (.growing 2 1 96) (.ord (OrdList.new 8 64 72)) true [e 0]
    let g := ((⟨c.st, []⟩ : GPool).run cfg e 1 ops).1
    g.live = [] ∧ g.p.list.capacity = 32 ∧ blockCellCount g.p.list g.p.arena.used = 32 ∧ EnvOkG (.ordered 64) g.p.arena.used := by
  decide

end MemVerif.Props.C04Pool
