import MemVerif.Gen.Consts
import MemVerif.Model.Lock
/-!
# C13 — thread_safe_allocator serialises all access to the wrapped allocator

* `C13_members_lock`: over the table that the translator regenerates from the AST of `allocator_storage` on every run —
  every member that forwards an operation to the wrapped allocator declares the lock guard first (a `decide` over the
  complete, finite table: a proof).
* `C13_mutual_exclusion`: for any number of threads, any programs of member calls and proxy uses, any schedule: every
  access to the wrapped allocator is executed by the thread that owns the mutex, and at most one thread holds it.
-/
namespace MemVerif.Props.C13
open MemVerif.Model MemVerif.Gen

/-- the lock discipline the table must satisfy -/
def TableOk (tbl : List StorageMember) : Bool := tbl.all fun m => !m.reaches || m.locksFirst

/-- **Every forwarding member locks first** (throwing, composable and size-query members alike), and the proxy locks in its
constructor and unlocks in its destructor — checked on the generated table -/
theorem C13_members_lock : TableOk storageMembers = true ∧ lockedProxyCtorLocks = true ∧ lockedProxyDtorUnlocks = true ∧
    lockedProxyMoveEmpties = true := by decide

/-- the table is not empty and contains the members the property names -/
theorem C13_table_complete :
    (["allocate_node", "allocate_array", "deallocate_node", "deallocate_array", "try_allocate_node", "try_allocate_array",
      "try_deallocate_node", "try_deallocate_array", "max_node_size", "max_array_size", "max_alignment", "lock"].all
        fun n => storageMembers.any fun m => m.name == n && (m.reaches || m.proxy)) = true := by decide

/-- `get_allocator()` hands out a reference without locking: by design (documented as unsynchronised; use `lock()`) -/
theorem C13_get_allocator_is_unsynchronised :
    (storageMembers.filter fun m => m.returnsRef).all (fun m => !m.locksFirst && !m.reaches) = true := by decide

/-- well-bracketed scripts: `Shape h s` — a thread that currently holds (`h`) / does not hold the mutex and still has to
execute `s`; an access only ever occurs while holding -/
inductive Shape : Bool → List MStep → Prop
  | done : Shape false []
  | lock {rest} : Shape true rest → Shape false (.lock :: rest)
  | access {rest} : Shape true rest → Shape true (.access :: rest)
  | unlock {rest} : Shape false rest → Shape true (.unlock :: rest)

theorem shape_lock_inv {h : Bool} {rest : List MStep} (hs : Shape h (.lock :: rest)) : h = false ∧ Shape true rest := by
  cases hs with
  | lock hr => exact ⟨rfl, hr⟩
theorem shape_access_inv {h : Bool} {rest : List MStep} (hs : Shape h (.access :: rest)) : h = true ∧ Shape true rest := by
  cases hs with
  | access hr => exact ⟨rfl, hr⟩
theorem shape_unlock_inv {h : Bool} {rest : List MStep} (hs : Shape h (.unlock :: rest)) : h = true ∧ Shape false rest := by
  cases hs with
  | unlock hr => exact ⟨rfl, hr⟩

/-- a script made of complete `lock; access*; unlock` blocks followed by a well-bracketed rest is well-bracketed -/
theorem shape_block (k : Nat) {rest : List MStep} (hr : Shape false rest) :
    Shape false (.lock :: (List.replicate k .access ++ .unlock :: rest)) := by
  apply Shape.lock
  induction k with
  | zero => exact Shape.unlock hr
  | succ k ih => exact Shape.access ih

theorem shape_program (hproxy : lockedProxyCtorLocks = true ∧ lockedProxyDtorUnlocks = true) :
    ∀ (p : List Call), (∀ c ∈ p, ∀ m, c = .member m → (!m.reaches || m.locksFirst) = true) → Shape false (programScript p) := by
  intro p
  induction p with
  | nil => intro _; exact Shape.done
  | cons c cs ih =>
    intro h
    have hcs := ih (fun c' hc' => h c' (List.mem_cons_of_mem _ hc'))
    unfold programScript at *
    simp only [List.flatMap_cons]
    cases c with
    | member m =>
      have hm := h (.member m) List.mem_cons_self m rfl
      simp only [Call.script, memberScript]
      by_cases hr : m.reaches = true
      · have hl : m.locksFirst = true := by simpa [hr] using hm
        simp only [hr, hl, ↓reduceIte]
        exact shape_block 1 hcs
      · simp only [hr, Bool.false_eq_true, ↓reduceIte, List.nil_append]
        exact hcs
    | viaProxy k =>
      simp only [Call.script, hproxy.1, hproxy.2, ↓reduceIte, List.append_assoc, List.singleton_append, List.cons_append,
        List.nil_append]
      exact shape_block k hcs

/-- the invariant of the lock system -/
structure Inv (s : LockSys) : Prop where
  shape : ∀ (t : Nat) (th : Thread), s.threads[t]? = some th → Shape th.holding th.script
  holdOwner : ∀ (t : Nat) (th : Thread), s.threads[t]? = some th → (th.holding = true ↔ s.owner = some t)
  ownerValid : ∀ (t : Nat), s.owner = some t → ∃ th : Thread, s.threads[t]? = some th
  logOk : ∀ e ∈ s.log, e.2 = true

theorem getElem?_set_self' {l : List Thread} {t : Nat} {x th : Thread} (h : l[t]? = some th) : (l.set t x)[t]? = some x := by
  have : t < l.length := by
    rcases Nat.lt_or_ge t l.length with h' | h'
    · exact h'
    · rw [List.getElem?_eq_none h'] at h; cases h
  simp [List.getElem?_set, this]

theorem getElem?_set_ne' {l : List Thread} {t u : Nat} {x : Thread} (h : t ≠ u) : (l.set t x)[u]? = l[u]? := by
  simp [List.getElem?_set, h]

theorem step_inv (s : LockSys) (t : Nat) (hI : Inv s) : Inv (s.step t) := by
  unfold LockSys.step
  cases hth : s.threads[t]? with
  | none => simpa using hI
  | some th =>
    simp only
    cases hs : th.script with
    | nil => simpa using hI
    | cons st rest =>
      have hshape := hI.shape t th hth
      have hho := hI.holdOwner t th hth
      rw [hs] at hshape
      cases st with
      | lock =>
        simp only
        obtain ⟨hhold, hrest⟩ := shape_lock_inv hshape
        · by_cases hown : s.owner = none
          · simp only [hown, ↓reduceIte]
            refine ⟨?_, ?_, ?_, hI.logOk⟩
            · intro u thu hu
              by_cases hut : t = u
              · subst hut
                rw [getElem?_set_self' hth] at hu
                cases hu; exact hrest
              · rw [getElem?_set_ne' hut] at hu; exact hI.shape u thu hu
            · intro u thu hu
              by_cases hut : t = u
              · subst hut
                rw [getElem?_set_self' hth] at hu
                cases hu; simp
              · rw [getElem?_set_ne' hut] at hu
                have := hI.holdOwner u thu hu
                rw [hown] at this
                constructor
                · intro hh; have := this.1 hh; cases this
                · intro hh; simp only [Option.some.injEq] at hh; exact absurd hh hut
            · intro u hu
              simp only [Option.some.injEq] at hu
              subst hu
              exact ⟨_, getElem?_set_self' hth⟩
          · simpa [hown] using hI
      | access =>
        simp only
        obtain ⟨hhold, hrest⟩ := shape_access_inv hshape
        · have hown : s.owner = some t := hho.1 hhold
          refine ⟨?_, ?_, ?_, ?_⟩
          · intro u thu hu
            by_cases hut : t = u
            · subst hut
              rw [getElem?_set_self' hth] at hu
              cases hu; simpa [hhold] using hrest
            · rw [getElem?_set_ne' hut] at hu; exact hI.shape u thu hu
          · intro u thu hu
            by_cases hut : t = u
            · subst hut
              rw [getElem?_set_self' hth] at hu
              cases hu; simpa using hho
            · rw [getElem?_set_ne' hut] at hu; exact hI.holdOwner u thu hu
          · intro u hu
            obtain ⟨thu, hthu⟩ := hI.ownerValid u hu
            by_cases hut : t = u
            · subst hut; exact ⟨_, getElem?_set_self' hth⟩
            · exact ⟨thu, by rw [getElem?_set_ne' hut]; exact hthu⟩
          · intro e he
            simp only [List.mem_cons] at he
            rcases he with he | he
            · subst he; simp [hown]
            · exact hI.logOk e he
      | unlock =>
        simp only
        obtain ⟨hhold, hrest⟩ := shape_unlock_inv hshape
        · have hown : s.owner = some t := hho.1 hhold
          simp only [hown, ↓reduceIte]
          refine ⟨?_, ?_, ?_, hI.logOk⟩
          · intro u thu hu
            by_cases hut : t = u
            · subst hut
              rw [getElem?_set_self' hth] at hu
              cases hu; exact hrest
            · rw [getElem?_set_ne' hut] at hu; exact hI.shape u thu hu
          · intro u thu hu
            by_cases hut : t = u
            · subst hut
              rw [getElem?_set_self' hth] at hu
              cases hu; simp
            · rw [getElem?_set_ne' hut] at hu
              have := hI.holdOwner u thu hu
              rw [hown] at this
              constructor
              · intro hh
                have := this.1 hh
                simp only [Option.some.injEq] at this
                exact absurd this hut
              · intro hh; cases hh
          · intro u hu; cases hu

theorem run_inv (sched : List Nat) : ∀ (s : LockSys), Inv s → Inv (s.run sched) := by
  induction sched with
  | nil => intro s h; exact h
  | cons t ts ih => intro s h; exact ih _ (step_inv s t h)

theorem init_inv (programs : List (List Call))
    (hp : ∀ p ∈ programs, ∀ c ∈ p, ∀ m, c = .member m → (!m.reaches || m.locksFirst) = true) :
    Inv (LockSys.init programs) := by
  have hproxy : lockedProxyCtorLocks = true ∧ lockedProxyDtorUnlocks = true := by decide
  refine ⟨?_, ?_, ?_, ?_⟩
  · intro t th hth
    simp only [LockSys.init, List.getElem?_map] at hth
    cases hp' : programs[t]? with
    | none => simp [hp'] at hth
    | some p =>
      simp only [hp', Option.map_some, Option.some.injEq] at hth
      subst hth
      exact shape_program hproxy p (hp p (List.mem_of_getElem? hp'))
  · intro t th hth
    simp only [LockSys.init, List.getElem?_map] at hth
    cases hp' : programs[t]? with
    | none => simp [hp'] at hth
    | some p =>
      simp only [hp', Option.map_some, Option.some.injEq] at hth
      subst hth
      simp [LockSys.init]
  · intro t h; simp [LockSys.init] at h
  · intro e he; simp [LockSys.init] at he

/-- **Mutual exclusion / every access under the lock** — any number of threads, any programs built from the members of
the generated table and from `lock()` proxy uses, any schedule: every access to the wrapped allocator was executed by the
thread owning the mutex at that moment, and no two threads hold the mutex at once. -/
theorem C13_mutual_exclusion (programs : List (List Call))
    (hp : ∀ p ∈ programs, ∀ c ∈ p, ∀ m, c = .member m → m ∈ storageMembers) (sched : List Nat) :
    let s := (LockSys.init programs).run sched
    (∀ e ∈ s.log, e.2 = true) ∧
    (∀ (t u : Nat) (th tu : Thread), s.threads[t]? = some th → s.threads[u]? = some tu → th.holding = true →
      tu.holding = true → t = u) := by
  intro s
  have htbl : ∀ m ∈ storageMembers, (!m.reaches || m.locksFirst) = true := by
    have := C13_members_lock.1
    unfold TableOk at this
    rw [List.all_eq_true] at this
    exact this
  have hI : Inv s := run_inv sched _ (init_inv programs (fun p hpp c hc m hm => htbl m (hp p hpp c hc m hm)))
  refine ⟨hI.logOk, ?_⟩
  intro t u th tu ht hu hht hhu
  have h1 := (hI.holdOwner t th ht).1 hht
  have h2 := (hI.holdOwner u tu hu).1 hhu
  rw [h1] at h2
  simpa using h2

/-- the hypothesis is necessary: one forwarding member without the lock guard lets an access run without the mutex
(what a new member added without `std::lock_guard` would do; here with a hand-made table entry) -/
theorem C13_unlocked_member_races :
    let bad : StorageMember := ⟨"new_member", false, true, false, false, false⟩
    let good : StorageMember := ⟨"allocate_node", false, true, true, false, false⟩
    ((LockSys.init [[.member good], [.member bad]]).run [0, 1]).log = [(1, false)] := by decide

/-- non-vacuity: three threads, interleaved; all accesses under the lock -/
example :
    let m : StorageMember := ⟨"allocate_node", false, true, true, false, false⟩
    ((LockSys.init [[.member m, .viaProxy 2], [.member m], [.viaProxy 1]]).run
      [0, 1, 2, 0, 0, 1, 2, 1, 1, 2, 2, 0, 0, 0, 0, 2]).log.all (·.2) = true := by decide

/-! ### the mutex is really there for every stateful allocator -/

/-- every stateful allocator — whether it says so itself or is merely a non-empty class, and **also an empty class that
declares `is_stateful`** (its state lives elsewhere: a handle to a global arena) — gets the real mutex -/
theorem C13_stateful_takes_mutex (declared : Option Bool) (empty : Bool) (h : isStateful declared empty = true) :
    takesMutex declared empty = true := by
  simp [takesMutex, isThreadSafe, h]

/-- stateless allocators take no lock -/
theorem C13_stateless_takes_no_mutex (declared : Option Bool) (empty : Bool) (h : isStateful declared empty = false) :
    takesMutex declared empty = false := by
  simp [takesMutex, isThreadSafe, h]

/-- **The compiled code selects the mutex as the model says**, for the five allocator archetypes
(`is_stateful` absent / `true_type` / `false_type`) × (empty / non-empty class): the values on the left are printed by a
probe compiled against the current source tree (`std::is_same<detail::mutex_for<A, std::mutex>, std::mutex>` and the
storage object derives from `mutex_storage<std::mutex>`). -/
theorem C13_mutex_selection_matches_code :
    MemVerif.Gen.C.mutexfor_none_empty.toNat = (takesMutex none true).toNat ∧
    MemVerif.Gen.C.mutexfor_none_nonempty.toNat = (takesMutex none false).toNat ∧
    MemVerif.Gen.C.mutexfor_true_empty.toNat = (takesMutex (some true) true).toNat ∧
    MemVerif.Gen.C.mutexfor_true_nonempty.toNat = (takesMutex (some true) false).toNat ∧
    MemVerif.Gen.C.mutexfor_false_empty.toNat = (takesMutex (some false) true).toNat := by decide

end MemVerif.Props.C13
