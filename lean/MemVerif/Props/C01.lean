import MemVerif.Lemmas.C01Pool
import MemVerif.Lemmas.GrowCap
/-!
# C01 — `memory_pool` over the unordered free list: live allocations never overlap

Model: `Pool` (Pool.lean) with `list = .free _`, run by the ghost-instrumented history semantics of
`Model/PoolRun.lean`: `GPool = pool + live`, where `live` is the caller's ledger of `(address, bytes)` handed out and
not yet released; `POp` = `allocate_node`, `try_allocate_node`, `allocate_array(n)`, `try_allocate_array(n)` and the
release of a live allocation with the parameters it was taken with.

Invariant `GInv g` (`Lemmas/C01Pool.lean`, `Lemmas/C01Inv.lean`: `PInv`/`ListInv`): the list is an unordered free
list `l` with `0 < l.ns` and `l.cap = l.nodes.length`; the used blocks are well formed and pairwise disjoint; the
*cells* `[x, x + ns)` of the free nodes together with the cells of the live allocations (`cellsOf ns bytes`
consecutive cells from the allocation's address: one for a node, `ceil(bytes / ns)` for an array) are pairwise
disjoint; every free cell and every live allocation (with all its cells) lies in the usable part of one used block.

Environment (EnvOk): the block source hands out well-formed, pairwise disjoint blocks. It enters as the hypothesis
`BlocksOk` on the used-block list of the **final** state. That list contains every block the pool held at any point
of the history (`C01_pool_used_monotone`: an uncached pool arena releases nothing before destruction), so the
hypothesis says exactly "every block acquired was well formed and disjoint from all blocks already in use".
It is decidable and is checked by `decide` in the examples below (a history that grows the pool included).

All theorems hold for every configuration, every environment (upstream failures `none` included), every node size
(`FreeList.new` rounds it up to at least 8; the invariant itself only needs `0 < ns`), every history.
The one extra hypothesis, `POp.Fits`, is forced by a defect: see `C01_pool_allocArray_overflow_cex`.
-/
namespace MemVerif.Props.C01
open MemVerif.Model

/-- The constructor establishes the invariant: for every configuration, block source, requested node size,
environment and outcome of the constructor's block request (success, upstream failure, missing answer), the
fresh pool with an empty ledger satisfies `GInv` — given that the first block (if one was obtained) is well formed. -/
theorem C01_pool_create (cfg : Cfg) (src : Src) (nodeSize : Nat) (arrays : Bool) (env : List (Option Nat))
    (henv : BlocksOk (Pool.create cfg src (.free (FreeList.new nodeSize)) arrays env).st.arena.used) :
    GInv ⟨(Pool.create cfg src (.free (FreeList.new nodeSize)) arrays env).st, []⟩ := by
  have h := Pool.create_inv cfg src nodeSize arrays env henv
  unfold GInv
  rw [h.nodeSize]
  exact h

/-- The used-block list only grows along a history: the list at the start is a suffix of the list at the end.
(Hence the final list contains every block ever acquired, which legitimises stating EnvOk on the final list.) -/
theorem C01_pool_used_monotone (cfg : Cfg) (e : EnvS) (g : GPool) (k : Nat) (ops : List POp) :
    g.p.arena.used <:+ (g.run cfg e k ops).1.p.arena.used :=
  GPool.run_used_suffix cfg e ops g k

/-- **The invariant is inductive**: it is preserved by every history.
`_partial`: the hypothesis `hfit` (every `allocate_array(n)` request has `n * node_size() < 2^64`) cannot be dropped,
see `C01_pool_allocArray_overflow_cex`. The node size does not change along the history. -/
theorem C01_pool_invariant_partial (cfg : Cfg) (e : EnvS) (g : GPool) (k : Nat) (ops : List POp) (hI : GInv g)
    (hfit : ∀ op ∈ ops, op.Fits g.p.nodeSize)
    (henv : BlocksOk (g.run cfg e k ops).1.p.arena.used) :
    GInv (g.run cfg e k ops).1 ∧ (g.run cfg e k ops).1.p.nodeSize = g.p.nodeSize := by
  have h := GPool.run_inv cfg e ops g k hI hfit henv
  refine ⟨?_, h.nodeSize⟩
  unfold GInv
  rw [h.nodeSize]
  exact h

/-- **C01 (live allocations).** At the end of any contract-respecting history — hence, every prefix of a history
being a history, at every point of it — the byte ranges `[a, a + bytes)` handed out and not yet released are
pairwise disjoint, and each lies inside the usable part (after the arena's header) of a block the pool obtained
from its block source and still holds.
`_partial` because of `hfit` (no `size_t` overflow in `n * node_size()`), see `C01_pool_allocArray_overflow_cex`. -/
theorem C01_pool_live_disjoint_inside_partial (cfg : Cfg) (e : EnvS) (g : GPool) (k : Nat) (ops : List POp)
    (hI : GInv g) (hfit : ∀ op ∈ ops, op.Fits g.p.nodeSize)
    (henv : BlocksOk (g.run cfg e k ops).1.p.arena.used) :
    (g.run cfg e k ops).1.live.Pairwise (fun r s => r.1 + r.2 ≤ s.1 ∨ s.1 + s.2 ≤ r.1) ∧
    ∀ r ∈ (g.run cfg e k ops).1.live, ∃ b ∈ (g.run cfg e k ops).1.p.arena.used,
      b.usable.base ≤ r.1 ∧ r.1 + r.2 ≤ b.usable.base + b.usable.size := by
  obtain ⟨l, _, _, hL⟩ := GPool.run_inv cfg e ops g k hI hfit henv
  exact ⟨hL.live_disjoint, hL.live_inside⟩

/-- **C01 (frame).** At the end of any contract-respecting history the pool's list is still an unordered free list,
and every cell `[x, x + ns)` of a node on it — the only memory into which the allocator writes its link words and
debug fill patterns — is disjoint from every live byte range; the free cells are also pairwise disjoint and lie in
the usable parts of used blocks. `_partial` because of `hfit`, as above. -/
theorem C01_pool_frame_partial (cfg : Cfg) (e : EnvS) (g : GPool) (k : Nat) (ops : List POp)
    (hI : GInv g) (hfit : ∀ op ∈ ops, op.Fits g.p.nodeSize)
    (henv : BlocksOk (g.run cfg e k ops).1.p.arena.used) :
    ∃ l, (g.run cfg e k ops).1.p.list = .free l ∧ l.ns = g.p.nodeSize ∧
      (∀ x ∈ l.nodes, ∀ r ∈ (g.run cfg e k ops).1.live, x + l.ns ≤ r.1 ∨ r.1 + r.2 ≤ x) ∧
      l.nodes.Pairwise (fun x y => x + l.ns ≤ y ∨ y + l.ns ≤ x) ∧
      ∀ x ∈ l.nodes, ∃ b ∈ (g.run cfg e k ops).1.p.arena.used,
        b.usable.base ≤ x ∧ x + l.ns ≤ b.usable.base + b.usable.size := by
  obtain ⟨l, hl, hns, hL⟩ := GPool.run_inv cfg e ops g k hI hfit henv
  exact ⟨l, hl, hns, hL.frame, hL.free_cells.1, hL.free_cells.2⟩

/-- **C01 at every point of a history.** Split any history as `ops1 ++ ops2`; under the environment hypothesis on
the end of the *whole* history, the state reached after `ops1` satisfies the invariant, its live ranges are pairwise
disjoint and inside used blocks, and its free cells are disjoint from them. -/
theorem C01_pool_every_point_partial (cfg : Cfg) (e : EnvS) (g : GPool) (k : Nat) (ops1 ops2 : List POp)
    (hI : GInv g) (hfit : ∀ op ∈ ops1 ++ ops2, op.Fits g.p.nodeSize)
    (henv : BlocksOk (g.run cfg e k (ops1 ++ ops2)).1.p.arena.used) :
    let g' := (g.run cfg e k ops1).1
    GInv g' ∧
      g'.live.Pairwise (fun r s => r.1 + r.2 ≤ s.1 ∨ s.1 + s.2 ≤ r.1) ∧
      (∀ r ∈ g'.live, ∃ b ∈ g'.p.arena.used, b.usable.base ≤ r.1 ∧ r.1 + r.2 ≤ b.usable.base + b.usable.size) ∧
      ∃ l, g'.p.list = .free l ∧ ∀ x ∈ l.nodes, ∀ r ∈ g'.live, x + l.ns ≤ r.1 ∨ r.1 + r.2 ≤ x := by
  intro g'
  have henv' : BlocksOk g'.p.arena.used := by
    rw [GPool.run_append] at henv
    exact henv.suffix (GPool.run_used_suffix cfg e ops2 _ _)
  have hfit' : ∀ op ∈ ops1, op.Fits g.p.nodeSize := fun op h => hfit op (List.mem_append_left _ h)
  have hinv := (C01_pool_invariant_partial cfg e g k ops1 hI hfit' henv').1
  obtain ⟨l, hl, _, hL⟩ := GPool.run_inv cfg e ops1 g k hI hfit' henv'
  exact ⟨hinv, hL.live_disjoint, hL.live_inside, l, hl, hL.frame⟩

/-- What the environment hypothesis `BlocksOk` says each time a block is acquired (pushed on `used`): the new block
is well formed and disjoint from every block already in use. -/
theorem C01_envOk_cons (b : Blk) (used : List Blk) :
    BlocksOk (b :: used) ↔ b.Wf ∧ (∀ c ∈ used, b.Disj c) ∧ BlocksOk used :=
  BlocksOk_cons b used

/-- **C01 from construction**: a pool built by `memory_pool(node_size, block_size, ...)` and then driven through any
history has, at the end, pairwise disjoint live ranges inside its blocks, and free cells disjoint from them. -/
theorem C01_pool_from_create_partial (cfg : Cfg) (src : Src) (nodeSize : Nat) (arrays : Bool) (e : EnvS)
    (ops : List POp) (hfit : ∀ op ∈ ops, op.Fits (intrusiveNodeSize nodeSize)) :
    let g0 : GPool := ⟨(Pool.create cfg src (.free (FreeList.new nodeSize)) arrays [e 0]).st, []⟩
    let k0 := usedAnswers (Pool.create cfg src (.free (FreeList.new nodeSize)) arrays [e 0]).ev
    let g := (g0.run cfg e k0 ops).1
    BlocksOk g.p.arena.used →
      g.live.Pairwise (fun r s => r.1 + r.2 ≤ s.1 ∨ s.1 + s.2 ≤ r.1) ∧
      (∀ r ∈ g.live, ∃ b ∈ g.p.arena.used, b.usable.base ≤ r.1 ∧ r.1 + r.2 ≤ b.usable.base + b.usable.size) ∧
      ∃ l, g.p.list = .free l ∧ ∀ x ∈ l.nodes, ∀ r ∈ g.live, x + l.ns ≤ r.1 ∨ r.1 + r.2 ≤ x := by
  intro g0 k0 g henv
  have h0 : PInv (intrusiveNodeSize nodeSize) g0.p g0.live :=
    Pool.create_inv cfg src nodeSize arrays [e 0] (henv.suffix (GPool.run_used_suffix cfg e ops g0 k0))
  obtain ⟨l, hl, _, hL⟩ := GPool.run_inv cfg e ops g0 k0 h0 hfit henv
  exact ⟨hL.live_disjoint, hL.live_inside, l, hl, hL.frame⟩

/-- Allocation and release agree on the footprint: releasing a live array `(a, bytes)` (`bytes > ns`) through
`deallocate_array` always succeeds under the invariant (no crash / handler), and the invariant holds afterwards —
the `ceilNodes bytes ns` cells re-inserted are exactly the cells `allocate(bytes)` had removed (D3 repair). -/
theorem C01_pool_release_array (cfg : Cfg) (g : GPool) (i a bytes : Nat) (hI : GInv g)
    (hi : g.live[i]? = some (a, bytes)) (hb : g.p.nodeSize < bytes) :
    (g.p.deallocateBytes cfg a bytes).out = .done ∧
      GInv ⟨(g.p.deallocateBytes cfg a bytes).st, g.live.eraseIdx i⟩ := by
  have h := Pool.deallocateBytes_inv cfg hI hi hb
  refine ⟨h.2, ?_⟩
  unfold GInv
  simp only
  rw [h.1.nodeSize]
  exact h.1

/-- the search `allocate(n)` runs takes exactly `ceilNodes need ns` address-consecutive cells (never more), which
is what `deallocate(ptr, n)` gives back -/
theorem C01_searchArray_exact {ns need : Nat} {nodes : List Nat} {s L : Nat} (hns : 0 < ns) (hneed : ns < need)
    (h : searchArray ns need nodes = some (s, L)) :
    ∃ A f B, nodes = A ++ blockNodes f ns L ++ B ∧ A.length = s ∧ L = ceilNodes need ns ∧ 2 ≤ L :=
  searchArray_spec hns hneed h

/-! ### the hypothesis `POp.Fits` is necessary (a defect of the library) -/

/-- **Counterexample without `hfit`** (`memory_pool::allocate_array(n)` computes `n * node_size()` in `size_t`
without an overflow check). Node size 8, one block `[1000, 1096)`, ten free nodes; `allocate_array(2^61 + 2)`:
the byte count wraps to 16, the size check passes, two nodes are handed out — the caller, who asked for
`2^61 + 2` nodes, holds a "live range" of `2^64 + 16` bytes at 1016 which is not inside any block of the pool.
The start state satisfies `GInv` and the environment hypothesis holds. -/
theorem C01_pool_allocArray_overflow_cex :
    let g0 : GPool := ⟨(Pool.create {} (.growing 2 1 96) (.free (FreeList.new 8)) true [some 1000]).st, []⟩
    let g1 := (g0.run {} (fun _ => none) 0 [.allocArray (2 ^ 61 + 2)]).1
    GInv g0 ∧ BlocksOk g1.p.arena.used ∧ g1.p.arena.used = [⟨1000, 96⟩] ∧
      g1.live = [(1016, 2 ^ 64 + 16)] ∧
      ¬ ∃ b ∈ g1.p.arena.used, b.usable.base ≤ 1016 ∧ 1016 + (2 ^ 64 + 16) ≤ b.usable.base + b.usable.size := by
  refine ⟨C01_pool_create _ _ _ _ _ (by decide), by decide, by decide, by decide, by decide⟩

/-! ### non-vacuity -/

/-- a concrete pool state with two free nodes, a live 3-node array and a live node satisfies the invariant -/
example : GInv
    ⟨{ arena := { src := .fixed 0, isCached := false, used := [⟨1000, 96⟩] },
       list := .free { ns := 8, nodes := [1016, 1056], cap := 2 }, arrays := true },
     [(1024, 24), (1048, 8)]⟩ :=
  ⟨_, rfl, rfl,
    { nsPos := by decide, cap := by decide, blocks := by decide, apart := by decide,
      freeIn := by decide, liveIn := by decide }⟩

/-- the hypotheses of the history theorems are jointly satisfiable on a history that grows the pool (second block
at 5000), allocates nodes and arrays, fails a `try_`, and releases an array; the conclusion is not vacuous (five
live allocations at the end) -/
example :
    let cfg : Cfg := {}
    let e : EnvS := fun k => if k = 0 then some 1000 else if k = 1 then some 5000 else none
    let ops : List POp := [.allocNode, .allocArray 3, .allocArray 6, .tryAllocArray 2, .dealloc 1, .allocNode,
      .allocArray 7, .allocArray 7, .tryAllocArray 100]
    let g0 : GPool := ⟨(Pool.create cfg (.growing 2 1 96) (.free (FreeList.new 8)) true [e 0]).st, []⟩
    let g := (g0.run cfg e 1 ops).1
    (∀ op ∈ ops, op.Fits (intrusiveNodeSize 8)) ∧ BlocksOk g.p.arena.used ∧ g.p.arena.used.length = 2 ∧
      g.live.length = 5 := by
  decide


/-! ### Collections: what an empty bucket is given always holds a node (D31)

`memory_pool_collection` gives an empty free list `def_capacity(pool)` bytes. In the pinned version this was the plain
share `block size / number of lists`, which the constructor only checks against `max_node_size`: a small node list
needs `chunk_memory_offset` more, got a range in which not one chunk fits, and `insert` linked a list of zero chunks
through a null pointer (`coll-small-identity`, block 10065, `allocate_node(99)`). The repaired `def_capacity(pool)`
raises the share until `usable_size` reaches one node; the model's loop has a fuel of 64 rounds, and the theorems below
show that the fuel is never what ends it. -/

/-- small node list: from every default capacity the reserved range holds at least one node -/
theorem C01_coll_reservation_holds_a_node_small (l : SmallList) (hn : l.ns < 2^32) (h0 : 0 < l.ns) (cap : Nat)
    (hc : cap < 2^39) :
    l.ns ≤ (AnyList.small l).usableSize (growCapacity (.small l) 64 cap) :=
  Lemmas.growCapacity_64_small l hn h0 cap hc

/-- unordered node list: the same (one round suffices) -/
theorem C01_coll_reservation_holds_a_node_free (l : FreeList) (hn : l.ns < 2^32) (h0 : 0 < l.ns) (cap : Nat)
    (hc : cap < 2^39) :
    l.ns ≤ (AnyList.free l).usableSize (growCapacity (.free l) 64 cap) :=
  Lemmas.growCapacity_enough_free l hn h0 64 cap hc (by omega)

/-- the pinned version's share for the failing input: 100 bytes for the 99-byte list hold no node, the repaired
capacity is `99 + 32` -/
example : (AnyList.small (SmallList.new 99 0)).usableSize 100 = 68 ∧
    growCapacity (.small (SmallList.new 99 0)) 64 100 = 131 ∧
    (AnyList.small (SmallList.new 99 0)).usableSize 131 = 99 := by decide

end MemVerif.Props.C01
