import MemVerif.Lemmas.C04Lists
/-!
# C04 (lists part) — the capacity counter equals the number of free nodes

For the unordered free list (`free_memory_list`) and the small free list (`small_free_memory_list`): the counter
`capacity_` that `capacity()`/`empty()` report is an invariant function of the actual free-node structure, every
operation keeps it so, and release undoes allocation. All statements are about the executable models of
`MemVerif.Model.Lists` and quantify over every list state, address and size.
-/
namespace MemVerif.Props.C04Lists
open MemVerif.Gen MemVerif.Model

/-! ## 1. `free_memory_list` -/

/-- the capacity counter counts the nodes on the list -/
def FreeInv (l : FreeList) : Prop := l.cap = l.nodes.length

theorem C04_free_new (ns : Nat) : FreeInv (FreeList.new ns) := rfl

theorem C04_free_insert (l l' : FreeList) (mem size : Nat) (hI : FreeInv l)
    (h : l.insertImpl mem size = some l') :
    FreeInv l' ∧ l'.cap = l.cap + size / l.ns ∧ l'.ns = l.ns := by
  unfold FreeList.insertImpl at h
  simp only at h
  split at h
  · exact absurd h (by simp)
  · simp only [Option.some.injEq] at h
    subst h
    unfold FreeInv at *
    simp [blockNodes_length, hI]; omega

theorem C04_free_allocate (l l' : FreeList) (x : Nat) (hI : FreeInv l) (h : l.allocate = some (l', x)) :
    FreeInv l' ∧ l'.cap + 1 = l.cap ∧ l.nodes = x :: l'.nodes ∧ l'.ns = l.ns := by
  unfold FreeList.allocate at h
  unfold FreeInv at *
  split at h
  · exact absurd h (by simp)
  · rename_i y ys hy
    simp only [Option.some.injEq, Prod.mk.injEq] at h
    obtain ⟨rfl, rfl⟩ := h
    simp only [hy, List.length_cons] at hI
    simp [hy, hI]

theorem C04_free_deallocate (l : FreeList) (p : Nat) (hI : FreeInv l) :
    FreeInv (l.deallocate p) ∧ (l.deallocate p).cap = l.cap + 1 := by
  unfold FreeList.deallocate FreeInv at *
  simp [hI]

/-- **release restores**: `allocate()` followed by `deallocate` of the node it returned gives back exactly the same
list (same order, same counter). -/
theorem C04_free_allocate_deallocate_restores (l l' : FreeList) (x : Nat) (hI : FreeInv l)
    (h : l.allocate = some (l', x)) : l'.deallocate x = l := by
  unfold FreeList.allocate at h
  unfold FreeInv at hI
  split at h
  · exact absurd h (by simp)
  · rename_i y ys hy
    simp only [Option.some.injEq, Prod.mk.injEq] at h
    obtain ⟨rfl, rfl⟩ := h
    simp only [hy, List.length_cons] at hI
    unfold FreeList.deallocate
    cases l with
    | mk ns nodes cap =>
      simp only at hy hI ⊢
      subst hy
      simp [hI]

/-- the invariant is needed: with a wrong counter the round trip changes the counter -/
theorem C04_free_restore_needs_inv :
    let l : FreeList := { ns := 8, nodes := [64], cap := 0 }
    ∃ l' x, l.allocate = some (l', x) ∧ l'.deallocate x ≠ l := by
  refine ⟨_, _, rfl, by decide⟩

/-- **array search**: a successful `list_search_array(need)` (with `need > node_size`) returns `(start, len)` inside
the list (`start + len ≤ length`, `len ≥ 2`); the nodes at `[start, start+len)` are `a, a+ns, …` with `a` the node at
`start`; and `len = ceil(need / ns)` exactly. -/
theorem C04_searchArray_spec (ns need : Nat) (hns0 : 0 < ns) (hns : ns < need) (full : List Nat) (s len : Nat)
    (h : searchArray ns need full = some (s, len)) :
    s + len ≤ full.length ∧ 2 ≤ len ∧ len = ceilNodes need ns ∧
    ∃ a, full[s]? = some a ∧ (full.drop s).take len = blockNodes a ns len ∧
      full = full.take s ++ blockNodes a ns len ++ full.drop (s + len) := by
  obtain ⟨a, pfx, sfx, hr⟩ := searchArray_specL ns need hns full s len h
  have hb := searchArray_bounds ns need hns full s len h
  have hlen := run_len_eq_ceilNodes ns need len hns0 hr.enough hr.tight
  refine ⟨hb.1, hr.two, hlen, a, ?_, ?_, ?_⟩
  · rw [hr.split, List.append_assoc, List.getElem?_append_right (by rw [hr.start]; omega), hr.start, Nat.sub_self]
    have : len = (len - 1) + 1 := by have := hr.two; omega
    rw [this, blockNodes]; rfl
  · rw [hr.split, List.append_assoc, drop_append_len _ _ _ hr.start,
      take_append_len _ _ _ (blockNodes_length _ _ _)]
  · have h1 : full.take s = pfx := by
      rw [hr.split, List.append_assoc, take_append_len _ _ _ hr.start]
    have h2 : full.drop (s + len) = sfx := by
      rw [hr.split, drop_append_len _ _ _ (by simp [blockNodes_length, hr.start])]
    rw [h1, h2]; exact hr.split

/-- why `need > node_size` is required above: the search never accepts a run of fewer than two nodes, so for a
request that one node would satisfy the run is longer than `ceil(need / ns)` (the lists never call the search in
that case: `allocate(n)` with `n ≤ node_size` takes the single-node path). -/
theorem C04_searchArray_min_two :
    searchArray 8 8 [64, 72] = some (0, 2) ∧ ceilNodes 8 8 = 1 := by decide

/-- shape of `allocate(n)` in the array case -/
theorem allocateBytes_array (l l' : FreeList) (n : Nat) (r : Option Nat) (hn : l.ns < n)
    (h : l.allocateBytes n = some (l', r)) :
    (searchArray l.ns n l.nodes = none ∧ l' = l ∧ r = none) ∨
    ∃ s len, searchArray l.ns n l.nodes = some (s, len) ∧
      l' = { l with nodes := l.nodes.take s ++ l.nodes.drop (s + len), cap := l.cap - len } ∧ r = l.nodes[s]? := by
  unfold FreeList.allocateBytes at h
  rw [if_neg (by omega)] at h
  split at h
  · exact absurd h (by simp)
  · split at h
    · rename_i hs
      simp only [Option.some.injEq, Prod.mk.injEq] at h
      exact Or.inl ⟨hs, h.1.symm, h.2.symm⟩
    · rename_i s len hs
      simp only [Option.some.injEq, Prod.mk.injEq] at h
      exact Or.inr ⟨s, len, hs, h.1.symm, h.2.symm⟩

theorem C04_free_allocateBytes (l l' : FreeList) (n : Nat) (r : Option Nat) (hI : FreeInv l)
    (h : l.allocateBytes n = some (l', r)) : FreeInv l' ∧ l'.ns = l.ns := by
  by_cases hn : n ≤ l.ns
  · unfold FreeList.allocateBytes at h
    rw [if_pos hn] at h
    cases ha : l.allocate with
    | none => rw [ha] at h; exact absurd h (by simp)
    | some q =>
      obtain ⟨l1, x⟩ := q
      rw [ha] at h
      simp only [Option.map_some, Option.some.injEq, Prod.mk.injEq] at h
      obtain ⟨rfl, _⟩ := h
      have := C04_free_allocate l l1 x hI ha
      exact ⟨this.1, this.2.2.2⟩
  · rcases allocateBytes_array l l' n r (by omega) h with ⟨_, rfl, _⟩ | ⟨s, len, hs, rfl, _⟩
    · exact ⟨hI, rfl⟩
    · have hb := searchArray_bounds l.ns n (by omega) l.nodes s len hs
      unfold FreeInv at *
      refine ⟨?_, rfl⟩
      simp only [List.length_append, List.length_take, List.length_drop]
      omega

theorem C04_free_deallocateBytes (l l' : FreeList) (p n : Nat) (hI : FreeInv l)
    (h : l.deallocateBytes p n = some l') : FreeInv l' ∧ l'.ns = l.ns := by
  unfold FreeList.deallocateBytes at h
  split at h
  · simp only [Option.some.injEq] at h
    subst h
    exact ⟨(C04_free_deallocate l p hI).1, rfl⟩
  · have := C04_free_insert l l' p _ hI h
    exact ⟨this.1, this.2.2⟩

/-- **array release restores**: in the array case (`n > node_size`), a successful `allocate(n)` returning `a` followed
by `deallocate(a, n)` gives back the same multiset of nodes and the same counter. (The order changes: the run is
re-inserted at the front.) The run that was taken out is `a, a+ns, …` of exactly `ceil(n/ns)` nodes, which is what
`deallocate(a, n)` re-creates. -/
theorem C04_free_allocateBytes_deallocateBytes_restores (l l' : FreeList) (n a : Nat) (hI : FreeInv l)
    (hns : 0 < l.ns) (hn : l.ns < n) (h : l.allocateBytes n = some (l', some a)) :
    ∃ l'', l'.deallocateBytes a n = some l'' ∧ l''.nodes.Perm l.nodes ∧ l''.cap = l.cap ∧ l''.ns = l.ns ∧
      l''.nodes = blockNodes a l.ns (ceilNodes n l.ns) ++ l'.nodes := by
  rcases allocateBytes_array l l' n (some a) hn h with ⟨_, _, hc⟩ | ⟨s, len, hs, rfl, hr⟩
  · exact absurd hc (by simp)
  · obtain ⟨hb, h2, hlen, a', ha', _, hsplit⟩ := C04_searchArray_spec l.ns n hns hn l.nodes s len hs
    have haa : a' = a := by
      rw [ha'] at hr; exact (Option.some.inj hr).symm
    subst haa
    unfold FreeInv at hI
    unfold FreeList.deallocateBytes
    simp only
    rw [if_neg (by omega)]
    unfold FreeList.insertImpl
    simp only
    rw [ceilNodes_mul_div n l.ns hns, ← hlen, if_neg (by omega)]
    refine ⟨_, rfl, ?_, ?_, rfl, rfl⟩
    · simp only
      have hp : (blockNodes a' l.ns len ++ (l.nodes.take s ++ l.nodes.drop (s + len))).Perm
          (l.nodes.take s ++ blockNodes a' l.ns len ++ l.nodes.drop (s + len)) := by
        rw [← List.append_assoc]
        exact List.Perm.append_right _ List.perm_append_comm
      rw [← hsplit] at hp
      exact hp
    · simp only; omega

example : ∃ l'', ({ ns := 8, nodes := [200, 300], cap := 2 } : FreeList).deallocateBytes 64 20 = some l'' ∧
    l''.nodes.Perm [200, 64, 72, 80, 300] ∧ l''.cap = 5 ∧ l''.ns = 8 ∧
    l''.nodes = blockNodes 64 8 (ceilNodes 20 8) ++ [200, 300] :=
  C04_free_allocateBytes_deallocateBytes_restores
    { ns := 8, nodes := [200, 64, 72, 80, 300], cap := 5 } { ns := 8, nodes := [200, 300], cap := 2 } 20 64 rfl
    (by decide) (by decide) (by decide)

/-! ## 2. `small_free_memory_list` -/

/-- the invariant asked for: the list counter is the sum of the chunk counters, each chunk counter is the length of
its free chain, and no chunk has more free nodes than nodes -/
def SmallInv (l : SmallList) : Prop :=
  l.cap = (l.chunks.map Chunk.capacity).sum ∧
  ∀ c ∈ l.chunks, c.capacity = c.free.length ∧ c.free.length ≤ c.noNodes

/-- the part of it that every operation keeps unconditionally -/
def SmallCapInv (l : SmallList) : Prop :=
  l.cap = (l.chunks.map Chunk.capacity).sum ∧ ∀ c ∈ l.chunks, c.capacity = c.free.length

/-- the stronger, structural form: the free chain of a chunk has no repetition and only holds node indices of the
chunk (this is what makes `≤ noNodes` an invariant of `deallocate`) -/
def SmallInvS (l : SmallList) : Prop :=
  l.cap = (l.chunks.map Chunk.capacity).sum ∧
  ∀ c ∈ l.chunks, c.capacity = c.free.length ∧ c.free.Nodup ∧ ∀ i ∈ c.free, i < c.noNodes

theorem SmallInv.toCap {l : SmallList} (h : SmallInv l) : SmallCapInv l :=
  ⟨h.1, fun c hc => (h.2 c hc).1⟩

theorem SmallInvS.toInv {l : SmallList} (h : SmallInvS l) : SmallInv l :=
  ⟨h.1, fun c hc => ⟨(h.2 c hc).1, nodup_bounded_length _ _ (h.2 c hc).2.1 (h.2 c hc).2.2⟩⟩

theorem C04_small_new (ns P : Nat) : SmallInvS (SmallList.new ns P) := by
  refine ⟨rfl, ?_⟩
  intro c hc
  simp [SmallList.new] at hc

/-- `insert` (chunks built by `Chunk.make`) keeps all three forms; `ns ≥ 1` is needed for the counter
(see `C04_small_insert_ns0`). -/
theorem C04_small_insert (l l' : SmallList) (mem size : Nat) (hns : 0 < l.ns)
    (h : l.insert mem size = some l') :
    (SmallCapInv l → SmallCapInv l') ∧ (SmallInv l → SmallInv l') ∧ (SmallInvS l → SmallInvS l') ∧
    l'.cap = l.cap + (smallInsertChunks l.ns mem size).2 := by
  have hsum := smallInsertChunks_sum l.ns mem size hns
  have hfresh := smallInsertChunks_fresh l.ns mem size
  unfold SmallList.insert at h
  rcases hr : smallInsertChunks l.ns mem size with ⟨cs, k⟩
  rw [hr] at h hsum hfresh
  simp only at h hsum hfresh
  split at h
  · exact absurd h (by simp)
  · simp only [Option.some.injEq] at h
    subst h
    have hS := insertSorted_sum Chunk.capacity l.chunks cs
    have hM := fun c => insertSorted_mem l.chunks cs c
    refine ⟨?_, ?_, ?_, rfl⟩
    · rintro ⟨h1, h2⟩
      refine ⟨by simp only [hS, h1, hsum], ?_⟩
      intro c hc
      rcases (hM c).1 hc with hc | hc
      · exact h2 c hc
      · have := hfresh c hc; rw [this.1, this.2.1]; simp
    · rintro ⟨h1, h2⟩
      refine ⟨by simp only [hS, h1, hsum], ?_⟩
      intro c hc
      rcases (hM c).1 hc with hc | hc
      · exact h2 c hc
      · have := hfresh c hc; rw [this.1, this.2.1]; simp
    · rintro ⟨h1, h2⟩
      refine ⟨by simp only [hS, h1, hsum], ?_⟩
      intro c hc
      rcases (hM c).1 hc with hc | hc
      · exact h2 c hc
      · have := hfresh c hc
        rw [this.1, this.2.1]
        exact ⟨by simp, List.nodup_range, fun i hi => List.mem_range.1 hi⟩

/-- with `ns = 0` the counter would lie: `insert` reports 255 nodes per chunk but a chunk of node size 0 has none -/
theorem C04_small_insert_ns0 :
    ∃ l', (SmallList.new 0 8).insert 4096 32 = some l' ∧ l'.cap = 255 ∧ (l'.chunks.map Chunk.capacity).sum = 0 := by
  refine ⟨_, rfl, by decide, by decide⟩

/-- `allocate()` keeps all three forms and takes exactly one node off the counter -/
theorem C04_small_allocate (l l' : SmallList) (p : Nat) (h : l.allocate = some (l', p)) :
    (SmallCapInv l → SmallCapInv l' ∧ l'.cap + 1 = l.cap) ∧ (SmallInv l → SmallInv l') ∧
    (SmallInvS l → SmallInvS l') := by
  obtain ⟨i, c, idx, rest, hc, hfree, rfl⟩ := allocate_shape l l' p h
  have hmem := mem_of_getElem? _ _ _ hc
  have hsum := sum_map_set Chunk.capacity l.chunks i c { c with capacity := c.capacity - 1, free := rest } hc
  simp only at hsum
  have hch : (l.allocResult i c rest).chunks =
      l.chunks.set i { c with capacity := c.capacity - 1, free := rest } := rfl
  have hcp : (l.allocResult i c rest).cap = l.cap - 1 := rfl
  have key : SmallCapInv l → SmallCapInv (l.allocResult i c rest) ∧ (l.allocResult i c rest).cap + 1 = l.cap := by
    rintro ⟨h1, h2⟩
    have hcc := h2 c hmem
    rw [hfree, List.length_cons] at hcc
    refine ⟨⟨?_, ?_⟩, ?_⟩
    · rw [hch, hcp]; omega
    · intro c' hc'
      rw [hch] at hc'
      rcases List.mem_or_eq_of_mem_set hc' with hc' | rfl
      · exact h2 c' hc'
      · simp only; omega
    · rw [hcp]; omega
  refine ⟨key, ?_, ?_⟩
  · intro hI
    refine ⟨(key hI.toCap).1.1, ?_⟩
    intro c' hc'
    rw [hch] at hc'
    rcases List.mem_or_eq_of_mem_set hc' with hc' | rfl
    · exact hI.2 c' hc'
    · have := hI.2 c hmem
      rw [hfree, List.length_cons] at this
      simp only; omega
  · intro hI
    refine ⟨(key hI.toInv.toCap).1.1, ?_⟩
    intro c' hc'
    rw [hch] at hc'
    rcases List.mem_or_eq_of_mem_set hc' with hc' | rfl
    · exact hI.2 c' hc'
    · have := hI.2 c hmem
      rw [hfree] at this
      obtain ⟨h1, h2, h3⟩ := this
      rw [List.nodup_cons] at h2
      rw [List.length_cons] at h1
      exact ⟨by simp only; omega, h2.2, fun j hj => h3 j (List.mem_cons_of_mem _ hj)⟩

/-- `deallocate(p)` returning normally keeps the counter equations (in every configuration, for every pointer: even
for a double free that the disabled checks let through the counters stay consistent with the chains). -/
theorem C04_small_deallocate_cap (cfg : Cfg) (l l' : SmallList) (p : Nat) (hI : SmallCapInv l)
    (h : l.deallocate cfg p = .ok l') : SmallCapInv l' ∧ l'.cap = l.cap + 1 := by
  obtain ⟨i, c, hc, _, rfl, _⟩ := deallocate_shape cfg l l' p h
  have hsum := sum_map_set Chunk.capacity l.chunks i c
    { c with capacity := c.capacity + 1, free := (p - (c.base + chunkOff)) / l.ns :: c.free } hc
  simp only at hsum
  have hch : (l.deallocResult i c p).chunks = l.chunks.set i
      { c with capacity := c.capacity + 1, free := (p - (c.base + chunkOff)) / l.ns :: c.free } := rfl
  have hcp : (l.deallocResult i c p).cap = l.cap + 1 := rfl
  obtain ⟨h1, h2⟩ := hI
  refine ⟨⟨?_, ?_⟩, hcp⟩
  · rw [hch, hcp]; omega
  · intro c' hc'
    rw [hch] at hc'
    rcases List.mem_or_eq_of_mem_set hc' with hc' | rfl
    · exact h2 c' hc'
    · simp only [List.length_cons]; rw [h2 c (mem_of_getElem? _ _ _ hc)]

/-- `≤ noNodes` is **not** preserved by `deallocate` without a validity hypothesis: with the double-free check off
(the default configuration) a node that is already free is accepted again. -/
theorem C04_small_deallocate_counterexample :
    let l : SmallList := { ns := 8, P := 8, chunks := [⟨1000, 1, 1, [0]⟩], cap := 1, allocChunk := 1000, deallocChunk := 1000 }
    SmallInv l ∧ ∃ l', l.deallocate {} 1032 = .ok l' ∧ ¬ SmallInv l' := by
  intro l
  refine ⟨⟨rfl, ?_⟩, _, rfl, ?_⟩
  · intro c hc
    simp only [l, List.mem_singleton] at hc
    subst hc; exact ⟨rfl, by decide⟩
  · rintro ⟨_, h2⟩
    have := (h2 ⟨1000, 1, 1 + 1, [(1032 - (1000 + chunkOff)) / 8, 0]⟩ (by decide)).2
    revert this; decide

/-- the structural step shared by the two theorems below -/
theorem deallocResult_invS (l : SmallList) (i : Nat) (c : Chunk) (p : Nat) (hI : SmallInvS l) (hns : 0 < l.ns)
    (hc : l.chunks[i]? = some c) (hfrom : c.base + chunkOff ≤ p ∧ p < c.base + chunkOff + c.noNodes * l.ns)
    (hnotin : (p - (c.base + chunkOff)) / l.ns ∉ c.free)
    (hcap : SmallCapInv (l.deallocResult i c p)) : SmallInvS (l.deallocResult i c p) := by
  have hmem := mem_of_getElem? _ _ _ hc
  have hidx : (p - (c.base + chunkOff)) / l.ns < c.noNodes := by
    rw [Nat.div_lt_iff_lt_mul hns]; omega
  have hch : (l.deallocResult i c p).chunks = l.chunks.set i
      { c with capacity := c.capacity + 1, free := (p - (c.base + chunkOff)) / l.ns :: c.free } := rfl
  refine ⟨hcap.1, ?_⟩
  intro c' hc'
  rw [hch] at hc'
  rcases List.mem_or_eq_of_mem_set hc' with hc' | rfl
  · exact hI.2 c' hc'
  · obtain ⟨h1, h2, h3⟩ := hI.2 c hmem
    refine ⟨by simp only [List.length_cons]; omega, List.nodup_cons.2 ⟨hnotin, h2⟩, ?_⟩
    intro j hj
    rcases List.mem_cons.1 hj with rfl | hj
    · exact hidx
    · exact h3 j hj

/-- the hypothesis that is needed: the released node is not already on its chunk's free chain (no double free).
Then the structural invariant — hence also `SmallInv` — is preserved, in every configuration. The other half of
validity, "`p` lies in the node area of the chunk found", is *established* by `find_chunk_impl` itself
(`deallocate_shape`), it need not be assumed. `p` need not be node-aligned. -/
theorem C04_small_deallocate (cfg : Cfg) (l l' : SmallList) (p : Nat) (hI : SmallInvS l) (hns : 0 < l.ns)
    (hnf : ∀ c ∈ l.chunks, c.base + chunkOff ≤ p → p < c.base + chunkOff + c.noNodes * l.ns →
      (p - (c.base + chunkOff)) / l.ns ∉ c.free)
    (h : l.deallocate cfg p = .ok l') : SmallInvS l' ∧ SmallInv l' ∧ l'.cap = l.cap + 1 := by
  have hcap := C04_small_deallocate_cap cfg l l' p hI.toInv.toCap h
  obtain ⟨i, c, hc, hfrom, rfl, _⟩ := deallocate_shape cfg l l' p h
  have hnotin := hnf c (mem_of_getElem? _ _ _ hc) hfrom.1 hfrom.2
  have hS := deallocResult_invS l i c p hI hns hc hfrom hnotin hcap.1
  exact ⟨hS, hS.toInv, hcap.2⟩

/-- with both pointer checks compiled in (`FOONATHAN_MEMORY_DEBUG_POINTER_CHECK` and `…_DOUBLE_DEALLOC_CHECK`) no
hypothesis on `p` is needed at all: a `deallocate` that returns normally has kept the invariant. -/
theorem C04_small_deallocate_checked (cfg : Cfg) (l l' : SmallList) (p : Nat) (hI : SmallInvS l) (hns : 0 < l.ns)
    (hc1 : cfg.ptrCheck = true) (hc2 : cfg.dblDealloc = true)
    (h : l.deallocate cfg p = .ok l') : SmallInvS l' ∧ SmallInv l' ∧ l'.cap = l.cap + 1 := by
  have hcap := C04_small_deallocate_cap cfg l l' p hI.toInv.toCap h
  obtain ⟨i, c, hc, hfrom, rfl, hchk⟩ := deallocate_shape cfg l l' p h
  have hS := deallocResult_invS l i c p hI hns hc hfrom (hchk hc1 hc2) hcap.1
  exact ⟨hS, hS.toInv, hcap.2⟩

/-- instance of `C04_small_deallocate`: a chunk of 3 nodes with node 1 free; node 0 is released -/
example :
    let l : SmallList := { ns := 8, P := 8, chunks := [⟨1000, 3, 1, [1]⟩], cap := 1, allocChunk := 1000, deallocChunk := 1000 }
    ∃ l', l.deallocate {} 1032 = .ok l' ∧ SmallInvS l' ∧ SmallInv l' ∧ l'.cap = l.cap + 1 := by
  intro l
  have hI : SmallInvS l := by
    refine ⟨rfl, ?_⟩
    intro c hc
    simp only [l, List.mem_singleton] at hc
    subst hc
    exact ⟨rfl, by decide, by decide⟩
  have hnf : ∀ c ∈ l.chunks, c.base + chunkOff ≤ 1032 → 1032 < c.base + chunkOff + c.noNodes * l.ns →
      (1032 - (c.base + chunkOff)) / l.ns ∉ c.free := by
    intro c hc _ _
    simp only [l, List.mem_singleton] at hc
    subst hc
    decide
  exact ⟨_, rfl, C04_small_deallocate {} l _ 1032 hI (by decide) hnf rfl⟩

/-- instances of `C04_small_insert` / `C04_small_allocate`: the hypotheses are satisfiable (the operations succeed on
this input) and the invariant follows -/
example : ((SmallList.new 4 8).insert 4096 2000).isSome = true ∧
    ∀ l', (SmallList.new 4 8).insert 4096 2000 = some l' → SmallInvS l' :=
  ⟨by decide, fun l' h => (C04_small_insert _ l' 4096 2000 (by decide) h).2.2.1 (C04_small_new 4 8)⟩

example :
    let l : SmallList := { ns := 8, P := 8, chunks := [⟨1000, 3, 1, [1]⟩], cap := 1, allocChunk := 1000, deallocChunk := 1000 }
    l.allocate.isSome = true ∧ ∀ l' p, SmallInv l → l.allocate = some (l', p) → SmallInv l' :=
  ⟨by decide, fun l' p hI h => (C04_small_allocate _ l' p h).2.1 hI⟩

end MemVerif.Props.C04Lists
