import MemVerif.Lemmas.C01Stack
/-!
# C01 — `memory_stack`: live allocations never overlap and lie inside the stack's blocks

Model: `MemStack` (Stack.lean) under the history semantics of `StackRun.lean` (`alloc`, `tryAlloc`, nested marker
scopes `m := top(); ops; unwind(m)`), with the caller's ledger `topLive`: the `(address, size)` of every successful
allocation made at the top level of the history. What a marker scope allocates is handed back by its `unwind`, so it
leaves the ledger; *inside* a scope the theorem applies again, to the scope's body run from the state at the marker with
the ledger at that point (the statement quantifies over the start state and the start ledger).

Invariant `SQ cur used live` (`Lemmas/C01Stack.lean`): every live range lies in the usable part of a used block, the
ranges in the current block end at or below the top pointer, ranges are pairwise apart. It is preserved by
`allocate` without growth (`stack_allocation_fits` ⇒ the new top stays inside the block: `noGrow_fits`), by growth
into a cached or a new block (`neededSat_le`: the saturating `needed` computation never lets an overflowing request
through), by `try_allocate` (`fixedAllocate_spec`) and by whole scopes (`C06_unwind_restores`: top pointer and used
blocks are exactly those at the marker).

Hypotheses: `hf` fences of at most 2^16 bytes (the library's is 0 or 8·k); `SOpsWf` sizes are `size_t` values and
alignments powers of two below 2^48; `hsrc`/`hlen` as for C06 (non-static source — `static_block_allocator` is covered
by the correspondence check only —, fewer than 2^64 blocks); `henv` is the environment assumption: the blocks owned at
the start and those the upstream allocator hands out during the history are well formed and pairwise disjoint (what
`malloc`/`mmap` guarantee; not provable about the library).
-/
namespace MemVerif.Props.C01Stack
open MemVerif.Model

/-- **`memory_stack`: live allocations never overlap and lie inside the stack's blocks, at every point of every
history.** -/
theorem C01_stack_live_disjoint_inside (cfg : Cfg) (e : EnvS) (hf : cfg.fence ≤ 2 ^ 16) (s : MemStack) (hs : s.Inv)
    (hsrc : s.arena.src.NonStatic) (k : Nat) (ops : List SOp) (hw : SOpsWf ops)
    (hlen : s.arena.used.length + s.arena.cached.length + (runOps cfg e s k ops).acquired.length < 2 ^ 64)
    (henv : BlocksOk (s.arena.used ++ s.arena.cached ++ (runOps cfg e s k ops).acquired))
    (live : List (Nat × Nat)) (hq : SQ s.cur s.arena.used live) :
    (topLive cfg e s k live ops).Pairwise RDisj ∧
    ∀ a ∈ topLive cfg e s k live ops, ∃ b ∈ (runOps cfg e s k ops).st.arena.used,
      b.base + implOff ≤ a.1 ∧ a.1 + a.2 ≤ b.base + b.size := by
  have h := sq_ops cfg e hf ops s k live ⟨hs.nonempty, hs.cached, hsrc⟩ hw hlen henv hq
  exact ⟨h.apart, fun a ha => let ⟨b, hb, h1, h2, _⟩ := h.inside a ha; ⟨b, hb, h1, h2⟩⟩

/-- a stack on which nothing is live (for instance a new one) satisfies the placement invariant -/
theorem C01_stack_initial (s : MemStack) (hs : s.Inv) : SQ s.cur s.arena.used [] :=
  ⟨hs.curIn, (fun _ h => nomatch h), List.Pairwise.nil⟩

def exS : MemStack := { arena := { src := .growing 2 1 8192, isCached := true, used := [⟨1048576, 4096⟩] }, cur := 1048592 }
def exE : EnvS := fun k => some (2097152 + k * 65536)
def exOps : List SOp := [.alloc 100 8, .scope [.alloc 5000 16, .alloc 7 1], .tryAlloc 64 16, .alloc 6000 8]


/-- non-vacuity: a concrete history (a block acquired inside a scope is reused from the cache afterwards) meets every
hypothesis of `C01_stack_live_disjoint_inside`, and its ledger is the expected one -/
example : exS.Inv ∧ exS.arena.src.NonStatic ∧ SOpsWf exOps ∧
    BlocksOk (exS.arena.used ++ exS.arena.cached ++ (runOps {} exE exS 0 exOps).acquired) ∧
    topLive {} exE exS 0 [] exOps = [(2097168, 6000), (1048704, 64), (1048592, 100)] ∧
    (runOps {} exE exS 0 exOps).st.arena.used = [⟨2097152, 8192⟩, ⟨1048576, 4096⟩] := by
  refine ⟨⟨by decide, rfl, ?_, ?_, ?_⟩, trivial, ?_, by decide, by decide, by decide⟩
  · intro b hb
    simp only [exS, List.mem_singleton] at hb
    subst hb
    exact ⟨by decide, by decide, by decide⟩
  · intro b hb; cases hb
  · intro b hb
    simp only [exS, List.head?_cons, Option.some.injEq] at hb
    subst hb
    exact ⟨by decide, by decide⟩
  · simp only [exOps, SOpsWf, SOpWf]
    exact ⟨⟨by omega, 3, by omega, rfl⟩, ⟨⟨by omega, 4, by omega, rfl⟩, ⟨by omega, 0, by omega, rfl⟩, trivial⟩,
      ⟨by omega, 4, by omega, rfl⟩, ⟨by omega, 3, by omega, rfl⟩, trivial⟩
end MemVerif.Props.C01Stack
