import MemVerif.Lemmas.C04CollArr
import MemVerif.Props.C04Coll
/-!
C04 for `memory_pool_collection` over the intrusive free lists, **node and array operations**, every history: no
bucket loses a cell. The ledger of `Model/CollRunA.lean` is a list of cells (an array is its consecutive cells), so the
per-bucket measure "free cells + cells the caller holds" covers arrays; it never decreases, and once nothing is held every
bucket's `capacity()` is at least its capacity at the start plus the cells that were held.

`…_partial`: `small_node_pool` buckets stay at the correspondence level (`checks/c04.py`).
-/
namespace MemVerif.Props.C04CollArr
open MemVerif.Model MemVerif.Gen

/-- **C04 (accounting), collections, node and array operations.** -/
theorem C04_coll_array_measure_monotone_partial (cfg : Cfg) (e : EnvS) (arr arrLen : Nat) (hf : cfg.fence ≤ 2 ^ 32) (g : GCollA)
    (k : Nat) (ops : List COpA) (hfit : ∀ op ∈ ops, op.Fits) (hI : CInv arr arrLen g.c g.live)
    (henv : BlocksOk (g.run cfg e k ops).1.c.arena.used) (j : Nat) :
    g.c.measure g.live j ≤ (g.run cfg e k ops).1.c.measure (g.run cfg e k ops).1.live j :=
  (GCollA.run_measure cfg e hf ops g k hfit (C04Coll.allIntr_of_inv hI) hI henv j).2

/-- **C04 (no capacity lost), collections, node and array operations.** If at the end of a history the caller holds
nothing, every bucket's `capacity()` is at least its capacity at the start plus the number of its cells that were held. -/
theorem C04_coll_array_no_capacity_lost_partial (cfg : Cfg) (e : EnvS) (arr arrLen : Nat) (hf : cfg.fence ≤ 2 ^ 32) (g : GCollA)
    (k : Nat) (ops : List COpA) (hfit : ∀ op ∈ ops, op.Fits) (hI : CInv arr arrLen g.c g.live)
    (henv : BlocksOk (g.run cfg e k ops).1.c.arena.used) (hend : (g.run cfg e k ops).1.live = []) (j : Nat) :
    C04Coll.capacityAt g.c j + g.c.liveAt g.live j ≤ C04Coll.capacityAt (g.run cfg e k ops).1.c j := by
  have hm := C04_coll_array_measure_monotone_partial cfg e arr arrLen hf g k ops hfit hI henv j
  have hI' := GCollA.run_inv cfg e hf ops g k hfit hI henv
  rw [C04Coll.capacity_eq_cells hI, C04Coll.capacity_eq_cells hI']
  unfold Coll.measure at hm
  rw [hend] at hm
  simpa [Coll.liveAt] using hm

/-- **An array request served from the list takes exactly its cells, a release of a held array returns exactly them** -/
theorem C04_coll_array_release_exact (cfg : Cfg) {arr arrLen : Nat} {c : Coll} {live : List (Nat × Nat)}
    (h : CInv arr arrLen c live) {a count s : Nat} {l : AnyList} (hl : c.lists[c.listIndex s]? = some l)
    (hsub : ∀ x ∈ arrEntries l.nodeSize a s (arrCells l.nodeSize count s), x ∈ live) (j : Nat) :
    (c.deallocateArray cfg a count s).st.measure (removeEntries live (arrEntries l.nodeSize a s (arrCells l.nodeSize count s))) j
      = c.measure live j :=
  Coll.deallocateArray_measure cfg h hl hsub j

/-- **`reserve(size, capacity)` gains memory for its bucket** (the D34 repair): whenever it succeeds, the bucket of
`size` has at least one free cell more than before, and no other bucket has fewer. -/
theorem C04_coll_reserve_gains (cfg : Cfg) {arr arrLen : Nat} {c : Coll} {live : List (Nat × Nat)} (h : CInv arr arrLen c live)
    (size capacity : Nat) (env : List (Option Nat)) (hd : (c.reserveOp cfg size capacity env).out = .done) :
    c.cellsAt (c.listIndex size) + 1 ≤ (c.reserveOp cfg size capacity env).st.cellsAt (c.listIndex size) ∧
    ∀ j, c.cellsAt j ≤ (c.reserveOp cfg size capacity env).st.cellsAt j := by
  have hi := C04Coll.allIntr_of_inv h
  refine ⟨?_, (Coll.reserveOp_grow cfg c size capacity env).cells hi⟩
  unfold Coll.reserveOp at hd ⊢
  simp only at hd ⊢
  cases hl : c.lists[c.listIndex size]? with
  | none => simp [hl] at hd
  | some l =>
    simp only [hl] at hd ⊢
    exact Coll.refill_gains cfg c hi _ _ env hd

/-- satisfiable and attained (a test, labelled as a test): the history of `C01CollArr.demo` followed by the release of
everything: afterwards nothing is held and every bucket's capacity equals its free cells -/
def demo : Bool :=
  let cfg : Cfg := { fence := 8, dblDealloc := true, assert := true }
  let e : EnvS := fun k => if k = 0 then some 4096 else if k = 1 then some 65536 else if k = 2 then some 300000 else none
  let ops : List COpA := [.allocArray 3 16, .node (.allocNode 16), .allocArray 5 24, .tryAllocArray 2 16, .deallocArray 2,
    .allocArray 40 16, .node (.allocNode 24), .deallocArray 0, .allocArray 4 8, .tryAllocArray 1000 8,
    .deallocArray 0, .deallocArray 0, .deallocArray 0, .node (.dealloc 0), .node (.dealloc 0)]
  match Coll.create cfg (.growing 2 1 2000) "ord" .identity true 24 [e 0] with
  | (some c0, _, _) =>
    let g := (GCollA.run cfg e { c := c0 } 1 ops).1
    decide (g.live = []) && decide (g.arrs = []) &&
      decide ((List.range 17).map (C04Coll.capacityAt g.c) = (List.range 17).map g.c.cellsAt) &&
      decide (0 < C04Coll.capacityAt g.c 0 ∧ 0 < C04Coll.capacityAt g.c 8 ∧ 0 < C04Coll.capacityAt g.c 16)
  | _ => false

example : demo = true := by decide

end MemVerif.Props.C04CollArr
