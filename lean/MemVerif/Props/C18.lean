import MemVerif.Lemmas.C18
/-!
# C18 — capacity figures are truthful

"An allocator constructed with the block size returned by `min_block_size` for `n` nodes can serve `n` allocations
without growing."

The formulas are the *generated* translations of the C++ (`MemVerif.Gen`: `freeListMinBlockSize`,
`orderedListMinBlockSize`, `smallListMinBlockSize`, `implementationOffset`), evaluated in `BitVec 64`
(= `size_t`); the consumers are the executable list / arena / stack models. Every theorem quantifies over all
node sizes and counts; the only hypotheses are explicit no-overflow bounds (`min_block_size` itself wraps silently
when the product exceeds `2^64`, see `C18_min_block_wraps`).

`memory_pool::min_block_size` and `memory_stack::min_block_size` are one-line sums in the headers
(`implementation_offset() + …`) that the translator does not emit as separate functions; they are transcribed
here as `poolMinBlockSize` / `stackMinBlockSize` on top of the generated `implementationOffset`.
-/
namespace MemVerif.Props.C18
open MemVerif.Gen MemVerif.Model

/-! ## 1. intrusive lists -/

/-- **free list**: inserting a block of `min_block_size(ns, n)` bytes into a fresh list succeeds and yields exactly
`n` nodes (the capacity counter and the actual node sequence agree on it). -/
theorem C18_min_block_suffices_free (ns n : BitVec 64) (mem : Nat)
    (hov : max ns.toNat 8 * n.toNat < 2 ^ 64) (hn : 0 < n.toNat) :
    ∃ l', (FreeList.new ns.toNat).insertImpl mem (freeListMinBlockSize ns n).toNat = some l' ∧
      l'.cap = n.toNat ∧ l'.nodes.length = n.toNat ∧
      l'.nodes = blockNodes mem (max ns.toNat 8) n.toNat := by
  have hd := minBlock_div ns n hov
  refine ⟨{ FreeList.new ns.toNat with
              nodes := blockNodes mem (intrusiveNodeSize ns.toNat) n.toNat ++ [], cap := 0 + n.toNat }, ?_, ?_, ?_, ?_⟩
  · have hd' : (freeListMinBlockSize ns n).toNat / (FreeList.new ns.toNat).ns = n.toNat := hd
    have hn0 : n.toNat ≠ 0 := by omega
    simp only [FreeList.insertImpl, hd', hn0, ↓reduceIte]
    rfl
  · simp
  · simp [blockNodes_length]
  · simp [intrusiveNodeSize_eq]

/-- **ordered list**, node count: `insert_impl` cuts `size / node_size` nodes, which is exactly `n`. -/
theorem C18_min_block_suffices_ordered (ns n : BitVec 64) (B E : Nat)
    (hov : max ns.toNat 8 * n.toNat < 2 ^ 64) :
    let l := OrdList.new ns.toNat B E
    (orderedListMinBlockSize ns n).toNat / l.ns = n.toNat := by
  intro l
  exact minBlock_div ns n hov

/-- `find_pos` on a fresh (empty) ordered list, for a block that does not lie between the two proxy words -/
theorem findPos_new (nodeSize B E : Nat) (dbl : Bool) (m : Nat) (hm : m < E ∨ B < m) :
    (OrdList.new nodeSize B E).findPos dbl m = .pos 0 1 := by
  unfold OrdList.findPos
  simp only [OrdList.new, OrdList.posOf, OrdList.addrA, List.size_toArray, List.length_nil]
  by_cases hEB : E = B
  · subst hEB
    simp only [↓reduceIte]
    by_cases h1 : E > m
    · simp [h1]
    · have h2 : E < m := by omega
      simp [h1, h2]
  · simp only [hEB, ↓reduceIte]
    by_cases h1 : E > m
    · simp [h1]
    · have h2 : B < m := by omega
      simp [h1, h2]

/-- the interval assertion cannot fail on a fresh (empty) list -/
theorem intervalAssertFails_new (nodeSize B E : Nat) (m : Nat) (hm : m < E ∨ B < m) :
    (OrdList.new nodeSize B E).intervalAssertFails m = false := by
  unfold OrdList.intervalAssertFails
  simp only [OrdList.new, OrdList.posOf, OrdList.addr, List.length_nil]
  by_cases hEB : E = B
  · subst hEB
    simp only [↓reduceIte]
    by_cases h1 : E > m
    · simp [h1]
    · have h2 : E < m := by omega
      simp [h1, h2]
  · simp only [hEB, ↓reduceIte]
    by_cases h1 : E > m
    · simp [h1]
    · have h2 : B < m := by omega
      simp [h1, h2]

/-- **ordered list**, full statement: the insert into a fresh list succeeds (in every configuration) and yields
exactly `n` nodes. `mem < E ∨ B < mem`: the block is not squeezed between the two proxy words of the list object
(always true: the proxies are adjacent members of the list object). -/
theorem C18_min_block_suffices_ordered_insert (cfg : Cfg) (ns n : BitVec 64) (B E mem : Nat)
    (hov : max ns.toNat 8 * n.toNat < 2 ^ 64) (hn : 0 < n.toNat) (hm : mem < E ∨ B < mem) :
    ∃ l', OrdList.insert cfg (OrdList.new ns.toNat B E) mem (orderedListMinBlockSize ns n).toNat = .ok l' ∧
      l'.cap = n.toNat ∧ l'.nodes.length = n.toNat ∧ l'.nodes = blockNodes mem (max ns.toNat 8) n.toNat := by
  have hd := minBlock_div ns n hov
  have hf := findPos_new ns.toNat B E cfg.dblDealloc mem hm
  have hd' : (orderedListMinBlockSize ns n).toNat / (OrdList.new ns.toNat B E).ns = n.toNat := hd
  have hn0 : n.toNat ≠ 0 := by omega
  have hA := intervalAssertFails_new ns.toNat B E mem hm
  simp only [OrdList.insert, OrdList.insertImpl, hf, hd', hn0, hA, Bool.and_false, Bool.false_eq_true, ↓reduceIte, Nat.zero_add,
    ne_eq, not_true_eq_false]
  refine ⟨_, rfl, ?_, ?_, ?_⟩
  · simp [OrdList.new]
  · simp [OrdList.spliceAt, OrdList.new, blockNodes_length]
  · simp [OrdList.spliceAt, OrdList.new, intrusiveNodeSize_eq]

/-- the no-overflow hypothesis is necessary: `min_block_size(2^32, 2^32)` wraps to 0 and the insert is undefined
behaviour (`no_nodes == 0`) -/
theorem C18_min_block_wraps :
    freeListMinBlockSize (BitVec.ofNat 64 (2 ^ 32)) (BitVec.ofNat 64 (2 ^ 32)) = 0#64 ∧
    (FreeList.new (2 ^ 32)).insertImpl 4096 (freeListMinBlockSize (BitVec.ofNat 64 (2 ^ 32)) (BitVec.ofNat 64 (2 ^ 32))).toNat
      = none := by
  constructor <;> decide

example : ∃ l', (FreeList.new 4).insertImpl 4096 (freeListMinBlockSize 4#64 10#64).toNat = some l' ∧
    l'.cap = 10 ∧ l'.nodes.length = 10 ∧ l'.nodes = blockNodes 4096 8 10 :=
  C18_min_block_suffices_free 4#64 10#64 4096 (by decide) (by decide)

example : ∃ l', OrdList.insert {} (OrdList.new 24 100 108) 4096 (orderedListMinBlockSize 24#64 7#64).toNat = .ok l' ∧
    l'.cap = 7 ∧ l'.nodes.length = 7 ∧ l'.nodes = blockNodes 4096 24 7 :=
  C18_min_block_suffices_ordered_insert {} 24#64 7#64 100 108 4096 (by decide) (by decide) (by decide)

/-! ## 2. small list -/

/-- `padded_chunk_size(ns)` is exactly the distance between two chunk headers laid out by `insert`
(`total_chunk_size + align_offset(total_chunk_size, alignof(chunk))`). -/
theorem C18_padded_chunk_size_is_stride (ns : BitVec 64) (h : 32 + 255 * ns.toNat + 7 < 2 ^ 64) :
    (smallPaddedChunkSize ns).toNat =
      (chunkOff + ns.toNat * chunkMax) + alignOff (chunkOff + ns.toNat * chunkMax) C.alignof_chunk.toNat :=
  smallPaddedChunkSize_eq_stride ns h

/-- **small list, tightest form**: whenever neither `padded_chunk_size(ns)` nor the product
`chunk_count(n) * padded_chunk_size(ns)` overflows, a block of `min_block_size(ns, n)` bytes is cut into exactly
`chunk_count(n)` full chunks, which hold `255 * chunk_count(n) ≥ n` nodes (and fewer than `n + 255`: no more than
one chunk is wasted). For `ns ≥ 1` that count is the real total capacity of the chunks created. -/
theorem C18_min_block_suffices_small_tight (ns n : BitVec 64) (mem : Nat)
    (h1 : 32 + 255 * ns.toNat + 7 < 2 ^ 64)
    (h2 : (smallChunkCount n).toNat * (smallPaddedChunkSize ns).toNat < 2 ^ 64) :
    let r := smallInsertChunks ns.toNat mem (smallListMinBlockSize ns n).toNat
    n.toNat ≤ r.2 ∧ r.2 < n.toNat + 255 ∧ r.2 = 255 * (smallChunkCount n).toNat ∧
    r.1.length = (smallChunkCount n).toNat ∧
    (1 ≤ ns.toNat → (r.1.map Chunk.capacity).sum = r.2 ∧ ∀ c ∈ r.1, c.noNodes = 255 ∧ c.free = List.range 255) := by
  intro r
  rw [smallPaddedChunkSize_eq_stride ns h1] at h2
  have hsz := smallListMinBlockSize_toNat ns n h1 h2
  have hr : r = ((List.range (smallChunkCount n).toNat).map fun i =>
      Chunk.make (mem + i * smallStride ns.toNat) (chunkOff + ns.toNat * chunkMax) ns.toNat,
      (smallChunkCount n).toNat * chunkMax) := by
    show smallInsertChunks ns.toNat mem (smallListMinBlockSize ns n).toNat = _
    rw [hsz, smallInsertChunks_mul]
  have hs := smallChunkCount_spec n
  have hr2 : r.2 = 255 * (smallChunkCount n).toNat := by
    rw [hr]; show _ * chunkMax = _; rw [chunkMax_eq]; omega
  refine ⟨by omega, by omega, hr2, by rw [hr]; simp, ?_⟩
  intro hns
  refine ⟨smallInsertChunks_sum _ _ _ hns, ?_⟩
  intro c hc
  rw [hr] at hc
  simp only [List.mem_map, List.mem_range] at hc
  obtain ⟨i, _, rfl⟩ := hc
  have := Chunk.make_full (mem + i * smallStride ns.toNat) ns.toNat hns
  exact ⟨this.1, this.2.2⟩

/-- **small list**: with the explicit bound `ns ≤ 2^32`, `n ≤ 2^24` (which excludes every overflow) a block of
`min_block_size(ns, n)` bytes gives at least `n` nodes. -/
theorem C18_min_block_suffices_small (ns n : BitVec 64) (mem : Nat)
    (hns : ns.toNat ≤ 2 ^ 32) (hn : n.toNat ≤ 2 ^ 24) :
    n.toNat ≤ (smallInsertChunks ns.toNat mem (smallListMinBlockSize ns n).toNat).2 := by
  obtain ⟨h1, h2⟩ := small_noOverflow ns n hns hn
  rw [← smallPaddedChunkSize_eq_stride ns h1] at h2
  exact (C18_min_block_suffices_small_tight ns n mem h1 h2).1

/-- the list-level consequence: `insert` succeeds and the capacity counter is at least `n`, and it is truthful
(equal to the sum of the chunk capacities). -/
theorem C18_min_block_suffices_small_insert (ns n : BitVec 64) (P mem : Nat)
    (hns1 : 1 ≤ ns.toNat) (hn1 : 1 ≤ n.toNat) (hns : ns.toNat ≤ 2 ^ 32) (hn : n.toNat ≤ 2 ^ 24) :
    ∃ l', (SmallList.new ns.toNat P).insert mem (smallListMinBlockSize ns n).toNat = some l' ∧
      n.toNat ≤ l'.cap ∧ l'.cap = (l'.chunks.map Chunk.capacity).sum := by
  obtain ⟨h1, h2⟩ := small_noOverflow ns n hns hn
  rw [← smallPaddedChunkSize_eq_stride ns h1] at h2
  have ht := C18_min_block_suffices_small_tight ns n mem h1 h2
  simp only at ht
  obtain ⟨ha, _, hb, hlen, hsum⟩ := ht
  have hsum := (hsum hns1).1
  rcases hr : smallInsertChunks ns.toNat mem (smallListMinBlockSize ns n).toNat with ⟨cs, k⟩
  rw [hr] at ha hb hlen hsum
  simp only at ha hb hlen hsum
  simp only [SmallList.insert, SmallList.new, hr]
  have hne : cs.isEmpty = false := by
    cases cs with
    | nil => simp at hlen; omega
    | cons c cs => rfl
  simp only [hne, Bool.false_eq_true, ↓reduceIte, Nat.zero_add]
  refine ⟨_, rfl, ha, ?_⟩
  simp only
  cases cs with
  | nil => simp at hne
  | cons c cs =>
    simp only [List.map_cons, List.sum_cons] at hsum
    simp [insertSorted]; omega

example : (1000 : Nat) ≤ (smallInsertChunks 3 4096 (smallListMinBlockSize 3#64 1000#64).toNat).2 :=
  C18_min_block_suffices_small 3#64 1000#64 4096 (by decide) (by decide)

example : ∃ l', (SmallList.new 3 64).insert 4096 (smallListMinBlockSize 3#64 1000#64).toNat = some l' ∧
    1000 ≤ l'.cap ∧ l'.cap = (l'.chunks.map Chunk.capacity).sum :=
  C18_min_block_suffices_small_insert 3#64 1000#64 64 4096 (by decide) (by decide) (by decide) (by decide)

/-! ## 3. the defect the padding repaired (D13) -/

/-- With the OLD formula `chunk_count(n) * (chunk_memory_offset + 255 * ns)` the claim fails: for `ns = 1`,
`n = 510` the block has `2 * 287 = 574` bytes, but the second chunk starts at the 8-aligned offset 288 and only
286 bytes remain for it: 255 + 254 = 509 nodes < 510. Holds for every block address `mem`. -/
theorem C18_small_counterexample_without_padding (mem : Nat) :
    (smallInsertChunks 1 mem (2 * (32 + 255))).2 = 509 ∧ 509 < 510 ∧
    (smallChunkCount 510#64).toNat * (32 + 255 * 1) = 2 * (32 + 255) := by
  refine ⟨?_, by decide, by decide⟩
  rw [smallInsertChunks_eq]
  have hs : smallStride 1 = 288 := by decide
  rw [hs, if_pos (by decide)]
  show 2 * (32 + 255) / 288 * chunkMax + ((2 * (32 + 255) % 288 - chunkOff) / 1 % 256) = 509
  decide

/-- the repaired formula on the same instance: 576 bytes, 510 nodes -/
theorem C18_small_repaired_instance (mem : Nat) :
    (smallListMinBlockSize 1#64 510#64).toNat = 576 ∧ (smallInsertChunks 1 mem 576).2 = 510 := by
  refine ⟨by decide, ?_⟩
  rw [smallInsertChunks_eq]
  have hs : smallStride 1 = 288 := by decide
  rw [hs, if_neg (by decide)]
  show 576 / 288 * chunkMax = 510
  decide

/-! ## 4. memory_pool -/

/-- `memory_pool::min_block_size(ns, n)` = `memory_block_stack::implementation_offset() + list min_block_size` -/
def poolMinBlockSize (listMin : BitVec 64) : BitVec 64 := implementationOffset + listMin

/-- the arena hands `block_size - implementation_offset` usable bytes to the list -/
theorem C18_pool_min_block (base s : Nat) : (Blk.usable ⟨base, implOff + s⟩).size = s :=
  Blk.usable_size base s

theorem poolMinBlockSize_toNat (m : BitVec 64) (h : 16 + m.toNat < 2 ^ 64) :
    (poolMinBlockSize m).toNat = implOff + m.toNat := by
  unfold poolMinBlockSize
  rw [BitVec.toNat_add, implementationOffset_toNat, implOff_eq16, Nat.mod_eq_of_lt h]

/-- the constructor of a pool on a fixed block source whose block is `bs` bytes at `base`: the list receives
the usable part -/
theorem Pool.create_fixed (cfg : Cfg) (bs base : Nat) (list : AnyList) (arrays : Bool) (hbs : bs ≠ 0) :
    Pool.create cfg (.fixed bs) list arrays [some base] =
      match list.insert cfg (base + implOff) (bs - implOff) with
      | .ok l => ⟨{ arena := { src := .fixed 0, isCached := false, used := [⟨base, bs⟩] }, list := l, arrays := arrays },
                  .done, [.alloc bs maxAlign (some base)]⟩
      | .handler k => ⟨{ arena := { src := .fixed 0, isCached := false, used := [⟨base, bs⟩] }, list := list,
                         arrays := arrays }, .handler k, [.alloc bs maxAlign (some base)]⟩
      | .crash => ⟨{ arena := { src := .fixed 0, isCached := false, used := [⟨base, bs⟩] }, list := list,
                     arrays := arrays }, .crash, [.alloc bs maxAlign (some base)]⟩ := by
  simp only [Pool.create, Pool.allocateBlock, Arena.allocateBlock, Src.allocateBlock, hbs, ne_eq,
    not_false_eq_true, ↓reduceIte, Blk.usable]
  generalize AnyList.insert cfg list (base + implOff) (bs - implOff) = r
  cases r <;> rfl

/-- **pool over the free list**: a pool created on a block of `min_block_size(ns, n)` bytes has exactly `n` nodes
after its constructor's insert. -/
theorem C18_pool_min_block_free (cfg : Cfg) (ns n : BitVec 64) (base : Nat) (arrays : Bool)
    (hov : 16 + max ns.toNat 8 * n.toNat < 2 ^ 64) (hn : 0 < n.toNat) :
    let r := Pool.create cfg (.fixed (poolMinBlockSize (freeListMinBlockSize ns n)).toNat)
      (.free (FreeList.new ns.toNat)) arrays [some base]
    r.out = .done ∧ r.st.list.capacity = n.toNat := by
  intro r
  have hov' : max ns.toNat 8 * n.toNat < 2 ^ 64 := by omega
  have hm := freeListMinBlockSize_toNat ns n hov'
  have hp := poolMinBlockSize_toNat (freeListMinBlockSize ns n) (by omega)
  obtain ⟨l', hi, hc, _⟩ := C18_min_block_suffices_free ns n (base + implOff) hov' hn
  have hr : r = _ := Pool.create_fixed cfg _ base (.free (FreeList.new ns.toNat)) arrays
    (by rw [hp, implOff_eq16]; omega)
  rw [hp, Nat.add_sub_cancel_left] at hr
  simp only [AnyList.insert, FreeList.insert, hi] at hr
  rw [hr]
  exact ⟨rfl, hc⟩

/-- **pool over the ordered list** (`B`, `E`: addresses of the two proxy words inside the pool object) -/
theorem C18_pool_min_block_ordered (cfg : Cfg) (ns n : BitVec 64) (B E base : Nat) (arrays : Bool)
    (hov : 16 + max ns.toNat 8 * n.toNat < 2 ^ 64) (hn : 0 < n.toNat)
    (hm : base + implOff < E ∨ B < base + implOff) :
    let r := Pool.create cfg (.fixed (poolMinBlockSize (orderedListMinBlockSize ns n)).toNat)
      (.ord (OrdList.new ns.toNat B E)) arrays [some base]
    r.out = .done ∧ r.st.list.capacity = n.toNat := by
  intro r
  have hov' : max ns.toNat 8 * n.toNat < 2 ^ 64 := by omega
  have hm' := freeListMinBlockSize_toNat ns n hov'
  have hp := poolMinBlockSize_toNat (orderedListMinBlockSize ns n) (by rw [orderedListMinBlockSize_eq]; omega)
  obtain ⟨l', hi, hc, _⟩ := C18_min_block_suffices_ordered_insert cfg ns n B E (base + implOff) hov' hn hm
  have hr : r = _ := Pool.create_fixed cfg _ base (.ord (OrdList.new ns.toNat B E)) arrays
    (by rw [hp, implOff_eq16]; omega)
  rw [hp, Nat.add_sub_cancel_left] at hr
  simp only [AnyList.insert, hi] at hr
  rw [hr]
  exact ⟨rfl, hc⟩

/-- **pool over the small list**: at least `n` nodes -/
theorem C18_pool_min_block_small (cfg : Cfg) (ns n : BitVec 64) (P base : Nat) (arrays : Bool)
    (hns1 : 1 ≤ ns.toNat) (hn1 : 1 ≤ n.toNat) (hns : ns.toNat ≤ 2 ^ 32) (hn : n.toNat ≤ 2 ^ 24) :
    let r := Pool.create cfg (.fixed (poolMinBlockSize (smallListMinBlockSize ns n)).toNat)
      (.small (SmallList.new ns.toNat P)) arrays [some base]
    r.out = .done ∧ n.toNat ≤ r.st.list.capacity := by
  intro r
  obtain ⟨h1, h2⟩ := small_noOverflow ns n hns hn
  have hsz := smallListMinBlockSize_toNat ns n h1 h2
  have hlt : (smallListMinBlockSize ns n).toNat < 2 ^ 63 := by
    rw [hsz]
    have hs : smallStride ns.toNat ≤ 2 ^ 41 := by rw [smallStride_eq _ (by omega)]; omega
    have hc : (smallChunkCount n).toNat ≤ 2 ^ 17 := by have := (smallChunkCount_spec n).2; omega
    calc (smallChunkCount n).toNat * smallStride ns.toNat ≤ 2 ^ 17 * 2 ^ 41 := Nat.mul_le_mul hc hs
      _ < 2 ^ 63 := by decide
  have hp := poolMinBlockSize_toNat (smallListMinBlockSize ns n) (by omega)
  obtain ⟨l', hi, hc, _⟩ := C18_min_block_suffices_small_insert ns n P (base + implOff) hns1 hn1 hns hn
  have hr : r = _ := Pool.create_fixed cfg _ base (.small (SmallList.new ns.toNat P)) arrays
    (by rw [hp, implOff_eq16]; omega)
  rw [hp, Nat.add_sub_cancel_left] at hr
  simp only [AnyList.insert, hi] at hr
  rw [hr]
  exact ⟨rfl, hc⟩

example :
    let r := Pool.create {} (.fixed (poolMinBlockSize (freeListMinBlockSize 24#64 100#64)).toNat)
      (.free (FreeList.new 24)) true [some 4096]
    r.out = .done ∧ r.st.list.capacity = 100 :=
  C18_pool_min_block_free {} 24#64 100#64 4096 true (by decide) (by decide)

example :
    let r := Pool.create {} (.fixed (poolMinBlockSize (orderedListMinBlockSize 24#64 100#64)).toNat)
      (.ord (OrdList.new 24 64 72)) true [some 4096]
    r.out = .done ∧ r.st.list.capacity = 100 :=
  C18_pool_min_block_ordered {} 24#64 100#64 64 72 4096 true (by decide) (by decide) (by decide)

example :
    let r := Pool.create {} (.fixed (poolMinBlockSize (smallListMinBlockSize 3#64 1000#64)).toNat)
      (.small (SmallList.new 3 64)) false [some 4096]
    r.out = .done ∧ 1000 ≤ r.st.list.capacity :=
  C18_pool_min_block_small {} 3#64 1000#64 64 4096 false (by decide) (by decide) (by decide) (by decide)

/-! ## 5. memory_stack -/

/-- `memory_stack::min_block_size(bytes)` = `implementation_offset() + bytes` -/
def stackMinBlockSize (bytes : BitVec 64) : BitVec 64 := implementationOffset + bytes

/-- the formula above is what the source says: `memory_stack::min_block_size` and `memory_arena::min_block_size` as
regenerated from the headers by the translator -/
theorem C18_stack_min_block_matches_code (bytes : BitVec 64) :
    stackMinBlockSize bytes = stackMinBlockSizeT bytes ∧ stackMinBlockSize bytes = arenaMinBlockSizeT bytes := ⟨rfl, rfl⟩

/-- **stack**: a `memory_stack` created on a block of `min_block_size(bytes)` has exactly `bytes` bytes of
capacity left (block below `2^62`; fixed or growing block source). -/
theorem C18_stack_min_block_exact (bytes : BitVec 64) (base num den : Nat) (src : Src)
    (hsrc : src = .fixed (stackMinBlockSize bytes).toNat ∨ src = .growing num den (stackMinBlockSize bytes).toNat)
    (hb : base + 16 + bytes.toNat < 2 ^ 62) :
    ∃ s, (MemStack.create src [some base]).1 = some s ∧ s.capacityLeft = some bytes.toNat ∧
      s.cur = base + implOff := by
  have hp : (stackMinBlockSize bytes).toNat = implOff + bytes.toNat :=
    poolMinBlockSize_toNat bytes (by omega)
  have hcap : sub64 (base + implOff + (implOff + bytes.toNat - implOff)) (base + implOff) = bytes.toNat := by
    rw [sub64_eq (by omega) (by rw [implOff_eq16]; omega)]; omega
  rcases hsrc with rfl | rfl <;> rw [hp]
  · refine ⟨{ arena := { src := .fixed 0, isCached := true, used := [⟨base, implOff + bytes.toNat⟩] },
              cur := base + implOff }, ?_, ?_, rfl⟩
    · simp [MemStack.create, Arena.allocateBlock, Src.allocateBlock, Blk.usable, implOff_eq16]
    · simp only [MemStack.capacityLeft, MemStack.blockEnd, Arena.currentBlock, List.head?_cons, Option.map_some,
        Blk.usable, hcap]
  · refine ⟨{ arena := { src := .growing num den (growBlock num den (implOff + bytes.toNat)), isCached := true,
                         used := [⟨base, implOff + bytes.toNat⟩] },
              cur := base + implOff }, ?_, ?_, rfl⟩
    · simp [MemStack.create, Arena.allocateBlock, Src.allocateBlock, Blk.usable]
    · simp only [MemStack.capacityLeft, MemStack.blockEnd, Arena.currentBlock, List.head?_cons, Option.map_some,
        Blk.usable, hcap]

example : ∃ s, (MemStack.create (.fixed (stackMinBlockSize 1000#64).toNat) [some 4096]).1 = some s ∧
    s.capacityLeft = some 1000 ∧ s.cur = 4096 + implOff :=
  C18_stack_min_block_exact 1000#64 4096 0 0 _ (Or.inl rfl) (by decide)

end MemVerif.Props.C18
