import MemVerif.Lemmas.C06
/-!
# C06 — unwinding a memory stack restores exactly the state at the marker

Model: `MemVerif.Model.MemStack` (Stack.lean), histories `SOp` with nested marker scopes (StackRun.lean):
`scope ops` is `m := top(); ops; unwind(m)`. All statements quantify over every configuration `cfg` (fences,
assertions, pointer checks on or off), every upstream environment `e`, every reachable (`Inv`) state and every
history, with no bound on length or nesting depth.

Hypotheses that appear below and why (each was *forced* by the proof; the counterexamples are machine-checked in
`Lemmas/C06Cex.lean`):
* `hsrc` — the block source is not `static_block_allocator`: the model's `acquired` list is built from upstream
  events, which a static source does not emit (`scope_restores_counterexample`). Static sources are covered by
  the correspondence check only.
* `hlen` — fewer than 2^64 blocks exist: `unwind` computes the number of blocks to pop in `size_t`
  (`wrap_counterexample`; needs an upstream that hands out the same block 2^64 times).
-/
namespace MemVerif.Props.C06
open MemVerif.Model

/-- **Unwind restores.** Running any history inside a marker scope and unwinding gives back the top pointer and the
used blocks of the state at the marker; the blocks acquired meanwhile are kept in the cache behind the previously
cached ones; no pointer check / assertion fires (`ok`); the leak counter and the invariant are kept. -/
theorem C06_unwind_restores (cfg : Cfg) (e : EnvS) (s : MemStack) (hs : s.Inv) (k : Nat) (ops : List SOp)
    (hacq : ∀ b ∈ (runOp cfg e s k (.scope ops)).acquired, b.Wf)
    (hsrc : ∀ c en b, s.arena.src ≠ .static_ c en b)
    (hlen : s.arena.used.length + s.arena.cached.length + (runOp cfg e s k (.scope ops)).acquired.length < 2 ^ 64) :
    let r := runOp cfg e s k (.scope ops)
    r.ok = true ∧ r.st.cur = s.cur ∧ r.st.arena.used = s.arena.used ∧
      r.st.arena.cached = s.arena.cached ++ r.acquired ∧ r.st.leak = s.leak ∧ r.st.Inv :=
  scope_restores' cfg e s hs k ops hacq hsrc hlen

/-- **Capacity restored** (corollary): `capacity_left` after the scope equals `capacity_left` at the marker. -/
theorem C06_capacity_restored (cfg : Cfg) (e : EnvS) (s : MemStack) (hs : s.Inv) (k : Nat) (ops : List SOp)
    (hacq : ∀ b ∈ (runOp cfg e s k (.scope ops)).acquired, b.Wf)
    (hsrc : ∀ c en b, s.arena.src ≠ .static_ c en b)
    (hlen : s.arena.used.length + s.arena.cached.length + (runOp cfg e s k (.scope ops)).acquired.length < 2 ^ 64) :
    (runOp cfg e s k (.scope ops)).st.capacityLeft = s.capacityLeft := by
  have h := scope_restores' cfg e s hs k ops hacq hsrc hlen
  simp only at h
  obtain ⟨_, h1, h2, _⟩ := h
  unfold MemStack.capacityLeft MemStack.blockEnd Arena.currentBlock
  rw [h1, h2]

/-- **Replay.** After the scope, the same requests yield the same results (addresses) as the first time,
served entirely from the block cache (nothing is acquired) — provided the first run saw no upstream failure. -/
theorem C06_replay_same_addresses (cfg : Cfg) (e e' : EnvS) (s : MemStack) (hs : s.Inv) (k k' : Nat)
    (ops : List SOp) (hnofail : ∀ o ∈ (runOps cfg e s k ops).outs, o ≠ .throws .upstream)
    (hsrc : ∀ c en b, s.arena.src ≠ .static_ c en b)
    (hlen : s.arena.used.length + s.arena.cached.length + (runOps cfg e s k ops).acquired.length < 2 ^ 64) :
    let u := (runOp cfg e s k (.scope ops)).st
    (runOps cfg e' u k' ops).outs = (runOps cfg e s k ops).outs ∧ (runOps cfg e' u k' ops).acquired = [] :=
  replay_same' cfg e e' s hs k k' ops hnofail hsrc hlen

/-- **Unwinding never talks to the block source**: blocks are kept for reuse until `shrink_to_fit`. -/
theorem C06_unwind_no_upstream (cfg : Cfg) (s : MemStack) (m : Marker) (hc : s.arena.isCached = true) :
    (s.unwindEv cfg m).2.2 = [] :=
  unwind_no_events cfg s m hc

/-- **Markers are totally ordered** (strict order, trichotomy). -/
theorem C06_marker_order (a b c : Marker) :
    a.lt a = false ∧ (a.lt b = true → b.lt c = true → a.lt c = true) ∧
      (a.lt b = true ∨ b.lt a = true ∨ (a.index = b.index ∧ a.top = b.top)) :=
  marker_order a b c

/-- **Marker order agrees with allocation order**: a marker taken later (after any history, nested scopes
included) is never below an earlier one. -/
theorem C06_marker_monotone (cfg : Cfg) (e : EnvS) (s : MemStack) (hs : s.Inv) (k : Nat) (ops : List SOp)
    (hw : SOpsWf ops) (hf : cfg.fence ≤ 2 ^ 16) (hacq : ∀ b ∈ (runOps cfg e s k ops).acquired, b.Wf) (m m' : Marker)
    (hm : s.top = some m) (hm' : (runOps cfg e s k ops).st.top = some m') : m.le m' = true :=
  marker_monotone cfg e s hs k ops hw hf hacq m m' hm hm'

/-- The hypotheses of `C06_unwind_restores` cannot simply be dropped: refutations of the statement without `hsrc`
(static source) and without `hlen` (2^64 blocks). -/
theorem C06_hypotheses_needed :
    (∃ (cfg : Cfg) (e : EnvS) (s : MemStack) (k : Nat) (ops : List SOp),
      s.Inv ∧ SOpsWf ops ∧ cfg.fence ≤ 2 ^ 16 ∧ (∀ b ∈ (runOp cfg e s k (.scope ops)).acquired, b.Wf) ∧
      (runOp cfg e s k (.scope ops)).st.arena.cached ≠ s.arena.cached ++ (runOp cfg e s k (.scope ops)).acquired) ∧
    (∃ (cfg : Cfg) (e e' : EnvS) (s : MemStack) (k k' : Nat) (ops : List SOp),
      s.Inv ∧ SOpsWf ops ∧ cfg.fence ≤ 2 ^ 16 ∧ (∀ b ∈ (runOps cfg e s k ops).acquired, b.Wf) ∧
      (∀ b ∈ (runOp cfg e s k (.scope ops)).acquired, b.Wf) ∧
      (∀ o ∈ (runOps cfg e s k ops).outs, o ≠ .throws .upstream) ∧
      (runOp cfg e s k (.scope ops)).st.arena.used ≠ s.arena.used ∧
      (runOps cfg e' (runOp cfg e s k (.scope ops)).st k' ops).outs ≠ (runOps cfg e s k ops).outs) :=
  ⟨scope_restores_counterexample, wrap_counterexample⟩

/-- non-vacuity: a fresh stack over a growing source on a 4096-byte block satisfies `Inv` and the side conditions -/
example : let s : MemStack := { arena := { src := .growing 2 1 8192, isCached := true, used := [⟨1048576, 4096⟩] }, cur := 1048592 }
    s.Inv ∧ ∀ c en b, s.arena.src ≠ .static_ c en b := by
  intro s
  refine ⟨⟨by decide, rfl, ?_, ?_, ?_⟩, by intro c en b h; cases h⟩
  · intro b hb
    simp only [s, List.mem_singleton] at hb
    subst hb
    exact ⟨by decide, by decide, by decide⟩
  · intro b hb; cases hb
  · intro b hb
    simp only [s, List.head?_cons, Option.some.injEq] at hb
    subst hb
    exact ⟨by decide, by decide⟩

end MemVerif.Props.C06
