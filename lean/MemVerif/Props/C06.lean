import MemVerif.Lemmas.C06
/-!
# C06 — unwinding a memory stack restores exactly the state at the marker

Model: `MemVerif.Model.MemStack` (Stack.lean), histories `SOp` with nested scopes (StackRun.lean).
All statements quantify over every configuration `cfg`, every upstream environment `e`, every reachable
(`Inv`) state and every well-formed history, with no bound on length or nesting.
-/
namespace MemVerif.Props.C06
open MemVerif.Model

/-- **Unwind restores.** Running any well-formed history inside a marker scope and unwinding gives back the
top pointer and the used blocks of the state at the marker; the blocks acquired meanwhile are kept in the
cache behind the previously cached ones; no pointer check / assertion fires; the invariant is kept. -/
theorem C06_unwind_restores (cfg : Cfg) (e : EnvS) (s : MemStack) (hs : s.Inv) (k : Nat) (ops : List SOp)
    (hw : SOpsWf ops) (hf : cfg.fence ≤ 2 ^ 16) (hacq : ∀ b ∈ (runOp cfg e s k (.scope ops)).acquired, b.Wf) :
    let r := runOp cfg e s k (.scope ops)
    r.ok = true ∧ r.st.cur = s.cur ∧ r.st.arena.used = s.arena.used ∧
      r.st.arena.cached = s.arena.cached ++ r.acquired ∧ r.st.leak = s.leak ∧ r.st.Inv :=
  scope_restores cfg e s hs k ops hw hf hacq

/-- **Capacity restored** (corollary): `capacity_left` after the scope equals `capacity_left` at the marker. -/
theorem C06_capacity_restored (cfg : Cfg) (e : EnvS) (s : MemStack) (hs : s.Inv) (k : Nat) (ops : List SOp)
    (hw : SOpsWf ops) (hf : cfg.fence ≤ 2 ^ 16) (hacq : ∀ b ∈ (runOp cfg e s k (.scope ops)).acquired, b.Wf) :
    (runOp cfg e s k (.scope ops)).st.capacityLeft = s.capacityLeft := by
  have h := scope_restores cfg e s hs k ops hw hf hacq
  simp only at h
  obtain ⟨_, h1, h2, _⟩ := h
  unfold MemStack.capacityLeft MemStack.blockEnd Arena.currentBlock
  rw [h1, h2]

/-- **Replay.** After the scope, the same requests yield the same results (addresses) as the first time,
served entirely from the block cache — provided the first run saw no upstream failure. -/
theorem C06_replay_same_addresses (cfg : Cfg) (e e' : EnvS) (s : MemStack) (hs : s.Inv) (k k' : Nat)
    (ops : List SOp) (hw : SOpsWf ops) (hf : cfg.fence ≤ 2 ^ 16) (hacq : ∀ b ∈ (runOps cfg e s k ops).acquired, b.Wf)
    (hnofail : ∀ o ∈ (runOps cfg e s k ops).outs, o ≠ .throws .upstream) :
    let u := (runOp cfg e s k (.scope ops)).st
    (runOps cfg e' u k' ops).outs = (runOps cfg e s k ops).outs ∧ (runOps cfg e' u k' ops).acquired = [] :=
  replay_same cfg e e' s hs k k' ops hw hf hacq hnofail

/-- **Unwinding never talks to the block source**: blocks are kept for reuse until `shrink_to_fit`. -/
theorem C06_unwind_no_upstream (cfg : Cfg) (s : MemStack) (m : Marker) (hc : s.arena.isCached = true) :
    (s.unwindEv cfg m).2.2 = [] :=
  unwind_no_events cfg s m hc

/-- **Markers are totally ordered** (strict order, trichotomy). -/
theorem C06_marker_order (a b c : Marker) :
    a.lt a = false ∧ (a.lt b = true → b.lt c = true → a.lt c = true) ∧
      (a.lt b = true ∨ b.lt a = true ∨ (a.index = b.index ∧ a.top = b.top)) :=
  marker_order a b c

/-- **Marker order agrees with allocation order**: a marker taken later (after any history without leaving the
scope) is never below an earlier one. -/
theorem C06_marker_monotone (cfg : Cfg) (e : EnvS) (s : MemStack) (hs : s.Inv) (k : Nat) (ops : List SOp)
    (hw : SOpsWf ops) (hf : cfg.fence ≤ 2 ^ 16) (hacq : ∀ b ∈ (runOps cfg e s k ops).acquired, b.Wf) (m m' : Marker)
    (hm : s.top = some m) (hm' : (runOps cfg e s k ops).st.top = some m') : m.le m' = true :=
  marker_monotone cfg e s hs k ops hw hf hacq m m' hm hm'

end MemVerif.Props.C06
