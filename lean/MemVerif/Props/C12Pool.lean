import MemVerif.Props.C01Ord
import MemVerif.Props.C12
/-!
# C12 — moving a `memory_pool` (any of the three list types) keeps everything that was handed out valid

`memory_pool(memory_pool&&)` (`Pool.moveInto b e`, Model/Pool.lean; the driver uses the same function for `move`,
`move_assign` and the three-move swap): the new object takes the arena, the free list and the leak count; the list is
re-based onto the proxy words `b` (`e`) of the *new* list object and its cursors are reset.

Theorem: if the pool satisfied the C01 invariant `PInvG` with the ledger `live`, and the new pool object lies outside
the pool's blocks (environment, as for construction), the new pool satisfies `PInvG` with the **same ledger**: every
pointer handed out before the move is still a live allocation of the new owner (disjoint, inside its blocks, releasable
— `C01Ord.C01_ipool_release_succeeds` applies to it), nothing was lost (conservation clause). The moved-from object
holds no block and no node; destroying it touches nothing (`C12.C12_arena_moved_from_inert`).
-/
namespace MemVerif.Props.C12Pool
open MemVerif.Model

/-- the list descriptor with the proxy words at a new address -/
def reobj (o : AnyList.ListObj) (b : Nat) : AnyList.ListObj :=
  match o with
  | .unordered => .unordered
  | .ordered _ => .ordered b
  | .small _ => .small b

/-- **The moved-to pool owns everything the source owned.** -/
theorem C12_pool_move_keeps_invariant (ns : Nat) (o : AnyList.ListObj) (p : Pool) (live : List (Nat × Nat)) (b : Nat)
    (hI : PInvG ns o p live) (hb : 0 < b) (hout : ObjOut (reobj o b) p.arena.used) :
    PInvG ns (reobj o b) (p.moveInto b (b + 8)).1 live := by
  have hcellIn := hI.cell.freeIn
  cases hl : p.list with
  | free fl =>
    have ho : o = .unordered := by have := hI.objEq; rw [hl] at this; exact this.symm
    subst ho
    have e : (p.moveInto b (b + 8)).1 = p := by
      unfold Pool.moveInto; rw [hl]; simp only [AnyList.moveInto]; cases p; simp_all
    rw [e]; exact hI
  | ord ol =>
    have ho : o = .ordered ol.B := by have := hI.objEq; rw [hl] at this; exact this.symm
    subst ho
    have hinv : ol.Inv := by have := hI.sinv; rw [hl] at this; exact this
    have hns : ol.ns = ns := by have := hI.nsEq; rw [hl] at this; exact this
    have hcells : p.list.cells = ol.nodes := by rw [hl]; rfl
    -- every node lies outside the new proxy words
    have hapart : ∀ a ∈ ol.nodes, a + ol.ns ≤ b ∨ b + 8 + 8 ≤ a := by
      intro a ha
      obtain ⟨blk, hblk, h1, h2⟩ := hcellIn a (by rw [hcells]; exact ha)
      have := hout blk hblk
      rw [implOff_eq] at h1
      rw [hns]
      omega
    have hnsP := hinv.nsPos
    have hBn : b ∉ ol.nodes := fun h => by have := hapart b h; omega
    have hEn : b + 8 ∉ ol.nodes := fun h => by have := hapart (b + 8) h; omega
    have hcur := C12.C12_ordlist_move_cursor ol b (b + 8) (by omega) hBn hEn
    have hnew : (ol.moveTo b (b + 8)).1.Inv :=
      ⟨hinv.asc, ⟨rfl, hb⟩, ⟨hBn, hEn⟩, hapart, hnsP, hinv.nodePos, hinv.cap, 0, Nat.zero_le _, hcur.1, hcur.2⟩
    refine ⟨?_, ?_, ?_, ?_, ?_⟩
    · show ((p.list.moveInto b (b + 8)).1).nodeSize = ns
      rw [hl]; exact hns
    · show ((p.list.moveInto b (b + 8)).1).obj = _
      rw [hl]; rfl
    · show ((p.list.moveInto b (b + 8)).1).SInv p.arena.used live
      rw [hl]; exact hnew
    · show CellInv ns ((p.list.moveInto b (b + 8)).1).cells p.arena.used live
      have : ((p.list.moveInto b (b + 8)).1).cells = p.list.cells := by rw [hl]; rfl
      rw [this]; exact hI.cell
    · show List.Perm (((p.list.moveInto b (b + 8)).1).cells ++ _) (cellsOfBlocks ((p.list.moveInto b (b + 8)).1) p.arena.used)
      have h1 : ((p.list.moveInto b (b + 8)).1).cells = p.list.cells := by rw [hl]; rfl
      have h2 : cellsOfBlocks ((p.list.moveInto b (b + 8)).1) p.arena.used = cellsOfBlocks p.list p.arena.used := by
        rw [hl]; rfl
      rw [h1, h2]; exact hI.conserve
  | small sl =>
    have ho : o = .small sl.P := by have := hI.objEq; rw [hl] at this; exact this.symm
    subst ho
    have hok : SmallOk sl p.arena.used live := by have := hI.sinv; rw [hl] at this; exact this
    have hns : sl.ns = ns := by have := hI.nsEq; rw [hl] at this; exact this
    let sl' : SmallList := { sl with P := b, allocChunk := b, deallocChunk := b }
    have hnew : SmallOk sl' p.arena.used live := by
      refine ⟨hok.invS, ⟨hok.ring.sorted, ⟨0, by simp [SmallList.posOf, sl']⟩, ⟨0, by simp [SmallList.posOf, sl']⟩, ?_⟩,
        hok.nsPos, hok.chunkIn, hok.liveGrid⟩
      intro c hc
      obtain ⟨blk, hblk, h1, h2⟩ := hok.chunkIn c hc
      have := hout blk hblk
      unfold Blk.usable at h1 h2
      simp only at h1 h2
      have := implOff_eq
      show b < c.base ∨ c.endOf sl.ns ≤ b
      omega
    refine ⟨?_, ?_, ?_, ?_, ?_⟩
    · show ((p.list.moveInto b (b + 8)).1).nodeSize = ns
      rw [hl]; exact hns
    · show ((p.list.moveInto b (b + 8)).1).obj = _
      rw [hl]; rfl
    · show ((p.list.moveInto b (b + 8)).1).SInv p.arena.used live
      rw [hl]; exact hnew
    · show CellInv ns ((p.list.moveInto b (b + 8)).1).cells p.arena.used live
      have : ((p.list.moveInto b (b + 8)).1).cells = p.list.cells := by rw [hl]; rfl
      rw [this]; exact hI.cell
    · show List.Perm (((p.list.moveInto b (b + 8)).1).cells ++ _) (cellsOfBlocks ((p.list.moveInto b (b + 8)).1) p.arena.used)
      have h1 : ((p.list.moveInto b (b + 8)).1).cells = p.list.cells := by rw [hl]; rfl
      have h2 : cellsOfBlocks ((p.list.moveInto b (b + 8)).1) p.arena.used = cellsOfBlocks p.list p.arena.used := by
        rw [hl]; rfl
      rw [h1, h2]; exact hI.conserve

/-- the moved-from pool holds no block, no free node and no leak count: its destruction releases nothing and reports
nothing -/
theorem C12_pool_moved_from_inert (cfg : Cfg) (p : Pool) (b e : Nat) :
    (p.moveInto b e).2.arena.used = [] ∧ (p.moveInto b e).2.arena.cached = [] ∧ (p.moveInto b e).2.list.cells = [] ∧
      ((p.moveInto b e).2.destroy cfg).1 = [] ∧ ((p.moveInto b e).2.destroy cfg).2.1 = none := by
  have hd := C12.C12_arena_moved_from_inert cfg p.arena
  refine ⟨rfl, rfl, ?_, ?_, ?_⟩
  · unfold Pool.moveInto
    cases p.list <;> rfl
  · unfold Pool.destroy Pool.moveInto
    simp only
    exact hd
  · unfold Pool.destroy Pool.moveInto
    simp

/-- moving twice (`tmp(move(a)); b = move(tmp)`) composes: the list ends up re-based on the last object; all that
matters of the intermediate object is that it was outside the blocks -/
theorem C12_pool_move_twice (ns : Nat) (o : AnyList.ListObj) (p : Pool) (live : List (Nat × Nat)) (b1 b2 : Nat)
    (hI : PInvG ns o p live) (h1 : 0 < b1) (h2 : 0 < b2) (ho1 : ObjOut (reobj o b1) p.arena.used)
    (ho2 : ObjOut (reobj o b2) p.arena.used) :
    PInvG ns (reobj o b2) (((p.moveInto b1 (b1 + 8)).1).moveInto b2 (b2 + 8)).1 live := by
  have hm := C12_pool_move_keeps_invariant ns o p live b1 hI h1 ho1
  have : reobj (reobj o b1) b2 = reobj o b2 := by cases o <;> rfl
  rw [← this]
  exact C12_pool_move_keeps_invariant ns (reobj o b1) _ live b2 hm h2 (by rw [this]; exact ho2)

end MemVerif.Props.C12Pool
