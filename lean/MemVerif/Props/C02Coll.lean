import MemVerif.Lemmas.C02Coll
import MemVerif.Props.C01Coll
/-!
C02 for `memory_pool_collection` over the intrusive free lists, node operations, all histories: every node handed out
is aligned to `alignment_for(node size of its bucket)` and — `Props/C01Coll` — is at least as long as the requested
size (the bucket's node size is ≥ the request for identity and log2 buckets) and disjoint from everything else.

`…_partial`: arrays on collections and `small_node_pool` buckets stay at the correspondence level (`checks/c02.py`).
-/
namespace MemVerif.Props.C02Coll
open MemVerif.Model MemVerif.Gen

theorem intrusiveNodeSize_lt (x : BitVec 64) : intrusiveNodeSize x.toNat < 2 ^ 64 := by
  unfold intrusiveNodeSize
  have h8 : C.free_min_element_size.toNat = 8 := by decide
  have := x.isLt
  rw [h8]; split <;> omega

/-- **a freshly constructed collection over either intrusive list is on the grid** (no cells yet, sane node sizes) -/
theorem C02_coll_create_grid (cfg : Cfg) (src : Src) (kind : String) (hk : kind = "free" ∨ kind = "ord") (pol : Policy)
    (arrays : Bool) (maxNode : Nat) (env : List (Option Nat)) {c : Coll} {out : Out} {ev : List UpEv}
    (h : Coll.create cfg src kind pol arrays maxNode env = (some c, out, ev)) : c.Grid [] := by
  obtain ⟨_, _, arr, n, h3⟩ := Coll.create_shape cfg src kind pol arrays maxNode env h
  refine ⟨?_, fun as has => by cases has⟩
  intro l hl
  rw [h3] at hl
  obtain ⟨i, _, rfl⟩ := List.mem_map.mp hl
  have hge := fun x => (intrusiveNodeSize_ge x).2
  rcases hk with rfl | rfl
  · simp only [Coll.mkList, if_true]
    refine ⟨fun P => by simp [AnyList.obj], ?_, intrusiveNodeSize_lt _, fun x hx => by simp [AnyList.cells, FreeList.new] at hx⟩
    have := hge (pol.sizeFromIndex (BitVec.ofNat 64 i + minSizeIndex pol (BitVec.ofNat 64 (minElemOf "free")))).toNat
    show 0 < intrusiveNodeSize _
    omega
  · have hne : ¬ ("ord" = "free") := by decide
    simp only [Coll.mkList, hne, if_false, if_true]
    refine ⟨fun P => by simp [AnyList.obj], ?_, intrusiveNodeSize_lt _, fun x hx => by simp [AnyList.cells, OrdList.new] at hx⟩
    have := hge (pol.sizeFromIndex (BitVec.ofNat 64 i + minSizeIndex pol (BitVec.ofNat 64 (minElemOf "ord")))).toNat
    show 0 < intrusiveNodeSize _
    omega

/-- **C02 (alignment), collections, node operations.** Along every history every live node — hence every node at the
moment it is handed out — and every free cell is aligned to `alignment_for` of its bucket's node size. -/
theorem C02_coll_aligned_partial (cfg : Cfg) (e : EnvS) (arr arrLen : Nat) (hf : cfg.fence ≤ 2 ^ 32) (g : GColl) (k : Nat)
    (ops : List COpn) (hI : CInv arr arrLen g.c g.live) (hg : g.c.Grid g.live)
    (henv : BlocksOk (g.run cfg e k ops).1.c.arena.used) :
    let g' := (g.run cfg e k ops).1
    (∀ as ∈ g'.live, alignOfNs (g'.c.nsOf as.2) ∣ as.1) ∧
    (∀ l ∈ g'.c.lists, ∀ x ∈ l.cells, alignOfNs l.nodeSize ∣ x) := by
  intro g'
  have h := GColl.run_grid cfg e hf ops g k hI hg henv
  exact ⟨h.2, fun l hl => (h.1 l hl).cells⟩

/-- `alignment_for(ns)` divides `ns` and `max_alignment`: the grid alignment is the largest power of two dividing the
bucket's node size, capped at `max_alignment` — for log2 buckets (`ns` a power of two ≥ 8) that is `min(ns, 16)` -/
theorem alignOfNs_dvd (ns : Nat) (h0 : 0 < ns) (hlt : ns < 2 ^ 64) : alignOfNs ns ∣ ns ∧ alignOfNs ns ∣ 16 :=
  C02Pool.alignmentFor_dvd ns h0 hlt

/-- **C02 (size), collections, node operations**: with identity buckets the node handed out for `size` is at least
`size` bytes long (restated from `C01Coll`) -/
theorem C02_coll_size_identity {c : Coll} (hs : C01Coll.Sized c) (hp : c.policy = .identity) (size : Nat) (hsz : size < 2 ^ 64)
    {l : AnyList} (hl : c.lists[c.listIndex size]? = some l) : size ≤ c.nsOf size :=
  C01Coll.C01_coll_size_fits_identity hs hp size hsz hl

theorem C02_coll_size_log2 {c : Coll} (hs : C01Coll.Sized c) (hp : c.policy = .log2) (size : Nat) (h0 : 0 < size)
    (hsz : size ≤ 2 ^ 63) {l : AnyList} (hl : c.lists[c.listIndex size]? = some l) : size ≤ c.nsOf size :=
  C01Coll.C01_coll_size_fits_log2 hs hp size h0 hsz hl

end MemVerif.Props.C02Coll
