import MemVerif.Lemmas.C01CollArr
import MemVerif.Props.C01Coll
/-!
C08 for `memory_pool_collection` over the intrusive free lists: the composable release `try_deallocate_node(ptr, size)`
recognises exactly the collection's own memory — it returns `true` and releases for every node the caller holds (and
keeps the collection invariant), and returns `false` without changing anything for every pointer outside the blocks
the collection holds (memory of any other allocator: its blocks are disjoint from this collection's).
-/
namespace MemVerif.Props.C08Coll
open MemVerif.Model MemVerif.Gen

/-- a live node lies in a block the arena owns -/
theorem live_owned {arr arrLen : Nat} {c : Coll} {live : List (Nat × Nat)} (h : CInv arr arrLen c live) {a s : Nat}
    (hm : (a, s) ∈ live) : c.arena.owns a = true := by
  obtain ⟨_, hin, _, _⟩ := C01Coll.live_facts (g := ⟨c, live⟩) h
  obtain ⟨b, hb, h1, h2⟩ := hin (a, s) hm
  have hpos := h.nsOf_pos hm
  unfold Arena.owns
  rw [List.any_eq_true]
  refine ⟨b, hb, ?_⟩
  simp only [decide_eq_true_eq]
  simp only at h1 h2 hpos
  omega

/-- **own memory is recognised and released** -/
theorem C08_coll_try_dealloc_own (cfg : Cfg) {arr arrLen : Nat} {c : Coll} {live : List (Nat × Nat)} (h : CInv arr arrLen c live)
    {j a s : Nat} (hj : live[j]? = some (a, s)) (hs : s ≤ c.maxNodeSize) :
    (c.tryDeallocateNode cfg a s).out = .bool true ∧ CInv arr arrLen (c.tryDeallocateNode cfg a s).st (live.eraseIdx j) := by
  have hown := live_owned h (List.mem_of_getElem? hj)
  obtain ⟨d1, _, d3⟩ := Coll.deallocateNode_inv cfg h hj
  unfold Coll.tryDeallocateNode
  have hgt : ¬ s > c.maxNodeSize := by omega
  simp only [hgt, decide_false, Bool.false_or, hown, Bool.not_true, Bool.false_eq_true, if_false, d1]
  exact ⟨trivial, d3⟩

/-- **foreign memory is refused and nothing changes** -/
theorem C08_coll_try_dealloc_foreign (cfg : Cfg) (c : Coll) (a s : Nat) (hf : c.arena.owns a = false) :
    (c.tryDeallocateNode cfg a s).out = .bool false ∧ (c.tryDeallocateNode cfg a s).st = c := by
  unfold Coll.tryDeallocateNode
  simp [hf]

/-- a pointer inside another allocator's block is foreign: blocks of different allocators are disjoint -/
theorem foreign_of_disjoint (c : Coll) (a : Nat) (blk : Blk) (hin : blk.base ≤ a ∧ a < blk.base + blk.size)
    (hd : ∀ b ∈ c.arena.used, b.Disj blk) : c.arena.owns a = false := by
  unfold Arena.owns
  rw [Bool.eq_false_iff]
  intro ht
  rw [List.any_eq_true] at ht
  obtain ⟨b, hb, hdec⟩ := ht
  simp only [decide_eq_true_eq] at hdec
  have := hd b hb
  unfold Blk.Disj at this
  unfold Blk.usable at hdec
  simp only at hdec
  omega

/-! ### arrays -/

/-- **an own array is recognised and released**: `try_deallocate_array(ptr, count, size)` of an array whose cells the
caller holds returns `true`, and the invariant holds for the ledger without its cells -/
theorem C08_coll_try_dealloc_array_own (cfg : Cfg) {arr arrLen : Nat} {c : Coll} {live : List (Nat × Nat)} (h : CInv arr arrLen c live)
    (harr : c.arrays = true) {a count s : Nat} {l : AnyList} (hl : c.lists[c.listIndex s]? = some l) (hs : s ≤ c.maxNodeSize)
    (hsub : ∀ x ∈ arrEntries l.nodeSize a s (arrCells l.nodeSize count s), x ∈ live) :
    (c.tryDeallocateArray cfg a count s).out = .bool true ∧
      CInv arr arrLen (c.tryDeallocateArray cfg a count s).st (removeEntries live (arrEntries l.nodeSize a s (arrCells l.nodeSize count s))) := by
  obtain ⟨_, _, hpos⟩ := h.lists _ l hl
  have hk : 0 < arrCells l.nodeSize count s := cellsOf_pos _ _ hpos
  have hm : (a, s) ∈ live := by
    apply hsub
    unfold arrEntries
    exact List.mem_map.mpr ⟨a, mem_blockNodes.mpr ⟨0, hk, by simp⟩, rfl⟩
  have hown := live_owned h hm
  obtain ⟨d1, _, d3⟩ := Coll.deallocateArray_inv cfg h hl hsub
  unfold Coll.tryDeallocateArray
  have hgt : ¬ s > c.maxNodeSize := by omega
  simp only [harr, hgt, decide_false, Bool.not_true, Bool.false_or, hown, Bool.false_eq_true, if_false]
  simp only [d1]
  exact ⟨trivial, d3⟩

/-- **a foreign array is refused and nothing changes** (also: a collection without array support refuses every array) -/
theorem C08_coll_try_dealloc_array_foreign (cfg : Cfg) (c : Coll) (a count s : Nat)
    (hf : c.arena.owns a = false ∨ c.arrays = false) :
    (c.tryDeallocateArray cfg a count s).out = .bool false ∧ (c.tryDeallocateArray cfg a count s).st = c := by
  unfold Coll.tryDeallocateArray
  rcases hf with hf | hf <;> simp [hf]

end MemVerif.Props.C08Coll
