import MemVerif.Model.Container
/-!
# C10 — STL containers on RawAllocators return every node to the allocator it came from
-/
namespace MemVerif.Props.C10
open MemVerif.Model MemVerif.Gen

/-! ### node sizes -/

theorem roundUpTo_ge (x a : Nat) (ha : 0 < a) : x ≤ roundUpTo x a := by
  unfold roundUpTo
  have h1 := Nat.div_add_mod (x + a - 1) a
  have h2 := Nat.mod_lt (x + a - 1) ha
  have : (x + a - 1) / a * a = a * ((x + a - 1) / a) := Nat.mul_comm _ _
  omega

theorem roundUpTo_mono (x y a : Nat) (h : x ≤ y) : roundUpTo x a ≤ roundUpTo y a := by
  unfold roundUpTo
  exact Nat.mul_le_mul_right _ (Nat.div_le_div_right (by omega))

theorem roundUpTo_dvd (x a : Nat) (ha : 0 < a) (h : a ∣ x) : roundUpTo x a = x := by
  obtain ⟨k, rfl⟩ := h
  unfold roundUpTo
  have : (a * k + a - 1) / a = k := by
    rw [show a * k + a - 1 = (a - 1) + a * k by omega, Nat.add_mul_div_left _ _ ha, Nat.div_eq_of_lt (by omega)]
    omega
  rw [this, Nat.mul_comm]

/-- the condition on the generated table that makes the constants sufficient -/
def TableOk (tbl : List (String × Nat × Nat)) : Bool :=
  tbl.all fun r => decide (roundUpTo (stdHeader r.1) r.2.1 ≤ r.2.2) && (r.2.1 == 1 || r.2.1 == 2 || r.2.1 == 4 || r.2.1 == 8 || r.2.1 == 16)

/-- the table regenerated from `cmake/get_node_size.cpp` for this compiler satisfies it (complete finite table) -/
theorem C10_table_ok : TableOk nodeSizeTable = true := by decide

/-- **Node size constants suffice** — for every container of the table, every element size `s ≥ 1` and every alignment
`a` of the table with `a ∣ s` (what `sizeof`/`alignof` of a C++ type always satisfy): `X_node_size<T>` is at least what
the container requests per node under the libstdc++ layout model. No bound on `s`. -/
theorem C10_node_size_sufficient (c : String) (s a b : Nat) (hrow : (c, a, b) ∈ nodeSizeTable) (hdvd : a ∣ s) :
    stdNodeRequest c s a ≤ roundUpTo (b + s) 8 := by
  have htab := C10_table_ok
  unfold TableOk at htab
  rw [List.all_eq_true] at htab
  have hr := htab (c, a, b) hrow
  simp only [Bool.and_eq_true, decide_eq_true_eq, Bool.or_eq_true, beq_iff_eq] at hr
  obtain ⟨hb, ha⟩ := hr
  unfold stdNodeRequest
  rcases ha with (((h | h) | h) | h) | h
  · subst h; exact roundUpTo_mono _ _ 8 (by omega)
  · subst h; exact roundUpTo_mono _ _ 8 (by omega)
  · subst h; exact roundUpTo_mono _ _ 8 (by omega)
  · subst h; exact roundUpTo_mono _ _ 8 (by omega)
  · subst h
    -- both summands are multiples of 16, so rounding to 16 changes nothing
    have h16 : (16 : Nat) ∣ roundUpTo (stdHeader c) 16 + s := by
      apply Nat.dvd_add _ hdvd
      unfold roundUpTo; exact Nat.dvd_mul_left _ _
    have : max 16 8 = 16 := rfl
    rw [this, roundUpTo_dvd _ 16 (by omega) h16]
    exact Nat.le_trans (by omega) (roundUpTo_ge (b + s) 8 (by omega))

/-- instance: `std::list` of a 24-byte, 8-aligned type: request 40, constant 40 -/
example : stdNodeRequest "list" 24 8 = 40 ∧ nodeSizeConst "list" 24 8 = some 40 := by decide

/-! ### origin of nodes -/

/-- the library's handles: all three propagation traits are `true_type` (`propagation_traits` default) and
`operator==` of `std_allocator<T, RawAllocator>` compares the addresses of the referenced stateful allocators -/
def libTraits : ATraits := {}

theorem setC_mem {cs : List Cont} {i : Nat} {c x : Cont} (h : x ∈ setC cs i c) : x = c ∨ x ∈ cs := by
  unfold setC at h
  rcases List.mem_or_eq_of_mem_set h with h | h
  · exact Or.inr h
  · exact Or.inl h

theorem origin_set {cs : List Cont} {i : Nat} {c : Cont} (hcs : Origin cs) (hc : ∀ n ∈ c.nodes, n = c.alloc) :
    Origin (setC cs i c) := by
  intro x hx n hn
  rcases setC_mem hx with h | h
  · subst h; exact hc n hn
  · exact hcs x h n hn

theorem mem_of_get {cs : List Cont} {i : Nat} {c : Cont} (h : cs[i]? = some c) : c ∈ cs := List.mem_of_getElem? h

/-- **Origin invariant**: with the library's trait values, any operation of the protocol — insertion, erasure, copy and
move construction, copy and move assignment, swap, and node transfer between containers whose handles compare equal —
keeps every node in a container whose handle references the allocator the node came from. -/
theorem C10_origin_step (cs cs' : List Cont) (op : COp) (hI : Origin cs) (h : cstep libTraits cs op = some cs') : Origin cs' := by
  cases op with
  | insert i =>
    simp only [cstep, Option.map_eq_some_iff] at h
    obtain ⟨c, hc, rfl⟩ := h
    apply origin_set hI
    intro n hn
    simp only [List.mem_cons] at hn
    rcases hn with hn | hn
    · exact hn
    · exact hI c (mem_of_get hc) n hn
  | erase i =>
    simp only [cstep, Option.map_eq_some_iff] at h
    obtain ⟨c, hc, rfl⟩ := h
    apply origin_set hI
    intro n hn
    exact hI c (mem_of_get hc) n (List.mem_of_mem_tail hn)
  | clear i =>
    simp only [cstep, Option.map_eq_some_iff] at h
    obtain ⟨c, hc, rfl⟩ := h
    exact origin_set hI (by intro n hn; simp at hn)
  | copyAssign i j =>
    simp only [cstep] at h
    split at h
    · simp only [Option.some.injEq] at h; subst h
      apply origin_set hI
      intro n hn
      simp only [List.mem_map] at hn
      obtain ⟨_, _, rfl⟩ := hn; rfl
    · cases h
  | moveAssign i j =>
    simp only [cstep] at h
    split at h
    · rename_i ci cj hci hcj
      simp only [libTraits, ↓reduceIte, Option.some.injEq] at h; subst h
      apply origin_set
      · apply origin_set hI
        intro n hn; exact hI cj (mem_of_get hcj) n hn
      · intro n hn; simp at hn
    · cases h
  | swap i j =>
    simp only [cstep] at h
    split at h
    · rename_i ci cj hci hcj
      simp only [libTraits, ↓reduceIte, Option.some.injEq] at h; subst h
      apply origin_set
      · apply origin_set hI
        intro n hn; exact hI cj (mem_of_get hcj) n hn
      · intro n hn; exact hI ci (mem_of_get hci) n hn
    · cases h
  | copyCtor i j =>
    simp only [cstep, Option.map_eq_some_iff] at h
    obtain ⟨c, hc, rfl⟩ := h
    apply origin_set hI
    intro n hn
    simp only [List.mem_map] at hn
    obtain ⟨_, _, rfl⟩ := hn; rfl
  | moveCtor i j =>
    simp only [cstep, Option.map_eq_some_iff] at h
    obtain ⟨c, hc, rfl⟩ := h
    apply origin_set
    · exact origin_set hI (by intro n hn; simp at hn)
    · intro n hn; exact hI c (mem_of_get hc) n hn
  | splice i j =>
    simp only [cstep] at h
    split at h
    · rename_i ci cj hci hcj
      split at h
      · rename_i hcond
        simp only [Option.some.injEq] at h; subst h
        simp only [libTraits, Bool.and_eq_true, bne_iff_ne, ne_eq, decide_eq_true_eq, beq_iff_eq] at hcond
        apply origin_set
        · apply origin_set hI
          intro n hn
          simp only [List.mem_append] at hn
          rcases hn with hn | hn
          · exact hI ci (mem_of_get hci) n hn
          · rw [hcond.2]; exact hI cj (mem_of_get hcj) n hn
        · intro n hn; simp at hn
      · cases h
    · cases h

/-- … for every operation sequence over any number of containers bound to any allocators -/
theorem C10_origin_invariant (ops : List COp) : ∀ (cs cs' : List Cont), Origin cs → crun libTraits cs ops = some cs' → Origin cs' := by
  induction ops with
  | nil => intro cs cs' hI h; simp only [crun, Option.some.injEq] at h; subst h; exact hI
  | cons op ops ih =>
    intro cs cs' hI h
    simp only [crun, Option.bind_eq_some_iff] at h
    obtain ⟨mid, hmid, hrest⟩ := h
    exact ih mid cs' (C10_origin_step cs mid op hI hmid) hrest

/-- **Equal exactly when interchangeable** (stateful, non type-erased handles): the handles of the model compare equal
iff they reference the same allocator object -/
theorem C10_equal_iff_interchangeable_partial (a b : Nat) : libTraits.eq a b = true ↔ a = b := by
  simp [libTraits]

/-- D23 (recorded finding): for the type-erased `any_std_allocator` the comparison is constantly `true`; with that
relation a legal node transfer leaves nodes in a container bound to another allocator (they are then released there) -/
theorem C10_any_equality_counterexample :
    let anyTraits : ATraits := { eq := fun _ _ => true }
    ∃ cs', crun anyTraits [⟨0, []⟩, ⟨1, []⟩] [.insert 0, .insert 0, .splice 1 0] = some cs' ∧ originB cs' = false := by
  exact ⟨_, rfl, by decide⟩

/-- the same sequence is rejected (precondition of `splice` false) with the library's relation for typed handles -/
example : crun libTraits [⟨0, []⟩, ⟨1, []⟩] [.insert 0, .insert 0, .splice 1 0] = none := by decide

end MemVerif.Props.C10
