import MemVerif.Lemmas.C01CollArr
import MemVerif.Lemmas.C01Coll
import MemVerif.Props.C03
/-!
C03 for `memory_pool_collection` over the intrusive free lists, node operations: a request that cannot be served is
signalled (never `nullptr` from the throwing function), and **a failed request leaves every earlier allocation valid
and the allocator able to serve later requests**: the collection invariant (`CInv`, `Lemmas/C01Coll.lean`) still holds
with the *same* ledger, so all the C01/C04 history theorems apply to whatever follows.
-/
namespace MemVerif.Props.C03Coll
open MemVerif.Model MemVerif.Gen

theorem reserve_not_null (cfg : Cfg) (c : Coll) (i dc : Nat) (env : List (Option Nat)) :
    (c.reserve cfg i dc env).1.out ≠ .null := by
  unfold Coll.reserve
  split
  · simp
  · split
    · simp
    · split
      · simp
      · split
        · simp
        · simp
        · simp only; split <;> simp

theorem refill_not_null (cfg : Cfg) (c : Coll) (i dc : Nat) (env : List (Option Nat)) :
    (c.refill cfg i dc env).out ≠ .null := by
  have h := reserve_not_null cfg c i dc env
  unfold Coll.refill
  split
  · rename_i r mem hres
    rw [hres] at h
    split
    · split
      · exact h
      · simp
      · simp
    · simp
  · rename_i r hres
    rw [hres] at h
    exact h

/-- **`allocate_node` of a collection never returns `nullptr`** -/
theorem C03_coll_node_never_null (cfg : Cfg) (c : Coll) (size : Nat) (env : List (Option Nat)) :
    (c.allocateNode cfg size env).out ≠ .null := by
  unfold Coll.allocateNode
  split
  · simp
  · cases hl : c.lists[c.listIndex size]? with
    | none => simp only [hl]; simp
    | some l =>
    cases hdc0 : c.defCapacity with
    | none => simp only [hl, hdc0]; simp
    | some dc0 =>
      simp only [hl, hdc0]
      have key : ∀ (st : Coll) (ev : List UpEv), (st.takeNode (c.listIndex size) ev).out ≠ .null := by
        intro st ev
        unfold Coll.takeNode
        split
        · split <;> simp
        · simp
      by_cases hemp : l.empty
      · simp only [hemp, if_true]
        cases hout : (c.refill cfg (c.listIndex size) (growCapacity l 64 dc0) env).out with
        | done => simp only [hout]; exact key _ _
        | null => exact absurd hout (refill_not_null cfg c _ _ env)
        | _ => simp only [hout]; simp
      · simp only [hemp, Bool.false_eq_true, if_false]
        exact key _ _

/-- **C03 (a failed request preserves), collections, node operations.** Whatever way `allocate_node` fails — the
library's `bad_node_size`, `out_of_memory` from the block source — the ledger of live nodes is untouched and the
collection invariant still holds for it: every earlier allocation is still valid, and the allocator can serve later
requests (all history theorems of `Props/C01Coll` and `Props/C04Coll` start from `CInv`). -/
theorem C03_coll_failure_preserves_partial (cfg : Cfg) {arr arrLen : Nat} {c : Coll} {live : List (Nat × Nat)}
    (hI : CInv arr arrLen c live) (hf : cfg.fence ≤ 2 ^ 32) (size : Nat) (env : List (Option Nat)) (ex : Exn)
    (hb : BlocksOk (c.allocateNode cfg size env).st.arena.used) (hout : (c.allocateNode cfg size env).out = .throws ex) :
    CInv arr arrLen (c.allocateNode cfg size env).st live := by
  have := Coll.allocateNode_inv cfg hI hf size env hb
  rw [hout] at this
  exact this

/-- `try_allocate_node`: never throws, never touches the arena or the upstream (C03's try-half, restated here next to
the invariant), and keeps the invariant whether or not it finds memory -/
theorem C03_coll_try_keeps_partial (cfg : Cfg) {arr arrLen : Nat} {c : Coll} {live : List (Nat × Nat)}
    (hI : CInv arr arrLen c live) (hf : cfg.fence ≤ 2 ^ 32) (size : Nat) :
    (c.tryAllocateNode cfg size).ev = [] ∧ (∀ ex, (c.tryAllocateNode cfg size).out ≠ .throws ex) ∧
    ((c.tryAllocateNode cfg size).out = .null → CInv arr arrLen (c.tryAllocateNode cfg size).st live) := by
  refine ⟨(C03.C03_try_coll_node cfg c size).2.1, (C03.C03_try_coll_node cfg c size).1, ?_⟩
  · intro hout
    have := Coll.tryAllocateNode_inv cfg hI hf size
    rw [hout] at this
    exact this

/-! ### arrays -/

/-- **C03 (a failed array request preserves), collections.** Whatever way `allocate_array` fails — `bad_node_size`,
`bad_array_size` in the third stage, `out_of_memory` from the block source in the second or third stage, after memory was
already reserved and inserted — the ledger is untouched and the invariant holds for it. -/
theorem C03_coll_array_failure_preserves_partial (cfg : Cfg) {arr arrLen : Nat} {c : Coll} {live : List (Nat × Nat)}
    (hI : CInv arr arrLen c live) (hf : cfg.fence ≤ 2 ^ 32) (count size : Nat) (env : List (Option Nat))
    (hb : BlocksOk (c.allocateArray cfg count size env).st.arena.used)
    (hout : ∀ a, (c.allocateArray cfg count size env).out ≠ .ok a) :
    CInv arr arrLen (c.allocateArray cfg count size env).st live := by
  have := Coll.allocateArray_inv cfg hI hf count size env hb
  rwa [ledgerArr_not_ok _ _ _ _ hout] at this

/-- `try_allocate_array`: never throws, no upstream event, arena untouched, and a `nullptr` answer keeps ledger and
invariant -/
theorem C03_coll_try_array_keeps_partial (cfg : Cfg) {arr arrLen : Nat} {c : Coll} {live : List (Nat × Nat)}
    (hI : CInv arr arrLen c live) (hf : cfg.fence ≤ 2 ^ 32) (count size : Nat) :
    (c.tryAllocateArray cfg count size).ev = [] ∧ (∀ ex, (c.tryAllocateArray cfg count size).out ≠ .throws ex) ∧
    (c.tryAllocateArray cfg count size).st.arena = c.arena ∧
    ((c.tryAllocateArray cfg count size).out = .null → CInv arr arrLen (c.tryAllocateArray cfg count size).st live) := by
  obtain ⟨t1, t2, t3⟩ := C03.C03_try_coll_array cfg c count size
  refine ⟨t2, t1, t3, ?_⟩
  intro hout
  have := Coll.tryAllocateArray_inv cfg hI hf count size
  rwa [ledgerArr_not_ok _ _ _ _ (by rw [hout]; intro a h; cases h)] at this

/-- `reserve(size, capacity)` never hands anything out and keeps ledger and invariant whether or not it succeeds -/
theorem C03_coll_reserve_keeps_partial (cfg : Cfg) {arr arrLen : Nat} {c : Coll} {live : List (Nat × Nat)}
    (hI : CInv arr arrLen c live) (hf : cfg.fence ≤ 2 ^ 32) (size : Nat) {capacity : Nat} (hcap : capacity < 2 ^ 64)
    (env : List (Option Nat)) (hb : BlocksOk (c.reserveOp cfg size capacity env).st.arena.used) :
    CInv arr arrLen (c.reserveOp cfg size capacity env).st live :=
  Coll.reserveOp_inv cfg hI hf size hcap env hb

end MemVerif.Props.C03Coll
