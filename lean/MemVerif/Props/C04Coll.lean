import MemVerif.Lemmas.C04Coll
/-!
C04 for `memory_pool_collection` over the intrusive free lists, node operations: **no capacity is lost over any
history**. For every bucket, (free cells of the bucket) + (live nodes served by it) never decreases; the library's own
capacity counter of the bucket equals its number of free cells (`CInv`), so once everything has been released every
bucket's `capacity()` is at least what it was before plus what was live.

`…_partial`: arrays on collections and `small_node_pool` buckets stay at the correspondence level (`checks/c04.py`).
The second half of C04 (no upstream request while the matching list holds a node) is `C04.C04_coll_no_growth_while_nonempty`.
-/
namespace MemVerif.Props.C04Coll
open MemVerif.Model MemVerif.Gen

/-- the library's `capacity()` of bucket `j` (in nodes) -/
def capacityAt (c : Coll) (j : Nat) : Nat := ((c.lists[j]?).map AnyList.capacity).getD 0

/-- under the collection invariant the capacity counter of every bucket is its number of free cells -/
theorem capacity_eq_cells {arr arrLen : Nat} {c : Coll} {live : List (Nat × Nat)} (h : CInv arr arrLen c live) (j : Nat) :
    capacityAt c j = c.cellsAt j := by
  unfold capacityAt Coll.cellsAt
  cases hl : c.lists[j]? with
  | none => rfl
  | some l =>
    obtain ⟨hint, hS, _⟩ := h.lists j l hl
    simp only [Option.map_some, Option.getD_some]
    cases l with
    | free fl => exact hS
    | ord ol => exact hS.cap
    | small sl => exact absurd rfl (hint sl.P)

/-- the invariant says every bucket is intrusive -/
theorem allIntr_of_inv {arr arrLen : Nat} {c : Coll} {live : List (Nat × Nat)} (h : CInv arr arrLen c live) : c.AllIntr := by
  intro l hl
  obtain ⟨i, hi⟩ := List.getElem?_of_mem hl
  exact (h.lists i l hi).1

/-- **C04 (accounting), collections, node operations.** Along every history, for every bucket: free cells + live nodes
served by the bucket never decrease. -/
theorem C04_coll_measure_monotone_partial (cfg : Cfg) (e : EnvS) (arr arrLen : Nat) (hf : cfg.fence ≤ 2 ^ 32) (g : GColl)
    (k : Nat) (ops : List COpn) (hI : CInv arr arrLen g.c g.live) (henv : BlocksOk (g.run cfg e k ops).1.c.arena.used)
    (j : Nat) :
    g.c.measure g.live j ≤ (g.run cfg e k ops).1.c.measure (g.run cfg e k ops).1.live j :=
  (GColl.run_measure cfg e hf ops g k (allIntr_of_inv hI) hI henv j).2

/-- **C04 (no capacity lost), collections, node operations.** If at the end of a history nothing is live, every
bucket's `capacity()` is at least its capacity at the start plus the number of nodes of that bucket that were live at
the start. In particular a history that starts and ends with nothing live never lowers any bucket's capacity. -/
theorem C04_coll_no_capacity_lost_partial (cfg : Cfg) (e : EnvS) (arr arrLen : Nat) (hf : cfg.fence ≤ 2 ^ 32) (g : GColl)
    (k : Nat) (ops : List COpn) (hI : CInv arr arrLen g.c g.live) (henv : BlocksOk (g.run cfg e k ops).1.c.arena.used)
    (hend : (g.run cfg e k ops).1.live = []) (j : Nat) :
    capacityAt g.c j + g.c.liveAt g.live j ≤ capacityAt (g.run cfg e k ops).1.c j := by
  have hm := C04_coll_measure_monotone_partial cfg e arr arrLen hf g k ops hI henv j
  have hI' := GColl.run_inv cfg e hf ops g k hI henv
  rw [capacity_eq_cells hI, capacity_eq_cells hI']
  unfold Coll.measure at hm
  rw [hend] at hm
  simpa [Coll.liveAt] using hm

/-- **A request served from the list and every release keep the measure exactly**: `allocate_node` on a non-empty
bucket takes exactly one cell of that bucket and of no other; a release returns exactly one. -/
theorem C04_coll_step_exact (cfg : Cfg) (arr arrLen : Nat) (c : Coll) (live : List (Nat × Nat))
    (hI : CInv arr arrLen c live) (i a s j : Nat) (hi : live[i]? = some (a, s)) :
    (c.deallocateNode cfg a s).st.measure (live.eraseIdx i) j = c.measure live j :=
  (Coll.deallocateNode_measure cfg (allIntr_of_inv hI) hi j).2.1 (Coll.deallocateNode_inv cfg hI hi).1

/-- the hypotheses are satisfiable and the bound is attained (a test, labelled as a test): the collection of
`C01Coll.demo`; after releasing everything the capacities are exactly free cells = everything ever carved -/
def demo : Bool :=
  let cfg : Cfg := { fence := 16, dblDealloc := true, assert := true }
  let e : EnvS := fun k => if k = 0 then some 4096 else if k = 1 then some 65536 else none
  let ops : List COpn := [.allocNode 8, .allocNode 33, .tryAllocNode 64, .allocNode 17, .dealloc 1, .allocNode 64,
    .allocNode 9, .tryAllocNode 3, .dealloc 0, .allocNode 40, .allocNode 64, .tryAllocNode 65,
    .dealloc 6, .dealloc 0, .dealloc 0, .dealloc 0, .dealloc 0, .dealloc 0, .dealloc 0]
  match Coll.create cfg (.growing 2 1 1000) "free" .log2 false 64 [e 0] with
  | (some c0, _, _) =>
    let g := (GColl.run cfg e ⟨c0, []⟩ 1 ops).1
    decide (g.live = []) && decide ((List.range 4).map (capacityAt c0) = [0, 0, 0, 0]) &&
      decide ((List.range 4).map (capacityAt g.c) = (List.range 4).map g.c.cellsAt) &&
      decide (0 < capacityAt g.c 0 ∧ 0 < capacityAt g.c 1 ∧ 0 < capacityAt g.c 2 ∧ 0 < capacityAt g.c 3)
  | _ => false

example : demo = true := by decide

end MemVerif.Props.C04Coll
