import MemVerif.Model.Joint
import MemVerif.Lemmas.StackArith
/-!
# C11 — joint allocations stay inside the object's single block and it is freed whole
-/
namespace MemVerif.Props.C11
open MemVerif.Model

/-- state of the statement: the joint stack plus the pieces handed to members and not given back -/
structure JState where
  j : Joint
  live : List (Nat × Nat)     -- (address, size)

def disjoint (a b : Nat × Nat) : Prop := a.1 + a.2 ≤ b.1 ∨ b.1 + b.2 ≤ a.1

/-- invariant: the stack is inside the block, every live piece lies in `[mem, top)`, pieces are pairwise disjoint -/
structure Inv (s : JState) : Prop where
  order : s.j.mem ≤ s.j.top ∧ s.j.top ≤ s.j.end_ ∧ s.j.end_ < 2 ^ 64 ∧ 0 < s.j.mem
  inside : ∀ r ∈ s.live, s.j.mem ≤ r.1 ∧ r.1 + r.2 ≤ s.j.top ∧ 0 < r.2
  disj : s.live.Pairwise disjoint

/-- a member allocates: success adds the piece, failure (`out_of_fixed_memory`) changes nothing -/
def allocStep (s : JState) (size align : Nat) : JState × Out :=
  match s.j.allocate size align with
  | (j', .ok p) => ({ j := j', live := (p, size) :: s.live }, .ok p)
  | (j', o) => ({ s with j := j' }, o)

/-- a member releases a piece it holds -/
def deallocStep (s : JState) (r : Nat × Nat) : JState :=
  { j := s.j.deallocate r.1 r.2, live := s.live.erase r }

theorem Inv.create (obj objSize extra : Nat) (h : obj + objSize + extra < 2 ^ 64) (ho : 0 < obj + objSize) :
    Inv { j := Joint.create obj objSize extra, live := [] } :=
  ⟨⟨Nat.le_refl _, by simp [Joint.create], by simpa [Joint.create] using h, by simpa [Joint.create] using ho⟩,
   by simp, List.Pairwise.nil⟩

/-- **Inside, aligned, disjoint; overflow throws** — one allocation step, every size (≥ 1) and every power-of-two
alignment: a served piece is aligned, lies inside the object's block after everything handed out before, and is disjoint
from every live piece; a piece that does not fit yields `out_of_fixed_memory` with the state unchanged; an exactly
fitting piece is served. -/
theorem C11_allocate (s : JState) (hI : Inv s) (size k : Nat) (hk : k < 64) (hs0 : 0 < size) (hs : size < 2 ^ 64)
    (hroom : s.j.top + 2 ^ k < 2 ^ 64) :
    (∀ s' p, allocStep s size (2 ^ k) = (s', .ok p) →
        p % 2 ^ k = 0 ∧ s.j.top ≤ p ∧ p + size = s'.j.top ∧ s'.j.top ≤ s.j.end_ ∧ s'.j.mem = s.j.mem ∧ s'.j.end_ = s.j.end_ ∧
        (∀ r ∈ s.live, disjoint (p, size) r) ∧ Inv s') ∧
    (∀ s' e, allocStep s size (2 ^ k) = (s', .throws e) → e = .oofm ∧ s' = s ∧
        ¬ (alignOff s.j.top (2 ^ k) + size ≤ s.j.end_ - s.j.top)) ∧
    (alignOff s.j.top (2 ^ k) + size ≤ s.j.end_ - s.j.top → ∃ s' p, allocStep s size (2 ^ k) = (s', .ok p)) := by
  obtain ⟨⟨o1, o2, o3, o4⟩, hin, hdj⟩ := hI
  have hcomplete : alignOff s.j.top (2 ^ k) + size ≤ s.j.end_ - s.j.top →
      ∃ p c, fixedAllocate s.j.top s.j.end_ size (2 ^ k) 0 = some (p, c) := by
    intro hfit
    exact fixedAllocate_complete hk (by omega) o2 o3 hs (by omega) (by simpa using hfit)
  refine ⟨?_, ?_, ?_⟩
  · intro s' p h
    unfold allocStep Joint.allocate at h
    cases hfa : fixedAllocate s.j.top s.j.end_ size (2 ^ k) 0 with
    | none => simp [hfa] at h
    | some pc =>
      obtain ⟨p', c⟩ := pc
      simp only [hfa, Prod.mk.injEq, Out.ok.injEq] at h
      obtain ⟨h1, h2⟩ := h
      subst h1 h2
      obtain ⟨a1, a2, _, a4, a5⟩ := fixedAllocate_spec hk o2 o3 hs (by omega) hfa
      simp only [Nat.add_zero] at a2 a4
      have hdisj : ∀ r ∈ s.live, disjoint (p', size) r := by
        intro r hr
        have := hin r hr
        right; simp only; omega
      refine ⟨a1, a2, by simp [a4], by simpa using a5, rfl, rfl, hdisj, ?_⟩
      refine ⟨⟨by simp; omega, by simpa using a5, o3, o4⟩, ?_, ?_⟩
      · intro r hr
        simp only [List.mem_cons] at hr
        rcases hr with hr | hr
        · subst hr; simp only; exact ⟨by omega, by omega, hs0⟩
        · have := hin r hr
          exact ⟨this.1, by simp only; omega, this.2.2⟩
      · exact List.Pairwise.cons hdisj hdj
  · intro s' e h
    unfold allocStep Joint.allocate at h
    cases hfa : fixedAllocate s.j.top s.j.end_ size (2 ^ k) 0 with
    | some pc => obtain ⟨p', c⟩ := pc; simp [hfa] at h
    | none =>
      simp only [hfa, Prod.mk.injEq, Out.throws.injEq] at h
      refine ⟨h.2.symm, h.1.symm, ?_⟩
      intro hfit
      obtain ⟨p, c, hpc⟩ := hcomplete hfit
      rw [hfa] at hpc; cases hpc
  · intro hfit
    obtain ⟨p, c, hpc⟩ := hcomplete hfit
    exact ⟨{ j := { s.j with top := c }, live := (p, size) :: s.live }, p, by simp [allocStep, Joint.allocate, hpc]⟩

/-- releasing a live piece keeps the invariant (only the most recent piece moves the top back) -/
theorem C11_deallocate (s : JState) (hI : Inv s) (r : Nat × Nat) (hr : r ∈ s.live) : Inv (deallocStep s r) := by
  obtain ⟨⟨o1, o2, o3, o4⟩, hin, hdj⟩ := hI
  have hsub : ∀ x ∈ s.live.erase r, x ∈ s.live := fun x hx => List.mem_of_mem_erase hx
  have hdj' : (s.live.erase r).Pairwise disjoint := hdj.sublist (List.erase_sublist)
  unfold deallocStep Joint.deallocate
  by_cases htop : r.1 + r.2 = s.j.top
  · simp only [htop, ↓reduceIte]
    have hrin := hin r hr
    refine ⟨⟨hrin.1, by show r.1 ≤ s.j.end_; omega, o3, o4⟩, ?_, hdj'⟩
    intro x hx
    have hxin := hin x (hsub x hx)
    refine ⟨hxin.1, ?_, hxin.2.2⟩
    -- x is disjoint from r and ends at or below the old top = end of r, so it ends at or below r's start
    have hxr : disjoint x r ∨ x = r := by
      by_cases he : x = r
      · exact Or.inr he
      · left
        rcases List.mem_iff_getElem.1 (hsub x hx) with ⟨i, hi, hxi⟩
        rcases List.mem_iff_getElem.1 hr with ⟨j, hj, hrj⟩
        have hij : i ≠ j := by intro h; subst h; rw [hxi] at hrj; exact he hrj
        rcases Nat.lt_or_gt_of_ne hij with h | h
        · have := List.pairwise_iff_getElem.1 hdj i j hi hj h
          rw [hxi, hrj] at this; exact this
        · have := List.pairwise_iff_getElem.1 hdj j i hj hi h
          rw [hxi, hrj] at this
          rcases this with t | t
          · exact Or.inr t
          · exact Or.inl t
    rcases hxr with hd | he
    · rcases hd with hd | hd
      · simp only; exact hd
      · simp only; omega
    · -- x = r but x is in the erased list: then r occurs twice, and two copies of a non-empty piece are not disjoint
      subst he
      have hdup : ¬ disjoint x x := by
        intro h; rcases h with h | h <;> omega
      exfalso
      have hcount : 2 ≤ s.live.count x := by
        have h1 : 0 < (s.live.erase x).count x := List.count_pos_iff.2 hx
        rw [List.count_erase_self] at h1
        omega
      obtain ⟨l1, l2, hsplit⟩ := List.append_of_mem hr
      rw [hsplit] at hdj hcount
      rw [List.count_append, List.count_cons_self] at hcount
      rw [List.pairwise_append, List.pairwise_cons] at hdj
      by_cases h2 : x ∈ l2
      · exact hdup (hdj.2.1.1 x h2)
      · have : 0 < l1.count x := by
          have : l2.count x = 0 := List.count_eq_zero.2 h2
          omega
        exact hdup (hdj.2.2 x (List.count_pos_iff.1 this) x List.mem_cons_self)
  · simp only [htop, ↓reduceIte]
    exact ⟨⟨o1, o2, o3, o4⟩, fun x hx => hin x (hsub x hx), hdj'⟩

/-- **Freed whole**: whatever the members allocate and give back, the block boundaries never move, so `reset()` releases
exactly `sizeof(T) + additional_size` bytes — the size the block was obtained with (every history, every size including
0 and exact fit). -/
theorem C11_release_whole (obj objSize extra : Nat) (h : obj + objSize + extra < 2 ^ 64) (ops : List JOp) :
    ((Joint.create obj objSize extra).run ops).releaseSize objSize = objSize + extra := by
  have key : ∀ (ops : List JOp) (j : Joint), (j.run ops).mem = j.mem ∧ (j.run ops).end_ = j.end_ := by
    intro ops
    induction ops with
    | nil => intro j; exact ⟨rfl, rfl⟩
    | cons op ops ih =>
      intro j
      have hstep : (j.step op).1.mem = j.mem ∧ (j.step op).1.end_ = j.end_ := by
        cases op with
        | alloc s a =>
          simp only [Joint.step, Joint.allocate]
          split <;> exact ⟨rfl, rfl⟩
        | dealloc p s =>
          simp only [Joint.step, Joint.deallocate]
          split <;> exact ⟨rfl, rfl⟩
      have := ih (j.step op).1
      simp only [Joint.run]
      exact ⟨this.1.trans hstep.1, this.2.trans hstep.2⟩
  obtain ⟨h1, h2⟩ := key ops (Joint.create obj objSize extra)
  unfold Joint.releaseSize Joint.capacity
  rw [h1, h2]
  simp only [Joint.create]
  rw [sub64_eq (by omega) (by omega)]
  omega

/-- `bump` never overruns: a bump that does not fit fails and one that fits moves the top by exactly `off` -/
theorem C11_bump (j : Joint) (off : Nat) (ho : j.top ≤ j.end_) (he : j.end_ < 2 ^ 64) :
    (∀ j', j.bump off = some j' → j'.top = j.top + off ∧ j'.top ≤ j.end_ ∧ j'.mem = j.mem ∧ j'.end_ = j.end_) ∧
    (j.bump off = none ↔ j.end_ - j.top < off) := by
  unfold Joint.bump
  rw [sub64_eq ho he]
  constructor
  · intro j' h
    split at h
    · exact absurd h (by simp)
    · simp only [Option.some.injEq] at h; subst h; exact ⟨rfl, by simp; omega, rfl, rfl⟩
  · constructor
    · intro h; split at h
      · assumption
      · exact absurd h (by simp)
    · intro h; simp [h]

/-- non-vacuity: an object of 40 bytes at 4096 with 64 extra bytes; 3 pieces with mixed alignment, exact fit, overflow -/
example :
    let j := Joint.create 4096 40 64
    let r1 := j.allocate 5 1
    let r2 := r1.1.allocate 16 16
    let r3 := r2.1.allocate 32 8
    let r4 := r3.1.allocate 1 1
    r1.2 = .ok 4136 ∧ r2.2 = .ok 4144 ∧ r3.2 = .ok 4160 ∧ r3.1.capacityLeft = 8 ∧
    (r3.1.allocate 8 8).2 = .ok 4192 ∧ (r3.1.allocate 9 1).2 = .throws .oofm ∧ r4.2 = .ok 4192 ∧
    r4.1.releaseSize 40 = 104 := by decide

end MemVerif.Props.C11
