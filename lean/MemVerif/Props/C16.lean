import MemVerif.Lemmas.OrdList
import MemVerif.Lemmas.C04Lists
import MemVerif.Lemmas.SmallSearch
import MemVerif.Model.Stack
/-!
# C16 — invalid releases that the debug checks cover are reported, valid ones never are

Statements over the L1 models of the ordered list (`find_pos` / `find_pos_interval` with the proxies as addresses), the
small list (`find_chunk_impl` ring search + the three checks of `deallocate`), `memory_stack::unwind` and the LIFO-only
block sources. An outcome `.handler k` carries **no new state**: the model's state is unchanged when a handler fires,
which is the "before allocator state is changed" half of the property (the harness checks the same on the real code:
the state dump taken inside the handler must equal the one taken before the call).

`"invalid_pointer"` = the invalid-pointer handler, `"unreachable"`/`"assert"` = the program is stopped by `abort()`.
-/
namespace MemVerif.Props.C16
open MemVerif.Model

/-- helpers for the non-vacuity examples -/
def _root_.MemVerif.Model.ListRes.isOk {α : Type} : ListRes α → Bool
  | .ok _ => true
  | _ => false
def _root_.MemVerif.Model.ListRes.nodes? : ListRes OrdList → Option (List Nat)
  | .ok l => some l.nodes
  | _ => none

/-! ## ordered free list (`array_pool` always, `node_pool` in debug configurations) -/

/-- **Double release is stopped** (every list state satisfying the invariant, every node of the list — first, last,
most recently freed, middle —, double-free checking on): `deallocate` never inserts; the invalid-pointer handler is
called, or the search ends in the unreachable path, or (assertions on) the precondition assertion of the interval search
stops the program; no state is produced. -/
theorem C16_ordered_double_stops (cfg : Cfg) (hd : cfg.dblDealloc = true) (l : OrdList) (hI : l.Inv) (m : Nat)
    (hm : m ∈ l.nodes) :
    l.deallocate cfg m = .handler "invalid_pointer" ∨ l.deallocate cfg m = .handler "unreachable" ∨
      l.deallocate cfg m = .handler "assert" := by
  unfold OrdList.deallocate
  rw [hd]
  split
  · exact Or.inr (Or.inr rfl)
  · rcases findPos_double l hI m hm with h | h <;> simp [h]

/-- **Valid releases are never reported**, in every configuration: an address that is not on the list (and does not
overlap the proxy words) is inserted in address order. -/
theorem C16_ordered_valid_never_reported (cfg : Cfg) (l : OrdList) (hI : l.Inv) (m : Nat) (hm : m ∉ l.nodes)
    (hmB : m + l.ns ≤ l.B ∨ l.E + 8 ≤ m) (hm0 : 0 < m) :
    ∃ l', l.deallocate cfg m = .ok l' ∧ l'.nodes = insertAsc m l.nodes ∧ l'.Inv := by
  obtain ⟨l', h, hn, _, _, hI'⟩ := deallocate_valid cfg l hI m hm hmB hm0
  exact ⟨l', h, hn, hI'⟩

/-- non-vacuity: a three-node list with the cursor in the middle; double release of each node is stopped -/
example :
    let l : OrdList := { ns := 16, B := 8, E := 16, nodes := [1000, 1016, 1048], cap := 3, ld := 1016, ldp := 1000 }
    (l.deallocate { dblDealloc := true } 1000 = .handler "invalid_pointer") ∧
    (l.deallocate { dblDealloc := true } 1016 = .handler "unreachable") ∧
    (l.deallocate { dblDealloc := true } 1048 = .handler "invalid_pointer") ∧
    (l.deallocate { dblDealloc := true, assert := true } 1048 = .handler "assert") ∧
    ((l.deallocate { dblDealloc := true } 1032).nodes? = some [1000, 1016, 1032, 1048]) := by
  decide

/-! ## small free list -/

/-- the node area of chunk `c` contains `p` -/
def InArea (l : SmallList) (c : Chunk) (p : Nat) : Prop :=
  c.base + chunkOff ≤ p ∧ p < c.base + chunkOff + c.noNodes * l.ns

/-- the chunk search terminates in every state and for every pointer (the repaired loop; before the repair a foreign
pointer released to a one-chunk list made the two cursors chase each other through the proxy forever) -/
theorem C16_small_search_terminates (l : SmallList) (p : Nat) : l.findChunk p ≠ .hang :=
  findChunk_terminates l p

private theorem fromAt_area (l : SmallList) (j p : Nat) (h : l.fromAt j p = true) :
    ∃ i c, j = i + 1 ∧ l.chunks[i]? = some c ∧ InArea l c p := by
  unfold SmallList.fromAt at h
  split at h
  · exact absurd h (by simp)
  · rename_i hj
    split at h
    · exact absurd h (by simp)
    · rename_i c hc
      refine ⟨j - 1, c, by omega, hc, ?_⟩
      simpa [InArea] using h

/-- **A pointer that is not a node boundary of the list is reported** (pointer checking on): if in every chunk whose
node area contains `p` the offset of `p` is not a multiple of the node size — in particular if *no* chunk contains `p`:
outside every chunk, inside a chunk header, past the node area, in memory of another allocator — then `deallocate`
calls the invalid-pointer handler (or reaches the unreachable path) and produces no state. -/
theorem C16_small_invalid_reported (cfg : Cfg) (hp : cfg.ptrCheck = true) (l : SmallList) (p : Nat)
    (hbad : ∀ (i : Nat) (c : Chunk), l.chunks[i]? = some c → InArea l c p → (p - (c.base + chunkOff)) % l.ns ≠ 0) :
    l.deallocate cfg p = .handler "invalid_pointer" ∨ l.deallocate cfg p = .handler "unreachable" := by
  unfold SmallList.deallocate
  split
  · exact Or.inr rfl
  · rename_i h; exact absurd h (findChunk_terminates l p)
  · simp [hp]
  · rename_i h
    obtain ⟨i, c, hj, _, _⟩ := fromAt_area l 0 p (findChunk_fromAt l p 0 h)
    omega
  · rename_i i h
    obtain ⟨i', c, hj, hc, ha⟩ := fromAt_area l (i + 1) p (findChunk_fromAt l p (i + 1) h)
    have hi : i' = i := by omega
    subst hi
    simp only [hc]
    have := hbad i' c hc ha
    simp [hp, this]

/-- **Double release is reported** (pointer and double-free checking on): if in every chunk whose node area contains
`p` the node index of `p` is already on the chunk's free chain — whatever its position in the chain — `deallocate`
calls the handler and produces no state. -/
theorem C16_small_double_reported (cfg : Cfg) (hp : cfg.ptrCheck = true) (hd : cfg.dblDealloc = true)
    (l : SmallList) (p : Nat)
    (hdbl : ∀ (i : Nat) (c : Chunk), l.chunks[i]? = some c → InArea l c p → (p - (c.base + chunkOff)) / l.ns ∈ c.free) :
    l.deallocate cfg p = .handler "invalid_pointer" ∨ l.deallocate cfg p = .handler "unreachable" := by
  unfold SmallList.deallocate
  split
  · exact Or.inr rfl
  · rename_i h; exact absurd h (findChunk_terminates l p)
  · simp [hp]
  · rename_i h
    obtain ⟨i, c, hj, _, _⟩ := fromAt_area l 0 p (findChunk_fromAt l p 0 h)
    omega
  · rename_i i h
    obtain ⟨i', c, hj, hc, ha⟩ := fromAt_area l (i + 1) p (findChunk_fromAt l p (i + 1) h)
    have hi : i' = i := by omega
    subst hi
    simp only [hc]
    have := hdbl i' c hc ha
    by_cases hmod : (p - (c.base + chunkOff)) % l.ns = 0
    · simp [hp, hd, hmod, this]
    · simp [hp, hmod]

/-- **No release is ever accepted wrongly** (the converse reading): a `deallocate` that returns normally released a
node boundary inside a chunk of the list that was not free. -/
theorem C16_small_accepted_is_valid (cfg : Cfg) (hp : cfg.ptrCheck = true) (hd : cfg.dblDealloc = true)
    (l l' : SmallList) (p : Nat) (h : l.deallocate cfg p = .ok l') :
    ∃ (i : Nat) (c : Chunk), l.chunks[i]? = some c ∧ InArea l c p ∧ (p - (c.base + chunkOff)) / l.ns ∉ c.free := by
  obtain ⟨i, c, hc, ha, _, hnf⟩ := deallocate_shape cfg l l' p h
  exact ⟨i, c, hc, ha, hnf hp hd⟩

/-- **Valid releases are never reported** (small list, every configuration, every cursor position): a node boundary inside
the node area of a chunk, not on that chunk's free chain, is released normally — for every ring of chunks sorted by address
with disjoint extents (completeness of the two-cursor chunk search, `findChunk_complete`). -/
theorem C16_small_valid_never_reported (cfg : Cfg) (l : SmallList) (hR : SmallRing l) (i : Nat) (c : Chunk) (p : Nat)
    (hc : l.chunks[i]? = some c) (harea : InArea l c p) (hbound : (p - (c.base + chunkOff)) % l.ns = 0)
    (hlive : (p - (c.base + chunkOff)) / l.ns ∉ c.free) :
    l.deallocate cfg p = .ok (l.deallocResult i c p) := by
  have hfrom : l.fromAt (i + 1) p = true := by
    rw [fromAt_iff]
    exact ⟨c, by omega, by simpa using hc, harea.1, harea.2⟩
  have hfind := findChunk_complete l hR p (i + 1) hfrom
  unfold SmallList.deallocate
  rw [hfind]
  simp only [hc, hbound, ne_eq, not_true_eq_false, decide_false, Bool.and_false, Bool.false_eq_true, ↓reduceIte]
  have : c.free.contains ((p - (c.base + chunkOff)) / l.ns) = false := by
    simpa using hlive
  simp only [this, Bool.and_false, Bool.false_eq_true, ↓reduceIte]

/-- the ring invariant is kept by every successful release (only a free chain and the cursor change) -/
theorem C16_small_ring_deallocate (l : SmallList) (hR : SmallRing l) (i : Nat) (c : Chunk) (p : Nat) (hc : l.chunks[i]? = some c) :
    SmallRing (l.deallocResult i c p) := by
  have hlen : i < l.chunks.length := by
    rcases Nat.lt_or_ge i l.chunks.length with h | h
    · exact h
    · rw [List.getElem?_eq_none h] at hc; cases hc
  have hget : ∀ (k : Nat) (x : Chunk), (l.deallocResult i c p).chunks[k]? = some x →
      ∃ y, l.chunks[k]? = some y ∧ y.base = x.base ∧ y.noNodes = x.noNodes := by
    intro k x hx
    simp only [SmallList.deallocResult, List.getElem?_set] at hx
    by_cases hk : i = k
    · subst hk
      simp only [hlen, ↓reduceIte, Option.some.injEq] at hx
      subst hx; exact ⟨c, hc, rfl, rfl⟩
    · simp only [hk, ↓reduceIte] at hx; exact ⟨x, hx, rfl, rfl⟩
  refine ⟨?_, ?_, ?_, ?_⟩
  · intro a b ca cb ha hb hab
    obtain ⟨ya, hya, e1, e2⟩ := hget a ca ha
    obtain ⟨yb, hyb, e3, _⟩ := hget b cb hb
    have := hR.sorted a b ya yb hya hyb hab
    simp only [Chunk.endOf, SmallList.deallocResult] at this ⊢
    rw [← e1, ← e2, ← e3]; exact this
  · -- the release cursor now points at the chunk that took the node
    refine ⟨i + 1, ?_⟩
    simp only [SmallList.posOf, SmallList.deallocResult]
    have hne : c.base ≠ l.P := by
      intro h
      have := hR.proxyOut c (List.mem_of_getElem? hc)
      unfold Chunk.endOf at this
      have := chunkOff_pos
      omega
    simp only [hne, ↓reduceIte, Option.map_eq_some_iff]
    refine ⟨i, ?_, rfl⟩
    rw [List.findIdx?_eq_some_iff_getElem]
    refine ⟨by simpa using hlen, by simp [List.getElem_set], ?_⟩
    intro j hj
    simp only [List.getElem_set, decide_eq_true_eq]
    have hjl : j < l.chunks.length := by omega
    have hne' : i ≠ j := by omega
    simp only [hne', ↓reduceIte]
    intro hb
    have := hR.sorted j i _ c (List.getElem?_eq_getElem hjl) hc hj
    unfold Chunk.endOf at this
    have := chunkOff_pos
    omega
  · obtain ⟨a, ha⟩ := hR.cursorA
    by_cases hP : l.allocChunk = l.P
    · exact ⟨0, by simp [SmallList.posOf, SmallList.deallocResult, hP]⟩
    · simp only [SmallList.posOf, hP, ↓reduceIte, Option.map_eq_some_iff] at ha
      obtain ⟨k, hk, rfl⟩ := ha
      obtain ⟨hkl, hkp, hkmin⟩ := List.findIdx?_eq_some_iff_getElem.1 hk
      refine ⟨k + 1, ?_⟩
      simp only [SmallList.posOf, SmallList.deallocResult, hP, ↓reduceIte, Option.map_eq_some_iff]
      refine ⟨k, ?_, rfl⟩
      rw [List.findIdx?_eq_some_iff_getElem]
      refine ⟨by simpa using hkl, ?_, ?_⟩
      · simp only [List.getElem_set, decide_eq_true_eq]
        split
        · rename_i hik; subst hik
          have : l.chunks[i] = c := by
            have := List.getElem?_eq_getElem hlen; rw [hc] at this; exact (Option.some.inj this).symm
          rw [this] at hkp; simpa using hkp
        · simpa using hkp
      · intro j hj
        simp only [List.getElem_set, decide_eq_true_eq]
        have := hkmin j hj
        split
        · rename_i hij; subst hij
          have hci : l.chunks[i] = c := by
            have := List.getElem?_eq_getElem hlen; rw [hc] at this; exact (Option.some.inj this).symm
          rw [hci] at this; simpa using this
        · simpa using this
  · intro x hx
    simp only [SmallList.deallocResult] at hx ⊢
    rcases List.mem_or_eq_of_mem_set hx with h | h
    · exact hR.proxyOut x h
    · subst h
      have := hR.proxyOut c (List.mem_of_getElem? hc)
      simpa [Chunk.endOf] using this

/-- non-vacuity: one chunk of 3 nodes (8 bytes each) at 1000 (node area from 1032), node 1 free, cursors on the proxy —
the state in which the unrepaired search did not terminate -/
example :
    let l : SmallList := { ns := 8, P := 8, chunks := [⟨1000, 3, 1, [1]⟩], cap := 1, allocChunk := 1000, deallocChunk := 8 }
    let cfg : Cfg := { ptrCheck := true, dblDealloc := true }
    l.deallocate cfg 5000 = .handler "invalid_pointer" ∧     -- foreign, above
    l.deallocate cfg 500 = .handler "invalid_pointer" ∧      -- foreign, below
    l.deallocate cfg 1008 = .handler "invalid_pointer" ∧     -- chunk header
    l.deallocate cfg 1056 = .handler "invalid_pointer" ∧     -- past the node area
    l.deallocate cfg 1035 = .handler "invalid_pointer" ∧     -- between node boundaries
    l.deallocate cfg 1040 = .handler "invalid_pointer" ∧     -- node 1: already free
    (l.deallocate cfg 1032).isOk = true := by                 -- node 0: valid
  decide

/-! ## `memory_stack::unwind` -/

/-- **Unwinding to a marker above the current top is reported** (pointer checking on): a marker of the current block
with a higher top, or of a block the stack does not have (yet), makes `unwind` call the handler (with assertions on the
assertion stops the program first); the stack is unchanged and no block is released. -/
theorem C16_unwind_above_top_reported (cfg : Cfg) (hp : cfg.ptrCheck = true) (s : MemStack) (t m : Marker)
    (ht : s.top = some t) (habove : t.lt m = true) (hidx : t.index ≤ m.index) :
    ∃ k, s.unwindEv cfg m = (s, .handler k, []) := by
  unfold MemStack.unwindEv
  simp only [ht]
  have htop : t.index = s.arena.used.length - 1 ∧ t.top = s.cur := by
    unfold MemStack.top at ht
    split at ht
    · exact absurd ht (by simp)
    · simp only [Option.some.injEq] at ht; subst ht; exact ⟨rfl, rfl⟩
  by_cases ha : cfg.assert = true
  · have : m.le t = false := by simp [Marker.le, habove]
    exact ⟨"assert", by simp [ha, this]⟩
  · have ha' : cfg.assert = false := by simpa using ha
    simp only [ha', Bool.false_and, Bool.false_eq_true, ↓reduceIte, hp, Bool.true_and]
    by_cases hi : m.index ≤ s.arena.used.length - 1
    · -- same block: the top is higher
      have hidx' : m.index = s.arena.used.length - 1 := by omega
      have hlt : s.cur < m.top := by
        unfold Marker.lt at habove
        rw [htop.1, hidx'] at habove
        simp at habove
        omega
      have hk : sub64 (s.arena.used.length - 1) m.index = 0 := by
        rw [hidx']; simp [sub64]
      refine ⟨"invalid_pointer", ?_⟩
      simp [hi, hk, Nat.not_le.2 hlt]
    · exact ⟨"invalid_pointer", by simp [hi]⟩

/-- **A marker at or below the top in the current block is never reported** (no false report) -/
theorem C16_unwind_valid_same_block (cfg : Cfg) (s : MemStack) (t m : Marker) (ht : s.top = some t)
    (hidx : m.index = t.index) (hle : m.top ≤ t.top) :
    s.unwindEv cfg m = ({ s with cur := m.top }, .done, []) := by
  unfold MemStack.unwindEv
  simp only [ht]
  have htop : t.index = s.arena.used.length - 1 ∧ t.top = s.cur := by
    unfold MemStack.top at ht
    split at ht
    · exact absurd ht (by simp)
    · simp only [Option.some.injEq] at ht; subst ht; exact ⟨rfl, rfl⟩
  have hle' : m.le t = true := by
    simp only [Marker.le, Marker.lt, hidx, ne_eq, not_true_eq_false, ↓reduceIte, Bool.not_eq_eq_eq_not, Bool.not_true,
      decide_eq_false_iff_not, Nat.not_lt]
    exact hle
  have hk : sub64 (s.arena.used.length - 1) m.index = 0 := by
    rw [hidx, htop.1]; simp [sub64]
  have h1 : m.index ≤ s.arena.used.length - 1 := by omega
  have h2 : s.cur ≥ m.top := by omega
  simp [hle', h1, hk, h2]

/-! ## LIFO-only block sources -/

/-- `static_block_allocator` (and `virtual_block_allocator`, same check on `cur_`): a block that is not the most
recently allocated one is reported; the most recently allocated one never is -/
theorem C16_lifo_static (cfg : Cfg) (hp : cfg.ptrCheck = true) (c e b : Nat) (blk : Blk) :
    ((Src.static_ c e b).deallocateBlock cfg blk).2.2 =
      if blk.base + blk.size ≠ c then some "invalid_pointer" else none := by
  simp [Src.deallocateBlock, hp]

/-- `fixed_block_allocator`: returning a block while none is outstanding is reported; returning the outstanding one
never is -/
theorem C16_lifo_fixed (cfg : Cfg) (hp : cfg.ptrCheck = true) (b : Nat) (blk : Blk) :
    ((Src.fixed b).deallocateBlock cfg blk).2.2 = if b ≠ 0 then some "invalid_pointer" else none := by
  simp [Src.deallocateBlock, hp]

/-- a block source is never asked to report when pointer checking is off -/
theorem C16_lifo_unchecked (cfg : Cfg) (hp : cfg.ptrCheck = false) (s : Src) (blk : Blk) :
    (s.deallocateBlock cfg blk).2.2 = none := by
  cases s <;> simp [Src.deallocateBlock, hp]

/-- LIFO use of the static source is never reported: the block just handed out goes back without a report -/
theorem C16_lifo_static_valid (cfg : Cfg) (c e b : Nat) (s' : Src) (blk : Blk) (ev : List UpEv)
    (env env' : List (Option Nat)) (h : (Src.static_ c e b).allocateBlock env = .ok s' blk ev env') :
    (s'.deallocateBlock cfg blk).2.2 = none := by
  unfold Src.allocateBlock at h
  simp only at h
  split at h
  · exact absurd h (by simp)
  · simp only [SrcRes.ok.injEq] at h
    obtain ⟨rfl, rfl, _, _⟩ := h
    simp [Src.deallocateBlock]

end MemVerif.Props.C16
