import MemVerif.Model.Compose
/-!
# C09 — adapters forward every request faithfully and release with matching parameters

Statements are by structural induction over composition expressions of **any depth** (the property's depth ≤ 3 is a special
case), for every request shape, size, count and alignment, through the throwing and the composable interface.
-/
namespace MemVerif.Props.C09
open MemVerif.Model

/-- well-formed request: a node request has count 1 -/
def Req.WF (r : Req) : Prop := r.arr = false → r.count = 1

/-- `count * size` does not wrap (`size_t`); the wrapped case is finding D21 -/
def Req.NoOverflow (r : Req) : Prop := r.count * r.size < 2 ^ 64

theorem mul64_eq {a b : Nat} (h : a * b < 2 ^ 64) : mul64 a b = a * b := by
  have ha : a < 2 ^ 64 ∨ b = 0 := by
    rcases Nat.eq_zero_or_pos b with hb | hb
    · exact Or.inr hb
    · left; exact Nat.lt_of_le_of_lt (Nat.le_mul_of_pos_right a hb) h
  have hb : b < 2 ^ 64 ∨ a = 0 := by
    rcases Nat.eq_zero_or_pos a with ha | ha
    · exact Or.inr ha
    · left; exact Nat.lt_of_le_of_lt (Nat.le_mul_of_pos_left b ha) h
  unfold mul64
  rw [BitVec.toNat_mul, BitVec.toNat_ofNat, BitVec.toNat_ofNat]
  rcases ha with ha | ha
  · rcases hb with hb | hb
    · rw [Nat.mod_eq_of_lt ha, Nat.mod_eq_of_lt hb, Nat.mod_eq_of_lt h]
    · subst hb; simp
  · subst ha; simp

theorem bytes_eq (r : Req) (hw : Req.WF r) (hn : Req.NoOverflow r) : r.bytes = r.count * r.size := by
  unfold Req.bytes
  cases h : r.arr
  · simp [hw h]
  · simp [mul64_eq hn]

theorem leafReq_bytes (ha : Bool) (r : Req) (hn : Req.NoOverflow r) (hw : Req.WF r) :
    (leafReq ha r).bytes = r.bytes ∧ (leafReq ha r).align = r.align ∧ Req.WF (leafReq ha r) ∧ Req.NoOverflow (leafReq ha r) := by
  unfold leafReq
  by_cases h : (r.arr && !ha) = true
  · simp only [h, ↓reduceIte]
    have harr : r.arr = true := by simp at h; exact h.1
    refine ⟨?_, rfl, fun _ => rfl, ?_⟩
    · simp [Req.bytes, Req.node, harr]
    · simp only [Req.NoOverflow, Req.node, Nat.one_mul]; exact BitVec.isLt _
  · simp only [h]; exact ⟨rfl, rfl, hw, hn⟩

theorem anyReq_bytes (r : Req) (hn : Req.NoOverflow r) (hw : Req.WF r) :
    (anyReq r).bytes = r.bytes ∧ (anyReq r).align = r.align ∧ Req.WF (anyReq r) ∧ Req.NoOverflow (anyReq r) := by
  unfold anyReq
  by_cases h : r.count = 1
  · simp only [h, ↓reduceIte]
    refine ⟨?_, rfl, fun _ => rfl, ?_⟩
    · rw [bytes_eq r hw hn, h]; simp [Req.bytes, Req.node]
    · simp only [Req.NoOverflow, Req.node, Nat.one_mul]
      have := hn; unfold Req.NoOverflow at this; rw [h] at this; simpa using this
  · simp only [h, ↓reduceIte]
    have harr : r.arr = true := by
      cases hh : r.arr
      · exact absurd (hw hh) h
      · rfl
    refine ⟨?_, rfl, fun hh => by simp [Req.array] at hh, hn⟩
    simp [Req.bytes, Req.array, harr]

/-- **Forwarded faithfully** (any composition, both interfaces, any leaf behaviour): every call a leaf sees asks for at
least the requested number of bytes at an alignment no smaller than requested. -/
theorem C09_forward_ge (e : AExpr) : ∀ (t : Bool) (r : Req) (ans : List Bool), Req.WF r → Req.NoOverflow r →
    ∀ c ∈ (route t e r ans).calls, r.bytes ≤ c.req.bytes ∧ r.align ≤ c.req.align := by
  induction e with
  | leaf i ha =>
    intro t r ans hw hn c hc
    simp only [route, List.mem_singleton] at hc
    subst hc
    obtain ⟨h1, h2, _, _⟩ := leafReq_bytes ha r hn hw
    simp only [h1, h2]; exact ⟨Nat.le_refl _, Nat.le_refl _⟩
  | aligned m a ih =>
    intro t r ans hw hn c hc
    have := ih t { r with align := max m r.align } ans hw hn c hc
    refine ⟨?_, ?_⟩
    · have h : ({ r with align := max m r.align } : Req).bytes = r.bytes := rfl
      rw [← h]; exact this.1
    · exact Nat.le_trans (Nat.le_max_right m r.align) this.2
  | tracked a ih => intro t r ans hw hn c hc; exact ih t r ans hw hn c hc
  | fallback d f ihd ihf =>
    intro t r ans hw hn c hc
    simp only [route] at hc
    split at hc
    · exact ihd false r ans hw hn c hc
    · simp only [List.mem_append] at hc
      rcases hc with hc | hc
      · exact ihd false r ans hw hn c hc
      · exact ihf t r _ hw hn c hc
  | segregator m s f ihs ihf =>
    intro t r ans hw hn c hc
    simp only [route] at hc
    split at hc
    · exact ihs t r ans hw hn c hc
    · exact ihf t r ans hw hn c hc
  | storage a ih => intro t r ans hw hn c hc; exact ih t r ans hw hn c hc
  | anyRef a ih =>
    intro t r ans hw hn c hc
    obtain ⟨h1, h2, h3, h4⟩ := anyReq_bytes r hn hw
    have := ih t (anyReq r) ans h3 h4 c hc
    rw [h1, h2] at this; exact this

/-- **One request**: a served allocation is served by exactly one leaf call, a failed one by none (the default of a
fallback allocator that declines hands out nothing). -/
theorem C09_single_service (e : AExpr) : ∀ (t : Bool) (r : Req) (ans : List Bool),
    ((route t e r ans).calls.filter (·.ok)).length = if (route t e r ans).ok then 1 else 0 := by
  induction e with
  | leaf i ha =>
    intro t r ans; simp only [route]
    simp only [List.filter]
    split <;> rename_i h <;> simp only [List.headD_eq_head?_getD] at h <;> simp [h]
  | aligned m a ih => intro t r ans; exact ih t _ ans
  | tracked a ih => intro t r ans; exact ih t r ans
  | fallback d f ihd ihf =>
    intro t r ans
    simp only [route]
    have hd := ihd false r ans
    split
    · rename_i hok; simpa [hok] using hd
    · rename_i hok
      simp only [hok, Bool.false_eq_true, ↓reduceIte] at hd
      simp only [List.filter_append, List.length_append, hd, Nat.zero_add]
      exact ihf t r _
  | segregator m s f ihs ihf =>
    intro t r ans
    simp only [route]
    split
    · exact ihs t r ans
    · exact ihf t r ans
  | storage a ih => intro t r ans; exact ih t r ans
  | anyRef a ih => intro t r ans; exact ih t _ ans

/-- leaves of a composition -/
def leaves : AExpr → List Nat
  | .leaf i _ => [i]
  | .aligned _ a | .tracked a | .storage a | .anyRef a => leaves a
  | .fallback d f | .segregator _ d f => leaves d ++ leaves f

/-- every leaf occurs once (each sub-allocator is a distinct object) -/
def Distinct (e : AExpr) : Prop := (leaves e).Nodup

theorem route_calls_leaves (e : AExpr) : ∀ (t : Bool) (r : Req) (ans : List Bool), ∀ c ∈ (route t e r ans).calls, c.leaf ∈ leaves e := by
  induction e with
  | leaf i ha => intro t r ans c hc; simp only [route, List.mem_singleton] at hc; subst hc; simp [leaves]
  | aligned m a ih => intro t r ans c hc; exact ih t _ ans c hc
  | tracked a ih => intro t r ans c hc; exact ih t r ans c hc
  | fallback d f ihd ihf =>
    intro t r ans c hc
    simp only [route] at hc
    simp only [leaves, List.mem_append]
    split at hc
    · exact Or.inl (ihd false r ans c hc)
    · simp only [List.mem_append] at hc
      rcases hc with hc | hc
      · exact Or.inl (ihd false r ans c hc)
      · exact Or.inr (ihf t r _ c hc)
  | segregator m s f ihs ihf =>
    intro t r ans c hc
    simp only [route] at hc
    simp only [leaves, List.mem_append]
    split at hc
    · exact Or.inl (ihs t r ans c hc)
    · exact Or.inr (ihf t r ans c hc)
  | storage a ih => intro t r ans c hc; exact ih t r ans c hc
  | anyRef a ih => intro t r ans c hc; exact ih t _ ans c hc

/-- a composable release declines (and every leaf declines) when the memory belongs to none of its leaves -/
theorem release_foreign (e : AExpr) : ∀ (r : Req) (owner : Nat), owner ∉ leaves e →
    (release false e r owner).2.1 = false ∧ ∀ c ∈ (release false e r owner).1, c.ok = false := by
  induction e with
  | leaf i ha =>
    intro r owner h
    have hne : (i == owner) = false := by
      simp only [leaves, List.mem_singleton] at h
      simp only [beq_eq_false_iff_ne, ne_eq]
      exact fun hh => h hh.symm
    simp only [release, Bool.false_eq_true, ↓reduceIte, hne, List.mem_singleton, forall_eq, and_self]
  | aligned m a ih => intro r owner h; exact ih _ owner h
  | tracked a ih =>
    intro r owner h
    have := ih r owner h
    simp only [release]
    exact ⟨this.1, this.2⟩
  | fallback d f ihd ihf =>
    intro r owner h
    simp only [leaves, List.mem_append, not_or] at h
    have hd := ihd r owner h.1
    have hf := ihf r owner h.2
    simp only [release, hd.1, Bool.false_eq_true, ↓reduceIte]
    refine ⟨hf.1, ?_⟩
    intro c hc
    simp only [List.mem_append] at hc
    rcases hc with hc | hc
    · exact hd.2 c hc
    · exact hf.2 c hc
  | segregator m s f ihs ihf =>
    intro r owner h
    simp only [leaves, List.mem_append, not_or] at h
    simp only [release]
    split
    · exact ihs r owner h.1
    · exact ihf r owner h.2
  | storage a ih => intro r owner h; exact ih r owner h
  | anyRef a ih => intro r owner h; exact ih _ owner h

/-- **Released with matching parameters, to the same leaf, exactly once.** If a request `r` through composition `e`
(any depth, any interleaving of served/declined leaf calls) was served by leaf call `c`, then releasing with the same
user-level parameters `r` — through the throwing or the composable interface — succeeds, and exactly one leaf performs a
release: the leaf that served it, with the kind, count, size and alignment `c` was made with. -/
theorem C09_release_matches (e : AExpr) : ∀ (_hd : Distinct e) (t t' : Bool) (r : Req) (ans : List Bool) (c : LeafCall),
    c ∈ (route t e r ans).calls → c.ok = true →
    (release t' e r c.leaf).2.1 = true ∧
    ((release t' e r c.leaf).1.filter (·.ok)) =
      [⟨c.leaf, if (release t' e r c.leaf).1.getLast?.map (·.kind) = some .dealloc then .dealloc else .tryDealloc, c.req, true⟩] := by
  induction e with
  | leaf i ha =>
    intro _ t t' r ans c hc hok
    simp only [route, List.mem_singleton] at hc
    subst hc
    cases t' <;> simp [release]
  | aligned m a ih => intro hd t t' r ans c hc hok; exact ih hd t t' _ ans c hc hok
  | tracked a ih =>
    intro hd t t' r ans c hc hok
    have := ih hd t t' r ans c hc hok
    simp only [release]
    exact this
  | fallback d f ihd ihf =>
    intro hd t t' r ans c hc hok
    have hnd : (leaves d ++ leaves f).Nodup := hd
    rw [List.nodup_append] at hnd
    simp only [route] at hc
    by_cases hx : (route false d r ans).ok = true
    · simp only [hx, ↓reduceIte] at hc
      have := ihd hnd.1 false false r ans c hc hok
      simp only [release, this.1, ↓reduceIte]
      exact ⟨trivial, this.2⟩
    · have hx' : (route false d r ans).ok = false := by simpa using hx
      simp only [hx', Bool.false_eq_true, ↓reduceIte, List.mem_append] at hc
      have hsingle := C09_single_service d false r ans
      simp only [hx', Bool.false_eq_true, ↓reduceIte, List.length_eq_zero_iff] at hsingle
      have hcf : c ∈ (route t f r (route false d r ans).rest).calls := by
        rcases hc with hc | hc
        · have : c ∈ (route false d r ans).calls.filter (·.ok) := List.mem_filter.2 ⟨hc, by simpa using hok⟩
          rw [hsingle] at this; cases this
        · exact hc
      have hleaf := route_calls_leaves f t r _ c hcf
      have hnotd : c.leaf ∉ leaves d := fun h => hnd.2.2 _ h _ hleaf rfl
      have hfor := release_foreign d r c.leaf hnotd
      have := ihf hnd.2.1 t t' r _ c hcf hok
      simp only [release, hfor.1, Bool.false_eq_true, ↓reduceIte]
      refine ⟨this.1, ?_⟩
      have hfil : (release false d r c.leaf).1.filter (·.ok) = [] := by
        rw [List.filter_eq_nil_iff]; intro x hx; simp [hfor.2 x hx]
      rw [List.filter_append, hfil, List.nil_append, this.2]
      -- the last call of the whole release is the last call of the fallback part (it is not empty)
      have hne : (release t' f r c.leaf).1 ≠ [] := by
        intro h; rw [h] at this; simp at this
      rw [List.getLast?_append]
      cases hl : (release t' f r c.leaf).1.getLast? with
      | none => exact absurd (List.getLast?_eq_none_iff.1 hl) hne
      | some x => simp
  | segregator m s f ihs ihf =>
    intro hd t t' r ans c hc hok
    have hnd : (leaves s ++ leaves f).Nodup := hd
    rw [List.nodup_append] at hnd
    simp only [route] at hc
    simp only [release]
    split at hc
    · rename_i h; simp only [h, ↓reduceIte]; exact ihs hnd.1 t t' r ans c hc hok
    · rename_i h; simp only [h]; exact ihf hnd.2.1 t t' r ans c hc hok
  | storage a ih => intro hd t t' r ans c hc hok; exact ih hd t t' r ans c hc hok
  | anyRef a ih => intro hd t t' r ans c hc hok; exact ih hd t t' _ ans c hc hok

/-- no `tracked_allocator` inside -/
def TrackFree : AExpr → Prop
  | .leaf _ _ => True
  | .tracked _ => False
  | .aligned _ a | .storage a | .anyRef a => TrackFree a
  | .fallback d f | .segregator _ d f => TrackFree d ∧ TrackFree f

theorem route_track_free (e : AExpr) : TrackFree e → ∀ t r ans, (route t e r ans).track = [] := by
  induction e with
  | leaf i ha => intro _ t r ans; rfl
  | aligned m a ih => intro h t r ans; exact ih h t _ ans
  | tracked a ih => intro h; exact absurd h (by simp [TrackFree])
  | fallback d f ihd ihf =>
    intro h t r ans
    simp only [route]
    split
    · exact ihd h.1 false r ans
    · simp [ihd h.1, ihf h.2]
  | segregator m s f ihs ihf =>
    intro h t r ans
    simp only [route]
    split
    · exact ihs h.1 t r ans
    · exact ihf h.2 t r ans
  | storage a ih => intro h t r ans; exact ih h t r ans
  | anyRef a ih => intro h t r ans; exact ih h t _ ans

/-- **Trackers see every successful operation exactly once and no failed one** -/
theorem C09_tracker_once (a : AExpr) (h : TrackFree a) (t : Bool) (r : Req) (ans : List Bool) :
    (route t (.tracked a) r ans).track = if (route t (.tracked a) r ans).ok then [⟨true, r⟩] else [] := by
  simp only [route, route_track_free a h, List.nil_append]

/-- `std_allocator`: the node/array decision depends only on `n`, so `deallocate(p, n)` repeats it identically -/
theorem C09_std_allocator_same_decision (n s a : Nat) :
    stdReq n s a = (if n = 1 then Req.node s a else Req.array n s a) ∧ Req.WF (stdReq n s a) := by
  refine ⟨rfl, ?_⟩
  unfold stdReq
  split
  · intro _; rfl
  · intro h; simp [Req.array] at h

/-- `memory_resource_adapter` forwards at least `bytes`, and releases with the same split **if `max_node_size()` of the
wrapped allocator is the same at both calls** (`…_partial`: over allocators whose maximum shrinks the split is recomputed
from the current value — recorded finding D24, see the counterexample below) -/
theorem C09_mra_forward_partial (bytes align maxNode : Nat) (hm : 0 < maxNode) :
    let r := mraReq bytes align maxNode
    bytes ≤ r.count * r.size ∧ r.align = align ∧ Req.WF r := by
  intro r
  by_cases h : bytes ≤ maxNode
  · have hr : r = Req.node bytes align := by simp [r, mraReq, h]
    rw [hr]; exact ⟨by simp [Req.node], rfl, fun _ => rfl⟩
  · have hr : r = Req.array (bytes / maxNode + (if bytes % maxNode ≠ 0 then 1 else 0)) maxNode align := by simp [r, mraReq, h]
    rw [hr]
    refine ⟨?_, rfl, fun hh => by simp [Req.array] at hh⟩
    simp only [Req.array]
    have := Nat.div_add_mod bytes maxNode
    have hlt := Nat.mod_lt bytes hm
    split
    · rw [Nat.add_mul]; simp only [Nat.one_mul]
      have : bytes / maxNode * maxNode = maxNode * (bytes / maxNode) := Nat.mul_comm _ _
      omega
    · rename_i h0
      have h00 : bytes % maxNode = 0 := by simpa using h0
      rw [Nat.add_zero, Nat.mul_comm]; omega

/-- D24: the same 600-byte block is a node while `max_node_size()` is 1024 and an array of 5 x 124 once it is 124 -/
theorem C09_mra_release_counterexample : mraReq 600 8 1024 = Req.node 600 8 ∧ mraReq 600 8 124 = Req.array 5 124 8 := by decide

/-! ### instances -/

/-- nested fallbacks over three leaves, the middle one without array support: an array request declined by the first
two leaves reaches the third, and its release comes home with the same shape -/
example :
    let e := AExpr.fallback (.fallback (.leaf 0 true) (.leaf 1 false)) (.tracked (.aligned 8 (.leaf 2 true)))
    let x := route true e (Req.array 3 8 1) [false, false, true]
    x.calls.map LeafCall.str = ["L0:try_alloc:arr:3:8:1:0", "L1:try_alloc:node:24:1:0", "L2:alloc:arr:3:8:8:1"] ∧
    x.track.map TrackEv.str = ["on_alloc:arr:3:8:1"] ∧
    (release true e (Req.array 3 8 1) 2).1.map LeafCall.str =
      ["L0:try_dealloc:arr:3:8:1:0", "L1:try_dealloc:node:24:1:0", "L2:dealloc:arr:3:8:8:1"] := by decide

end MemVerif.Props.C09
