import MemVerif.Props.C01Ord
import MemVerif.Props.C19
import MemVerif.Lemmas.C18
/-!
# C02 — `memory_pool` over either intrusive free list: what is returned is aligned, sized and contiguous

For the two intrusive lists (`hint : o` is not the small list; the small node pool's grid is the chunk grid, see
`C01Ord.C01_smallpool_list_wellformed_partial`): the pool invariant's **conservation** clause (`PInvG.conserve`,
`Lemmas/C01PoolG.lean`) says that the free cells
together with the cells of the live allocations are, as a multiset, exactly the cells the blocks in use were cut into:
`usable size / node size` cells from the start of each block's usable part. Hence every address the pool ever handed
out and that is still live sits on the node grid of one of its blocks — after any amount of growth, for nodes and for
arrays, for both list implementations, whatever the order of releases in between (the ordered list re-sorts, the
unordered list permutes: neither can move a cell off the grid).

From the grid: alignment (`alignment_for(node_size)` divides the node size and `max_alignment`, block starts are
`max_alignment`-aligned by the environment assumption, the arena's header is `max_alignment` bytes), size (a node
request gets one whole cell, an array of `n` nodes gets `n` consecutive cells inside one block) and the position of
array element `i` at `base + i * node_size`.
-/
namespace MemVerif.Props.C02Pool
open MemVerif.Model MemVerif.Props.C01Ord MemVerif.Gen

/-- the head of a non-empty run is a member of it -/
theorem run_head_mem (a ns c : Nat) (hc : 0 < c) : a ∈ blockNodes a ns c := by
  cases c with
  | zero => omega
  | succ c => simp [blockNodes]

/-- **Every live allocation sits on the node grid of a block in use**, with all its cells inside that block:
`a = block + 16 + j * node_size`. -/
theorem C02_ipool_on_grid_partial (cfg : Cfg) (e : EnvS) (ns : Nat) (o : AnyList.ListObj) (g : GPool) (k : Nat)
    (ops : List POp) (hI : GInvG ns o g) (hfit : ∀ op ∈ ops, op.Fits ns) (hint : ∀ P, o ≠ .small P)
    (henv : EnvOkG o (g.run cfg e k ops).1.p.arena.used) :
    ∀ ab ∈ (g.run cfg e k ops).1.live, ∃ b ∈ (g.run cfg e k ops).1.p.arena.used, ∃ j,
      ab.1 = b.base + implOff + j * ns ∧ ab.1 + cellsOf ns ab.2 * ns ≤ b.base + b.size ∧ ab.2 ≤ cellsOf ns ab.2 * ns := by
  intro ab hab
  have h := GPool.run_invG cfg e ops g k hI hfit henv
  have hpos := cellsOf_pos ns ab.2 h.cell.nsPos
  -- the first cell of the allocation is one of the blocks' cells
  have hm : ab.1 ∈ (g.run cfg e k ops).1.p.list.cells ++ liveCells ns (g.run cfg e k ops).1.live :=
    List.mem_append_right _ (List.mem_flatMap.mpr ⟨ab, hab, run_head_mem _ _ _ hpos⟩)
  have hm' := h.conserve.subset hm
  rw [cellsOfBlocks_intrusive _ _ (by rw [h.objEq]; exact hint), h.nsEq] at hm'
  obtain ⟨b, hb, hin⟩ := List.mem_flatMap.mp hm'
  obtain ⟨j, _, hj⟩ := mem_blockNodes.mp hin
  -- and the whole allocation lies in one block: the same one, since blocks are disjoint
  obtain ⟨b', hb', h1, h2⟩ := h.cell.liveIn ab hab
  have hbounds := blockNodes_bounds hin
  have hdiv := Nat.div_mul_le_self b.usable.size ns
  have hw := h.cell.blocks.1 b hb
  have hw' := h.cell.blocks.1 b' hb'
  unfold Blk.Wf at hw hw'
  have hsame : b = b' := by
    rcases pairwise_mem_or Blk.Disj.symm h.cell.blocks.2 hb hb' with heq | hd
    · exact heq
    · exfalso
      unfold Blk.Disj at hd
      unfold Blk.usable at hbounds hdiv
      simp only at hbounds hdiv
      have : 1 * ns ≤ cellsOf ns ab.2 * ns := Nat.mul_le_mul_right _ hpos
      rw [implOff_eq] at *
      omega
  subst hsame
  refine ⟨b, hb, j, ?_, h2, le_cellsOf_mul ns ab.2 h.cell.nsPos⟩
  rw [hj]; rfl

/-- `alignment_for(ns)` divides `ns` and `max_alignment` (from `C19_alignment_for`: it is `min(2^j, 16)` for
`ns = 2^j * odd`) -/
theorem alignmentFor_dvd (ns : Nat) (h0 : 0 < ns) (hlt : ns < 2 ^ 64) :
    (alignmentFor (BitVec.ofNat 64 ns)).toNat ∣ ns ∧ (alignmentFor (BitVec.ofNat 64 ns)).toNat ∣ 16 := by
  have hne : BitVec.ofNat 64 ns ≠ 0#64 := by
    intro h
    have := congrArg BitVec.toNat h
    rw [BitVec.toNat_ofNat, Nat.mod_eq_of_lt hlt] at this
    simp at this; omega
  obtain ⟨j, q, hs, hd, _⟩ := C19.C19_alignment_for_decomp _ hne
  have hval := C19.C19_alignment_for _ j q hs
  have hn : (BitVec.ofNat 64 ns).toNat = ns := by rw [BitVec.toNat_ofNat, Nat.mod_eq_of_lt hlt]
  rw [hn] at hd
  have hmax : C.max_alignment.toNat = 16 := by decide
  rw [hmax] at hval
  rw [hval]
  by_cases hj : j ≤ 4
  · have hle : 2 ^ j ≤ 16 := by
      calc 2 ^ j ≤ 2 ^ 4 := Nat.pow_le_pow_right (by omega) hj
        _ = 16 := by decide
    rw [Nat.min_eq_left hle]
    exact ⟨hd, by
      have : (2:Nat) ^ j ∣ 2 ^ 4 := Nat.pow_dvd_pow 2 hj
      simpa using this⟩
  · have hge : 16 ≤ 2 ^ j := by
      calc 16 = 2 ^ 4 := by decide
        _ ≤ 2 ^ j := Nat.pow_le_pow_right (by omega) (by omega)
    rw [Nat.min_eq_right hge]
    refine ⟨Nat.dvd_trans ?_ hd, Nat.dvd_refl _⟩
    have : (2:Nat) ^ 4 ∣ 2 ^ j := Nat.pow_dvd_pow 2 (by omega)
    simpa using this

/-- **Alignment after any amount of growth.** If every block the block source handed out starts at a
`max_alignment`-aligned address (what `malloc`/`new`/`mmap` and the library's own block allocators give), every live
allocation of a pool over an intrusive list is aligned to `alignment_for(node_size)` — the alignment the pool's traits
accept (`max_alignment(state)`), for nodes and arrays, in every block. -/
theorem C02_ipool_aligned_partial (cfg : Cfg) (e : EnvS) (ns : Nat) (o : AnyList.ListObj) (g : GPool) (k : Nat)
    (ops : List POp) (hI : GInvG ns o g) (hfit : ∀ op ∈ ops, op.Fits ns) (hlt : ns < 2 ^ 64) (hint : ∀ P, o ≠ .small P)
    (henv : EnvOkG o (g.run cfg e k ops).1.p.arena.used)
    (halign : ∀ b ∈ (g.run cfg e k ops).1.p.arena.used, 16 ∣ b.base) :
    ∀ ab ∈ (g.run cfg e k ops).1.live, (alignmentFor (BitVec.ofNat 64 ns)).toNat ∣ ab.1 := by
  intro ab hab
  have h := GPool.run_invG cfg e ops g k hI hfit henv
  obtain ⟨b, hb, j, hj, _, _⟩ := C02_ipool_on_grid_partial cfg e ns o g k ops hI hfit hint henv ab hab
  obtain ⟨d1, d2⟩ := alignmentFor_dvd ns h.cell.nsPos hlt
  rw [hj, implOff_eq]
  exact Nat.dvd_add (Nat.dvd_add (Nat.dvd_trans d2 (halign b hb)) d2) (Nat.dvd_mul_left_of_dvd d1 j)

/-- **Arrays are contiguous and whole**: a live array obtained by `allocate_array(n)` (`n * node_size` bytes in the
ledger) occupies exactly `n` consecutive cells of one block, so element `i` (`i < n`) is the cell at
`base + i * node_size`, inside the block, and distinct live allocations never share a cell (C01). -/
theorem C02_ipool_array_elements_partial (cfg : Cfg) (e : EnvS) (ns : Nat) (o : AnyList.ListObj) (g : GPool) (k : Nat)
    (ops : List POp) (hI : GInvG ns o g) (hfit : ∀ op ∈ ops, op.Fits ns) (hint : ∀ P, o ≠ .small P)
    (henv : EnvOkG o (g.run cfg e k ops).1.p.arena.used) (a n : Nat) (hn : 0 < n)
    (hab : (a, n * ns) ∈ (g.run cfg e k ops).1.live) :
    ∃ b ∈ (g.run cfg e k ops).1.p.arena.used, ∀ i, i < n →
      b.base + implOff ≤ a + i * ns ∧ a + i * ns + ns ≤ b.base + b.size := by
  have h := GPool.run_invG cfg e ops g k hI hfit henv
  obtain ⟨b, hb, j, hj, hend, _⟩ := C02_ipool_on_grid_partial cfg e ns o g k ops hI hfit hint henv (a, n * ns) hab
  refine ⟨b, hb, ?_⟩
  intro i hi
  simp only at hj hend
  rw [cellsOf_mul ns n h.cell.nsPos hn] at hend
  have : (i + 1) * ns ≤ n * ns := Nat.mul_le_mul_right _ hi
  rw [Nat.add_mul] at this
  omega

/-! ### the small node pool -/

/-- every cell the small list cuts out of a block has the form `usable start + i·stride + chunk header + idx·node_size` -/
theorem smallBlockCells_form (ns : Nat) (b : Blk) (x : Nat) (hx : x ∈ smallBlockCells ns b) :
    ∃ i idx, x = b.usable.base + i * smallStride ns + chunkOff + idx * ns := by
  unfold smallBlockCells at hx
  obtain ⟨c, hc, hxc⟩ := List.mem_flatMap.mp hx
  unfold Chunk.allCells at hxc
  obtain ⟨idx, _, rfl⟩ := List.mem_map.mp hxc
  rw [smallInsertChunks_eq] at hc
  have hbase : ∃ i, c.base = b.usable.base + i * smallStride ns := by
    split at hc
    · rcases List.mem_append.mp hc with h | h
      · obtain ⟨i, _, rfl⟩ := List.mem_map.mp h; exact ⟨i, rfl⟩
      · simp only [List.mem_singleton] at h; subst h; exact ⟨_, rfl⟩
    · obtain ⟨i, _, rfl⟩ := List.mem_map.mp hc; exact ⟨i, rfl⟩
  obtain ⟨i, hi⟩ := hbase
  exact ⟨i, idx, by unfold Chunk.cellAt; rw [hi]⟩

/-- the chunk stride keeps the pool's alignment: `alignment_for(ns)` divides it -/
theorem alignmentFor_dvd_stride (ns : Nat) (h0 : 0 < ns) (hlt : ns < 2 ^ 32) :
    (alignmentFor (BitVec.ofNat 64 ns)).toNat ∣ smallStride ns := by
  obtain ⟨d1, d2⟩ := alignmentFor_dvd ns h0 (by omega)
  rw [smallStride_eq ns (by omega)]
  generalize (alignmentFor (BitVec.ofNat 64 ns)).toNat = A at d1 d2
  -- `A` divides 16 and `ns`
  have hA : A = 1 ∨ A = 2 ∨ A = 4 ∨ A = 8 ∨ A = 16 := by
    have hle : A ≤ 16 := Nat.le_of_dvd (by decide) d2
    have key : ∀ a, a ≤ 16 → a ∣ 16 → a = 1 ∨ a = 2 ∨ a = 4 ∨ a = 8 ∨ a = 16 := by decide
    exact key A hle d2
  rcases hA with rfl | rfl | rfl | rfl | rfl
  · exact Nat.one_dvd _
  · exact Nat.dvd_trans (by decide : 2 ∣ 8) (Nat.dvd_mul_left 8 _)
  · exact Nat.dvd_trans (by decide : 4 ∣ 8) (Nat.dvd_mul_left 8 _)
  · exact Nat.dvd_mul_left 8 _
  · -- `16 ∣ ns`: the unpadded chunk size is already a multiple of 16
    obtain ⟨q, rfl⟩ := d1
    refine ⟨2 + 255 * q, ?_⟩
    omega

/-- **Small node pool: every live node is aligned for the pool's alignment**, in every chunk of every block (the
chunk stride and the chunk header both keep `alignment_for(node_size)`), for all histories. -/
theorem C02_smallpool_aligned_partial (cfg : Cfg) (e : EnvS) (ns P : Nat) (g : GPool) (k : Nat)
    (ops : List POp) (hI : GInvG ns (.small P) g) (hfit : ∀ op ∈ ops, op.Fits ns) (hlt : ns < 2 ^ 32)
    (henv : EnvOkG (.small P) (g.run cfg e k ops).1.p.arena.used)
    (halign : ∀ b ∈ (g.run cfg e k ops).1.p.arena.used, 16 ∣ b.base) :
    ∀ ab ∈ (g.run cfg e k ops).1.live, (alignmentFor (BitVec.ofNat 64 ns)).toNat ∣ ab.1 := by
  intro ab hab
  have h := GPool.run_invG cfg e ops g k hI hfit henv
  have hnsP := h.cell.nsPos
  have hpos := cellsOf_pos ns ab.2 hnsP
  have hm : ab.1 ∈ (g.run cfg e k ops).1.p.list.cells ++ liveCells ns (g.run cfg e k ops).1.live :=
    List.mem_append_right _ (List.mem_flatMap.mpr ⟨ab, hab, run_head_mem _ _ _ hpos⟩)
  have hm' := h.conserve.subset hm
  -- the list is the small list with node size `ns`
  cases hl : (g.run cfg e k ops).1.p.list with
  | free fl => have := h.objEq; rw [hl] at this; simp [AnyList.obj] at this
  | ord ol => have := h.objEq; rw [hl] at this; simp [AnyList.obj] at this
  | small sl =>
    have hns : sl.ns = ns := by have := h.nsEq; rw [hl] at this; exact this
    rw [hl] at hm'
    unfold cellsOfBlocks at hm'
    obtain ⟨b, hb, hin⟩ := List.mem_flatMap.mp hm'
    simp only [AnyList.blockCells, hns] at hin
    obtain ⟨i, idx, hx⟩ := smallBlockCells_form ns b ab.1 hin
    obtain ⟨d1, d2⟩ := alignmentFor_dvd ns hnsP (by omega)
    have d3 := alignmentFor_dvd_stride ns hnsP hlt
    rw [hx]
    have hub : b.usable.base = b.base + 16 := by unfold Blk.usable; rw [implOff_eq]
    rw [hub, chunkOff_eq]
    have h16 : (alignmentFor (BitVec.ofNat 64 ns)).toNat ∣ b.base + 16 := Nat.dvd_add (Nat.dvd_trans d2 (halign b hb)) d2
    have h32 : (alignmentFor (BitVec.ofNat 64 ns)).toNat ∣ 32 := Nat.dvd_trans d2 (by decide)
    exact Nat.dvd_add (Nat.dvd_add (Nat.dvd_add h16 (Nat.dvd_mul_left_of_dvd d3 i)) h32) (Nat.dvd_mul_left_of_dvd d1 idx)

/-! ### non-vacuity -/

/-- an ordered pool with 24-byte nodes on two 16-aligned blocks: after growth, array and node allocations and an
out-of-order release every live address is 8-aligned (`alignment_for 24 = 8`) -/
example :
    let cfg : Cfg := { fence := 8, dblDealloc := true, assert := true }
    let e : EnvS := fun k => if k = 0 then some 4096 else if k = 1 then some 1024 else none
    let ops : List POp := [.allocNode, .allocArray 2, .allocNode, .dealloc 1, .allocArray 3, .allocNode]
    let c := Pool.create cfg (.growing 2 1 112) (.ord (OrdList.new 24 64 72)) true [e 0]
    let g := ((⟨c.st, []⟩ : GPool).run cfg e 1 ops).1
    EnvOkG (.ordered 64) g.p.arena.used ∧ (∀ b ∈ g.p.arena.used, 16 ∣ b.base) ∧ g.p.arena.used.length = 2 ∧
      (alignmentFor (BitVec.ofNat 64 24)).toNat = 8 ∧ g.live.length = 4 ∧ ∀ ab ∈ g.live, 8 ∣ ab.1 := by
  decide

end MemVerif.Props.C02Pool
