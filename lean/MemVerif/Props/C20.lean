import MemVerif.Model.ExcSafe
/-!
# C20 — object-creating helpers are exception safe at every constructor failure point

For every array length `n` and every failing index `k < n` (no bound; the property's `n ≤ 16` is a special case), every
element size/alignment, every member layout of a joint object: each element that was constructed is destroyed exactly
once, nothing else is destroyed, the memory is released once with the parameters it was obtained with, and the exception
reaches the caller. On success every element is constructed once and destroyed once by the deleter / `reset`.
-/
namespace MemVerif.Props.C20
open MemVerif.Model

/-! ### the source loops in closed form -/

theorem dtorLoop_eq : ∀ (n cur : Nat), dtorLoop cur n = (List.range' cur n).map Ev.dtor := by
  intro n
  induction n with
  | zero => intro cur; rfl
  | succ n ih => intro cur; simp [dtorLoop, ih, List.range'_succ]

theorem ctorLoop_none : ∀ (n cur : Nat) (fail : Option Nat), (∀ k, fail = some k → k < cur ∨ cur + n ≤ k) →
    ctorLoop fail cur n = ((List.range' cur n).map Ev.ctor, none) := by
  intro n
  induction n with
  | zero => intro cur fail _; rfl
  | succ n ih =>
    intro cur fail h
    have hne : fail ≠ some cur := by
      intro hf; rcases h cur hf with h | h <;> omega
    have := ih (cur + 1) fail (fun k hk => by rcases h k hk with h | h <;> omega)
    simp [ctorLoop, hne, this, List.range'_succ]

theorem ctorLoop_some : ∀ (n cur k : Nat), cur ≤ k → k < cur + n →
    ctorLoop (some k) cur n = ((List.range' cur (k - cur)).map Ev.ctor ++ [Ev.ctorThrow k], some k) := by
  intro n
  induction n with
  | zero => intro cur k h1 h2; omega
  | succ n ih =>
    intro cur k h1 h2
    by_cases hk : k = cur
    · subst hk; simp [ctorLoop]
    · have hne : (some k : Option Nat) ≠ some cur := by simpa using hk
      have := ih (cur + 1) k (by omega) (by omega)
      have e : k - cur = (k - (cur + 1)) + 1 := by omega
      simp [ctorLoop, hne, this, e, List.range'_succ]

/-- `detail::construct` when element `k` throws: elements `start..k-1` are constructed, then destroyed front to back -/
theorem construct_fail (start n k : Nat) (h1 : start ≤ k) (h2 : k < start + n) :
    construct start n (some k) =
      ((List.range' start (k - start)).map Ev.ctor ++ [Ev.ctorThrow k] ++ (List.range' start (k - start)).map Ev.dtor, true) := by
  simp [construct, ctorLoop_some n start k h1 h2, dtorLoop_eq]

theorem construct_ok (start n : Nat) (fail : Option Nat) (h : ∀ k, fail = some k → k < start ∨ start + n ≤ k) :
    construct start n fail = ((List.range' start n).map Ev.ctor, false) := by
  simp [construct, ctorLoop_none n start fail h]

/-! ### projections of the closed forms -/

@[simp] theorem ctorIds_append (a b : List Ev) : ctorIds (a ++ b) = ctorIds a ++ ctorIds b := by simp [ctorIds]
@[simp] theorem dtorIds_append (a b : List Ev) : dtorIds (a ++ b) = dtorIds a ++ dtorIds b := by simp [dtorIds]
@[simp] theorem allocs_append (a b : List Ev) : allocs (a ++ b) = allocs a ++ allocs b := by simp [allocs]
@[simp] theorem deallocs_append (a b : List Ev) : deallocs (a ++ b) = deallocs a ++ deallocs b := by simp [deallocs]
@[simp] theorem ctorIds_cons (e : Ev) (l : List Ev) : ctorIds (e :: l) = (e.ctorId.toList) ++ ctorIds l := by
  cases h : e.ctorId <;> simp [ctorIds, h]
@[simp] theorem dtorIds_cons (e : Ev) (l : List Ev) : dtorIds (e :: l) = (e.dtorId.toList) ++ dtorIds l := by
  cases h : e.dtorId <;> simp [dtorIds, h]
@[simp] theorem allocs_cons (e : Ev) (l : List Ev) : allocs (e :: l) = (e.allocOf.toList) ++ allocs l := by
  cases h : e.allocOf <;> simp [allocs, h]
@[simp] theorem deallocs_cons (e : Ev) (l : List Ev) : deallocs (e :: l) = (e.deallocOf.toList) ++ deallocs l := by
  cases h : e.deallocOf <;> simp [deallocs, h]
@[simp] theorem ctorIds_nil : ctorIds [] = [] := rfl
@[simp] theorem dtorIds_nil : dtorIds [] = [] := rfl
@[simp] theorem allocs_nil : allocs [] = [] := rfl
@[simp] theorem deallocs_nil : deallocs [] = [] := rfl

@[simp] theorem ctorIds_map_ctor (l : List Nat) : ctorIds (l.map Ev.ctor) = l := by
  induction l with
  | nil => rfl
  | cons x xs ih => simp [Ev.ctorId, ih]
@[simp] theorem dtorIds_map_ctor (l : List Nat) : dtorIds (l.map Ev.ctor) = [] := by
  induction l with
  | nil => rfl
  | cons x xs ih => simp [Ev.dtorId, ih]
@[simp] theorem ctorIds_map_dtor (l : List Nat) : ctorIds (l.map Ev.dtor) = [] := by
  induction l with
  | nil => rfl
  | cons x xs ih => simp [Ev.ctorId, ih]
@[simp] theorem dtorIds_map_dtor (l : List Nat) : dtorIds (l.map Ev.dtor) = l := by
  induction l with
  | nil => rfl
  | cons x xs ih => simp [Ev.dtorId, ih]
@[simp] theorem allocs_map_ctor (l : List Nat) : allocs (l.map Ev.ctor) = [] := by
  induction l with
  | nil => rfl
  | cons x xs ih => simp [Ev.allocOf, ih]
@[simp] theorem allocs_map_dtor (l : List Nat) : allocs (l.map Ev.dtor) = [] := by
  induction l with
  | nil => rfl
  | cons x xs ih => simp [Ev.allocOf, ih]
@[simp] theorem deallocs_map_ctor (l : List Nat) : deallocs (l.map Ev.ctor) = [] := by
  induction l with
  | nil => rfl
  | cons x xs ih => simp [Ev.deallocOf, ih]
@[simp] theorem deallocs_map_dtor (l : List Nat) : deallocs (l.map Ev.dtor) = [] := by
  induction l with
  | nil => rfl
  | cons x xs ih => simp [Ev.deallocOf, ih]

/-- The property, as a predicate on an event list: the elements constructed are exactly the elements destroyed
(same multiset), no element is constructed twice, there is exactly one allocation and it is released exactly once with
the same kind, count, size and alignment. -/
structure ExactlyOnce (evs : List Ev) : Prop where
  destroyed : (ctorIds evs).Perm (dtorIds evs)
  distinct : (ctorIds evs).Nodup
  released : allocs evs = deallocs evs
  single : (allocs evs).length = 1

/-! ### `allocate_unique<T>` -/

/-- constructor failure: nothing was constructed, nothing is destroyed, the node is released with `sizeof/alignof`, the
exception propagates -/
theorem C20_unique_rollback (size align : Nat) :
    ExactlyOnce (allocateUnique size align true) ∧ (∃ pre, allocateUnique size align true = pre ++ [Ev.propagate]) ∧
      dtorIds (allocateUnique size align true) = [] := by
  refine ⟨⟨?_, ?_, ?_, ?_⟩, ⟨[.alloc false 1 size align, .ctorThrow 0, .dealloc false 1 size align], ?_⟩, ?_⟩ <;>
    simp [allocateUnique, Ev.ctorId, Ev.dtorId, Ev.allocOf, Ev.deallocOf]

theorem C20_unique_success (size align : Nat) :
    ExactlyOnce (allocateUnique size align false ++ deleteUnique size align) ∧
      ctorIds (allocateUnique size align false) = [0] ∧ dtorIds (allocateUnique size align false) = [] := by
  refine ⟨⟨?_, ?_, ?_, ?_⟩, ?_, ?_⟩ <;> simp [allocateUnique, deleteUnique, Ev.ctorId, Ev.dtorId, Ev.allocOf, Ev.deallocOf]

/-! ### `allocate_unique<T[]>` -/

/-- closed form of a failing `allocate_unique<T[]>(alloc, n)`, failure at element `k < n` -/
theorem allocateUniqueArray_fail (n size align k : Nat) (hk : k < n) :
    allocateUniqueArray n size align (some k) =
      Ev.alloc true n size align :: ((List.range' 0 k).map Ev.ctor ++ [Ev.ctorThrow k] ++ (List.range' 0 k).map Ev.dtor ++
        [Ev.dealloc true n size align, Ev.propagate]) := by
  simp [allocateUniqueArray, construct_fail 0 n k (Nat.zero_le _) (by omega)]

/-- **Rollback is exact** (every `n`, every `k < n`): exactly the elements `0..k-1` are constructed and exactly those are
destroyed, each once, front to back; the array is released once as an array of `n` with the element size and alignment
it was allocated with; the exception propagates; no element `≥ k` is touched. -/
theorem C20_unique_array_rollback (n size align k : Nat) (hk : k < n) :
    let evs := allocateUniqueArray n size align (some k)
    ExactlyOnce evs ∧ ctorIds evs = List.range' 0 k ∧ dtorIds evs = List.range' 0 k ∧
      deallocs evs = [(true, n, size, align)] ∧ ∃ pre, evs = pre ++ [Ev.propagate] := by
  intro evs
  have h : evs = _ := allocateUniqueArray_fail n size align k hk
  have hc : ctorIds evs = List.range' 0 k := by rw [h]; simp [Ev.ctorId]
  have hd : dtorIds evs = List.range' 0 k := by rw [h]; simp [Ev.dtorId]
  have ha : allocs evs = [(true, n, size, align)] := by rw [h]; simp [Ev.allocOf]
  have hf : deallocs evs = [(true, n, size, align)] := by rw [h]; simp [Ev.deallocOf]
  refine ⟨⟨by rw [hc, hd], by rw [hc]; exact List.nodup_range', by rw [ha, hf], by rw [ha]; rfl⟩, hc, hd, hf, ?_⟩
  refine ⟨Ev.alloc true n size align :: ((List.range' 0 k).map Ev.ctor ++ [Ev.ctorThrow k] ++ (List.range' 0 k).map Ev.dtor ++
    [Ev.dealloc true n size align]), ?_⟩
  rw [h]; simp

/-- **Success**: each of the `n` elements is constructed once; the deleter destroys each once and releases the array
with matching parameters -/
theorem C20_unique_array_success (n size align : Nat) :
    let mk := allocateUniqueArray n size align none
    ExactlyOnce (mk ++ deleteUniqueArray n size align) ∧ ctorIds mk = List.range' 0 n ∧ dtorIds mk = [] ∧ deallocs mk = [] := by
  intro mk
  have h : mk = Ev.alloc true n size align :: (List.range' 0 n).map Ev.ctor := by
    simp [mk, allocateUniqueArray, construct_ok 0 n none (by intro k hk; cases hk)]
  have hd : deleteUniqueArray n size align = (List.range' 0 n).map Ev.dtor ++ [Ev.dealloc true n size align] := by
    simp [deleteUniqueArray, dtorLoop_eq]
  refine ⟨⟨?_, ?_, ?_, ?_⟩, ?_, ?_, ?_⟩
  · rw [h, hd]; simp [Ev.ctorId, Ev.dtorId]
  · rw [h, hd]; simp [Ev.ctorId]; exact List.nodup_range'
  · rw [h, hd]; simp [Ev.allocOf, Ev.deallocOf]
  · rw [h, hd]; simp [Ev.allocOf]
  · rw [h]; simp [Ev.ctorId]
  · rw [h]; simp [Ev.dtorId]
  · rw [h]; simp [Ev.deallocOf]

/-! ### joint objects -/

/-- ids of the elements of the members constructed so far -/
def idsOf (done : List (Nat × Nat)) : List Nat := done.flatMap fun p => List.range' p.1 p.2

theorem dtorIds_destroyMembers (done : List (Nat × Nat)) : dtorIds (destroyMembers done) = idsOf done := by
  induction done with
  | nil => rfl
  | cons p rest ih =>
    obtain ⟨s, n⟩ := p
    simp [destroyMembers, jointArrayDtor, dtorLoop_eq, idsOf, List.flatMap_cons] at *
    rw [ih]

theorem ctorIds_destroyMembers (done : List (Nat × Nat)) : ctorIds (destroyMembers done) = [] := by
  induction done with
  | nil => rfl
  | cons p rest ih =>
    obtain ⟨s, n⟩ := p
    simp [destroyMembers, jointArrayDtor, dtorLoop_eq, ih]

theorem allocs_destroyMembers (done : List (Nat × Nat)) : allocs (destroyMembers done) = [] ∧ deallocs (destroyMembers done) = [] := by
  induction done with
  | nil => exact ⟨rfl, rfl⟩
  | cons p rest ih =>
    obtain ⟨s, n⟩ := p
    simp [destroyMembers, jointArrayDtor, dtorLoop_eq, ih.1, ih.2]

theorem constructMembers_cons_fail (fail : Option Nat) (n : Nat) (ms : List Nat) (start : Nat) (done : List (Nat × Nat))
    (e : List Ev) (h : construct start n fail = (e, true)) :
    constructMembers fail (n :: ms) start done = (e ++ destroyMembers done, true, done) := by
  simp [constructMembers, jointArrayCtor, h]

theorem constructMembers_cons_ok (fail : Option Nat) (n : Nat) (ms : List Nat) (start : Nat) (done : List (Nat × Nat))
    (e : List Ev) (h : construct start n fail = (e, false)) :
    constructMembers fail (n :: ms) start done =
      (e ++ (constructMembers fail ms (start + n) ((start, n) :: done)).1,
       (constructMembers fail ms (start + n) ((start, n) :: done)).2.1,
       (constructMembers fail ms (start + n) ((start, n) :: done)).2.2) := by
  simp [constructMembers, jointArrayCtor, h]

/-- what `constructMembers` guarantees about its result `r` -/
structure MembersSpec (fail : Option Nat) (ms : List Nat) (start : Nat) (done : List (Nat × Nat))
    (r : List Ev × Bool × List (Nat × Nat)) : Prop where
  noAlloc : allocs r.1 = [] ∧ deallocs r.1 = []
  idsGe : ∀ i ∈ ctorIds r.1, start ≤ i
  idsAsc : (ctorIds r.1).Pairwise (· < ·)
  threw : r.2.1 = true → (ctorIds r.1 ++ idsOf done).Perm (dtorIds r.1)
  ok : r.2.1 = false → dtorIds r.1 = [] ∧ (idsOf r.2.2).Perm (ctorIds r.1 ++ idsOf done)
  threwIff : r.2.1 = true ↔ ∃ k, fail = some k ∧ k < start + ms.sum

/-- the member-initialiser list: when a member's element `k` throws, everything constructed so far — in this member and
in all earlier members — is destroyed; when nothing throws, nothing is destroyed and `done` lists all members -/
theorem constructMembers_spec (fail : Option Nat) : ∀ (ms : List Nat) (start : Nat) (done : List (Nat × Nat)),
    (∀ k, fail = some k → start ≤ k) → MembersSpec fail ms start done (constructMembers fail ms start done) := by
  intro ms
  induction ms with
  | nil =>
    intro start done hf
    refine ⟨⟨rfl, rfl⟩, by simp [constructMembers], by simp [constructMembers], by simp [constructMembers],
      by simp [constructMembers], ?_⟩
    simp only [constructMembers, Bool.false_eq_true, List.sum_nil, Nat.add_zero, false_iff, not_exists, not_and]
    intro k hk; have := hf k hk; omega
  | cons n ms ih =>
    intro start done hf
    by_cases hfail : ∃ k, fail = some k ∧ k < start + n
    · obtain ⟨k, hk, hlt⟩ := hfail
      subst hk
      have hs := hf k rfl
      rw [constructMembers_cons_fail _ _ _ _ _ _ (construct_fail start n k hs hlt)]
      have ha := allocs_destroyMembers done
      refine ⟨by simp [Ev.allocOf, Ev.deallocOf, ha.1, ha.2], ?_, ?_, ?_, ?_, ?_⟩
      · intro i hi
        simp [Ev.ctorId, ctorIds_destroyMembers] at hi
        exact hi.1
      · simp [Ev.ctorId, ctorIds_destroyMembers]
        exact List.pairwise_lt_range'
      · intro _
        simp [Ev.ctorId, Ev.dtorId, ctorIds_destroyMembers, dtorIds_destroyMembers]
      · intro h; exact absurd h (by simp)
      · simp only [true_iff]
        exact ⟨k, rfl, by simp [List.sum_cons]; omega⟩
    · have hok : ∀ k, fail = some k → k < start ∨ start + n ≤ k := by
        intro k hk
        rcases Nat.lt_or_ge k (start + n) with h | h
        · exact absurd ⟨k, hk, h⟩ hfail
        · exact Or.inr h
      rw [constructMembers_cons_ok _ _ _ _ _ _ (construct_ok start n fail hok)]
      have hf' : ∀ k, fail = some k → start + n ≤ k := by
        intro k hk; rcases hok k hk with h | h
        · have := hf k hk; omega
        · exact h
      obtain ⟨⟨q1, q2⟩, q3, q4, q5, q6, q7⟩ := ih (start + n) ((start, n) :: done) hf'
      refine ⟨by simp [q1, q2], ?_, ?_, ?_, ?_, ?_⟩
      · intro i hi
        simp at hi
        rcases hi with hi | hi
        · exact hi.1
        · have := q3 i hi; omega
      · simp
        rw [List.pairwise_append]
        refine ⟨List.pairwise_lt_range', q4, ?_⟩
        intro a ha b hb
        have := (List.mem_range'_1.1 ha).2
        have := q3 b hb
        omega
      · intro hthrew
        have := q5 hthrew
        simp only [idsOf, List.flatMap_cons] at this
        simp only [ctorIds_append, ctorIds_map_ctor, dtorIds_append, dtorIds_map_ctor, List.nil_append, idsOf]
        refine List.Perm.trans ?_ this
        -- range ++ c ++ d  ~  c ++ (range ++ d)
        rw [List.append_assoc]
        exact List.perm_append_comm_assoc _ _ _
      · intro hno
        obtain ⟨d0, dp⟩ := q6 hno
        refine ⟨by simp [d0], ?_⟩
        simp only [idsOf, List.flatMap_cons] at dp
        simp only [ctorIds_append, ctorIds_map_ctor, idsOf]
        refine dp.trans ?_
        rw [List.append_assoc]
        exact List.perm_append_comm_assoc _ _ _
      · rw [q7]
        constructor
        · rintro ⟨k, hk, hlt⟩; exact ⟨k, hk, by simp [List.sum_cons]; omega⟩
        · rintro ⟨k, hk, hlt⟩; exact ⟨k, hk, by simp [List.sum_cons] at hlt; omega⟩

/-- **`joint_ptr` creation is exception safe** for every member layout (any number of `joint_array`s of any lengths) and
every failing element: all elements constructed so far — of the failing array and of every earlier member — are destroyed
exactly once, the block is released once with `sizeof(T) + additional_size` and `alignof(T)`, the exception propagates. -/
theorem C20_joint_create_rollback (objSize extra align : Nat) (members : List Nat) (k : Nat) (hk : k < members.sum) :
    let evs := jointCreate objSize extra align members 0 (some k)
    ExactlyOnce evs ∧ deallocs evs = [(false, 1, objSize + extra, align)] ∧ ∃ pre, evs = pre ++ [Ev.propagate] := by
  intro evs
  obtain ⟨⟨q1, q2⟩, _, q4, q5, _, q7⟩ := constructMembers_spec (some k) members 0 [] (by intro k _; omega)
  have hthrew : (constructMembers (some k) members 0 []).2.1 = true := q7.2 ⟨k, rfl, by omega⟩
  have hev : evs = Ev.alloc false 1 (objSize + extra) align ::
      ((constructMembers (some k) members 0 []).1 ++ [Ev.dealloc false 1 (objSize + extra) align, Ev.propagate]) := by
    simp [evs, jointCreate, hthrew]
  have hperm := q5 hthrew
  refine ⟨⟨?_, ?_, ?_, ?_⟩, ?_, ?_⟩
  · rw [hev]; simpa [Ev.ctorId, Ev.dtorId, idsOf] using hperm
  · rw [hev]; simp [Ev.ctorId]
    exact List.Pairwise.imp (fun h => Nat.ne_of_lt h) q4
  · rw [hev]; simp [Ev.allocOf, Ev.deallocOf, q1, q2]
  · rw [hev]; simp [Ev.allocOf, q1]
  · rw [hev]; simp [Ev.deallocOf, q2]
  · refine ⟨Ev.alloc false 1 (objSize + extra) align ::
      ((constructMembers (some k) members 0 []).1 ++ [Ev.dealloc false 1 (objSize + extra) align]), ?_⟩
    rw [hev]; simp

/-- **Success and `reset`**: every element of every member is constructed once; `reset()` destroys each once and
releases the block in one call with exactly the size and alignment it was allocated with -/
theorem C20_joint_create_reset (objSize extra align : Nat) (members : List Nat) :
    let mk := jointCreate objSize extra align members 0 none
    ExactlyOnce (mk ++ jointReset objSize extra align members 0) ∧ dtorIds mk = [] ∧ deallocs mk = [] := by
  intro mk
  obtain ⟨⟨q1, q2⟩, _, q4, _, q6, q7⟩ := constructMembers_spec none members 0 [] (by intro k hk; cases hk)
  have hno : (constructMembers none members 0 []).2.1 = false := by
    cases h : (constructMembers none members 0 []).2.1
    · rfl
    · obtain ⟨k, hk, _⟩ := q7.1 h; cases hk
  obtain ⟨d0, dp⟩ := q6 hno
  have hmk : mk = Ev.alloc false 1 (objSize + extra) align :: (constructMembers none members 0 []).1 := by
    simp [mk, jointCreate, hno]
  have ha := allocs_destroyMembers (constructMembers none members 0 []).2.2
  refine ⟨⟨?_, ?_, ?_, ?_⟩, ?_, ?_⟩
  · rw [hmk]
    simp [jointReset, Ev.ctorId, Ev.dtorId, d0, ctorIds_destroyMembers, dtorIds_destroyMembers]
    simpa [idsOf] using dp.symm
  · rw [hmk]; simp [jointReset, Ev.ctorId, ctorIds_destroyMembers]
    exact List.Pairwise.imp (fun h => Nat.ne_of_lt h) q4
  · rw [hmk]; simp [jointReset, Ev.allocOf, Ev.deallocOf, q1, q2, ha.1, ha.2]
  · rw [hmk]; simp [jointReset, Ev.allocOf, q1, ha.1]
  · rw [hmk]; simp [Ev.dtorId, d0]
  · rw [hmk]; simp [Ev.deallocOf, q2]

/-! ### instances (non-vacuity) and the executable well-formedness check the harness also runs -/

example : evsStr (allocateUniqueArray 4 24 8 (some 2)) = "A:arr:4:24:8 C0 C1 X2 D0 D1 F:arr:4:24:8 T" := by decide
example : evsStr (jointCreate 40 64 8 [2, 3] 0 (some 3)) = "A:node:104:8 C0 C1 C2 X3 D2 D0 D1 F:node:104:8 T" := by decide
example : wellFormed (jointCreate 40 64 8 [2, 3] 0 (some 3)) = true := by decide
example : wellFormed (jointCreate 40 64 8 [2, 0, 3] 0 none ++ jointReset 40 64 8 [2, 0, 3] 0) = true := by decide
example : wellFormed (allocateUniqueArray 16 8 8 (some 15)) = true := by decide
example : wellFormed (allocateUniqueArray 0 8 8 none ++ deleteUniqueArray 0 8 8) = true := by decide
/-- the checker rejects a log in which the failing element itself is destroyed (what a wrong rollback bound would do) -/
example : wellFormed [.alloc true 2 8 8, .ctor 0, .ctorThrow 1, .dtor 0, .dtor 1, .dealloc true 2 8 8, .propagate] = false := by decide

end MemVerif.Props.C20
