import MemVerif.Model.Temp
import MemVerif.Props.C06
/-!
# C14 — temporary allocations end with their scope; each live thread has its own stack

* Scope: a `temporary_allocator` stores the stack marker at its construction and unwinds to it in its destructor; that the
  unwind restores exactly the state at the marker, for any nesting and any allocations in between, is C06
  (`C06_unwind_restores`, same `memory_stack` template; re-exported below).
* Threads: for **every** number of threads, every script of `get_temporary_stack` / initializer construction / initializer
  destruction and **every schedule** of the transition system of `Model/Temp.lean` (one transition per stretch of code
  between two scheduling points of the real code, sequential consistency): no two live threads ever hold the same stack,
  every stack marked in use has a live holder whose exit detector is armed (so stacks of finished threads are free for
  reuse), and the stack objects are destroyed at program exit. Each of the three repairs (D10, D11, D12) is necessary:
  without it a concrete schedule violates the statement.
-/
namespace MemVerif.Props.C14
open MemVerif.Model

/-- the repaired code -/
def good : Fixes := {}

/-- per-thread consistency between the program counter and the thread-local pointer -/
def ThOk (th : TThread) : Prop :=
  match th.pc with
  | .atStore _ i => th.tls = some i
  | .atStoreExit i => th.tls = some i
  | .atLoad _ => th.tls = none
  | .atPush _ => th.tls = none
  | .atCas _ _ => th.tls = none
  | _ => True

/-- the effect of one thread step (repaired code), given the thread's own consistency and `tls ≠ none → armed` -/
inductive Effect (iu : List Bool) (th : TThread) (iu' : List Bool) (th' : TThread) : Prop
  | local_ : iu' = iu → th'.tls = th.tls → th'.armed = th.armed → (th'.live = true ∨ th.tls = none) → Effect iu th iu' th'
  | acquire (i : Nat) : iu.getD i true = false → iu' = iu.set i true → th.tls = none → th'.tls = some i → th'.armed = true →
      th'.live = true → Effect iu th iu' th'
  | push : iu' = iu ++ [true] → th.tls = none → th'.tls = some iu.length → th'.armed = true → th'.live = true →
      Effect iu th iu' th'
  | release (i : Nat) : th.tls = some i → iu' = iu.set i false → (th'.tls = none ∨ th'.live = false) → Effect iu th iu' th'

theorem stepThread_effect (iu : List Bool) (th : TThread) (hok : ThOk th) (harm : th.tls.isSome = true → th.armed = true)
    (hlive : th.live = true) :
    Effect iu th (stepThread good iu th).1 (stepThread good iu th).2 ∧ ThOk (stepThread good iu th).2 := by
  unfold stepThread
  cases hpc : th.pc with
  | done => simp [TThread.live, hpc] at hlive
  | idle k =>
    simp only
    cases hs : th.script[k]? with
    | none =>
      simp only
      cases ht : th.tls with
      | none => exact ⟨.local_ rfl (by simp_all) (by simp_all) (Or.inr ht), by simp [ThOk]⟩
      | some i =>
        have ha : th.armed = true := harm (by simp [ht])
        simp only [ha, ↓reduceIte]
        exact ⟨.local_ rfl (by simp_all) (by simp_all) (Or.inl (by simp [TThread.live])), by simp [ThOk, ht]⟩
    | some a =>
      cases a with
      | get =>
        simp only
        cases ht : th.tls with
        | none => simp only [Option.isSome_none, Bool.false_eq_true, ↓reduceIte]
                  exact ⟨.local_ rfl (by simp_all) (by simp_all) (Or.inl (by simp [TThread.live])), by simp [ThOk, ht]⟩
        | some i => simp only [Option.isSome_some, ↓reduceIte]
                    exact ⟨.local_ rfl (by simp_all) (by simp_all) (Or.inl (by simp [TThread.live])), by simp [ThOk]⟩
      | initCtor =>
        simp only
        cases ht : th.tls with
        | none => simp only [Option.isSome_none, Bool.false_eq_true, ↓reduceIte]
                  exact ⟨.local_ rfl (by simp_all) (by simp_all) (Or.inl (by simp [TThread.live])), by simp [ThOk, ht]⟩
        | some i => simp only [Option.isSome_some, ↓reduceIte]
                    exact ⟨.local_ rfl (by simp_all) (by simp_all) (Or.inl (by simp [TThread.live])), by simp [ThOk]⟩
      | initDtor =>
        simp only
        cases ht : th.tls with
        | none => exact ⟨.local_ rfl (by simp_all) (by simp_all) (Or.inl (by simp [TThread.live])), by simp [ThOk]⟩
        | some i => exact ⟨.local_ rfl (by simp_all) (by simp_all) (Or.inl (by simp [TThread.live])), by simp [ThOk, ht]⟩
  | atLoad k =>
    have ht : th.tls = none := by simpa [ThOk, hpc] using hok
    simp only
    split
    · exact ⟨.local_ rfl (by simp_all) (by simp_all) (Or.inl (by simp [TThread.live])), by simp [ThOk, ht]⟩
    · exact ⟨.local_ rfl (by simp_all) (by simp_all) (Or.inl (by simp [TThread.live])), by simp [ThOk, ht]⟩
  | atCas k rest =>
    have ht : th.tls = none := by simpa [ThOk, hpc] using hok
    cases rest with
    | nil => exact ⟨.local_ rfl (by simp_all) (by simp_all) (Or.inl (by simp [TThread.live])), by simp [ThOk, ht]⟩
    | cons i rest =>
      simp only
      by_cases hfree : iu.getD i true = false
      · simp only [hfree, ↓reduceIte]
        exact ⟨.acquire i hfree rfl ht rfl (by simp [good]) (by simp [TThread.live]), by simp [ThOk]⟩
      · simp only [hfree, ↓reduceIte]
        cases rest with
        | nil => exact ⟨.local_ rfl (by simp_all) (by simp_all) (Or.inl (by simp [TThread.live])), by simp [ThOk, ht]⟩
        | cons j r => exact ⟨.local_ rfl (by simp_all) (by simp_all) (Or.inl (by simp [TThread.live])), by simp [ThOk, ht]⟩
  | atPush k =>
    have ht : th.tls = none := by simpa [ThOk, hpc] using hok
    exact ⟨.push rfl ht rfl rfl (by simp [TThread.live]), by simp [ThOk]⟩
  | atStore k i =>
    have ht : th.tls = some i := by simpa [ThOk, hpc] using hok
    exact ⟨.release i ht rfl (Or.inl (by simp [good])), by simp [ThOk]⟩
  | atStoreExit i =>
    have ht : th.tls = some i := by simpa [ThOk, hpc] using hok
    exact ⟨.release i ht rfl (Or.inr (by simp [TThread.live])), by simp [ThOk]⟩

/-- the invariant of the whole system -/
structure Inv (s : TSys) : Prop where
  ok : ∀ (t : Nat) (th : TThread), s.threads[t]? = some th → ThOk th
  holder : ∀ (t : Nat) (th : TThread) (i : Nat), s.threads[t]? = some th → th.live = true → th.tls = some i →
    i < s.inUse.length ∧ s.inUse.getD i false = true ∧ th.armed = true
  distinct : ∀ (t u : Nat) (th tu : TThread) (i : Nat), t ≠ u → s.threads[t]? = some th → s.threads[u]? = some tu →
    th.live = true → tu.live = true → th.tls = some i → tu.tls ≠ some i
  owned : ∀ (i : Nat), i < s.inUse.length → s.inUse.getD i false = true →
    ∃ (t : Nat) (th : TThread), s.threads[t]? = some th ∧ th.live = true ∧ th.tls = some i

theorem getD_set (l : List Bool) (i j : Nat) (v d : Bool) :
    (l.set i v).getD j d = if j = i ∧ i < l.length then v else l.getD j d := by
  simp only [List.getD_eq_getElem?_getD, List.getElem?_set]
  by_cases h : i = j
  · subst h
    by_cases hl : i < l.length
    · simp [hl]
    · simp [hl, List.getElem?_eq_none (Nat.le_of_not_lt hl)]
  · have : ¬ (j = i ∧ i < l.length) := fun hh => h hh.1.symm
    simp [h, this]

theorem getD_append_lt (l : List Bool) (j : Nat) (d : Bool) (h : j < l.length) : (l ++ [true]).getD j d = l.getD j d := by
  simp [List.getD_eq_getElem?_getD, List.getElem?_append_left h]

theorem getD_true_lt (l : List Bool) (i : Nat) (h : l.getD i true = false) : i < l.length := by
  rcases Nat.lt_or_ge i l.length with h' | h'
  · exact h'
  · simp [List.getD_eq_getElem?_getD, List.getElem?_eq_none h'] at h

theorem set_lookup {l : List TThread} {t u : Nat} {x th : TThread} (h : l[t]? = some th) :
    (l.set t x)[u]? = if u = t then some x else l[u]? := by
  have hl : t < l.length := by
    rcases Nat.lt_or_ge t l.length with h' | h'
    · exact h'
    · rw [List.getElem?_eq_none h'] at h; cases h
  by_cases hu : u = t
  · subst hu; simp [List.getElem?_set, hl]
  · have : t ≠ u := fun hh => hu hh.symm
    simp [List.getElem?_set, hu, this]

theorem step_inv (s : TSys) (t : Nat) (hI : Inv s) : Inv (s.step good t) := by
  unfold TSys.step
  cases hth : s.threads[t]? with
  | none => simpa using hI
  | some th =>
    simp only
    by_cases hlive : th.live = true
    · skip
      have harm : th.tls.isSome = true → th.armed = true := by
        intro h
        obtain ⟨i, hi⟩ := Option.isSome_iff_exists.1 h
        exact (hI.holder t th i hth hlive hi).2.2
      obtain ⟨heff, hok'⟩ := stepThread_effect s.inUse th (hI.ok t th hth) harm hlive
      generalize stepThread good s.inUse th = r at heff hok'
      obtain ⟨iu', th'⟩ := r
      simp only at heff hok' ⊢
      -- lookups in the updated thread list
      have look : ∀ u, (s.threads.set t th')[u]? = if u = t then some th' else s.threads[u]? := fun u => set_lookup hth
      cases heff with
      | local_ hiu htls harmed hl =>
        subst hiu
        refine ⟨?_, ?_, ?_, ?_⟩
        · intro u thu hu
          rw [look] at hu
          by_cases hut : u = t
          · simp only [hut, ↓reduceIte, Option.some.injEq] at hu; subst hu; exact hok'
          · simp only [hut, ↓reduceIte] at hu; exact hI.ok u thu hu
        · intro u thu i hu hlu htu
          rw [look] at hu
          by_cases hut : u = t
          · simp only [hut, ↓reduceIte, Option.some.injEq] at hu; subst hu
            rw [htls] at htu
            have := hI.holder t th i hth hlive htu
            exact ⟨this.1, this.2.1, by rw [harmed]; exact this.2.2⟩
          · simp only [hut, ↓reduceIte] at hu; exact hI.holder u thu i hu hlu htu
        · intro u v thu thv i huv hu hv hlu hlv htu
          rw [look] at hu hv
          by_cases hut : u = t
          · simp only [hut, ↓reduceIte, Option.some.injEq] at hu; subst hu
            have hvt : v ≠ t := fun h => huv (by rw [hut, h])
            simp only [hvt, ↓reduceIte] at hv
            rw [htls] at htu
            exact hI.distinct t v th thv i (fun h => hvt h.symm) hth hv hlive hlv htu
          · simp only [hut, ↓reduceIte] at hu
            by_cases hvt : v = t
            · simp only [hvt, ↓reduceIte, Option.some.injEq] at hv; subst hv
              rw [htls]
              exact hI.distinct u t thu th i hut hu hth hlu hlive htu
            · simp only [hvt, ↓reduceIte] at hv
              exact hI.distinct u v thu thv i huv hu hv hlu hlv htu
        · intro i hi hiu
          obtain ⟨u, thu, hu, hlu, htu⟩ := hI.owned i hi hiu
          by_cases hut : u = t
          · subst hut
            rw [hth] at hu; cases hu
            rcases hl with hl | hl
            · exact ⟨u, th', by rw [look]; simp, hl, by rw [htls]; exact htu⟩
            · rw [hl] at htu; cases htu
          · exact ⟨u, thu, by rw [look]; simp [hut]; exact hu, hlu, htu⟩
      | acquire i hfree hiu htn hts harmed hl =>
        subst hiu
        have hilt := getD_true_lt s.inUse i hfree
        have hfree' : s.inUse.getD i false = false := by
          simp only [List.getD_eq_getElem?_getD, List.getElem?_eq_getElem hilt, Option.getD_some] at hfree ⊢
          exact hfree
        refine ⟨?_, ?_, ?_, ?_⟩
        · intro u thu hu
          rw [look] at hu
          by_cases hut : u = t
          · simp only [hut, ↓reduceIte, Option.some.injEq] at hu; subst hu; exact hok'
          · simp only [hut, ↓reduceIte] at hu; exact hI.ok u thu hu
        · intro u thu j hu hlu htu
          rw [look] at hu
          by_cases hut : u = t
          · simp only [hut, ↓reduceIte, Option.some.injEq] at hu; subst hu
            rw [hts] at htu; cases htu
            exact ⟨by simpa using hilt, by rw [getD_set]; simp [hilt], harmed⟩
          · simp only [hut, ↓reduceIte] at hu
            have := hI.holder u thu j hu hlu htu
            refine ⟨by simpa using this.1, ?_, this.2.2⟩
            rw [getD_set]; split
            · rfl
            · exact this.2.1
        · intro u v thu thv j huv hu hv hlu hlv htu
          rw [look] at hu hv
          -- nobody held `i` before (it was free), so the new holder is alone
          have nobody : ∀ w thw, w ≠ t → s.threads[w]? = some thw → thw.live = true → thw.tls ≠ some i := by
            intro w thw _ hw hlw htw
            have := (hI.holder w thw i hw hlw htw).2.1
            rw [hfree'] at this; cases this
          by_cases hut : u = t
          · simp only [hut, ↓reduceIte, Option.some.injEq] at hu; subst hu
            have hvt : v ≠ t := fun h => huv (by rw [hut, h])
            simp only [hvt, ↓reduceIte] at hv
            rw [hts] at htu; cases htu
            exact nobody v thv hvt hv hlv
          · simp only [hut, ↓reduceIte] at hu
            by_cases hvt : v = t
            · simp only [hvt, ↓reduceIte, Option.some.injEq] at hv; subst hv
              rw [hts]
              intro h; cases h
              exact nobody u thu hut hu hlu htu
            · simp only [hvt, ↓reduceIte] at hv
              exact hI.distinct u v thu thv j huv hu hv hlu hlv htu
        · intro j hj hju
          by_cases hji : j = i
          · subst hji
            exact ⟨t, th', by rw [look]; simp, hl, hts⟩
          · have hj' : j < s.inUse.length := by simpa using hj
            have hju' : s.inUse.getD j false = true := by
              rw [getD_set] at hju; simpa [hji] using hju
            obtain ⟨u, thu, hu, hlu, htu⟩ := hI.owned j hj' hju'
            have hut : u ≠ t := by
              intro h; subst h; rw [hth] at hu; cases hu; rw [htn] at htu; cases htu
            exact ⟨u, thu, by rw [look]; simp [hut]; exact hu, hlu, htu⟩
      | push hiu htn hts harmed hl =>
        subst hiu
        refine ⟨?_, ?_, ?_, ?_⟩
        · intro u thu hu
          rw [look] at hu
          by_cases hut : u = t
          · simp only [hut, ↓reduceIte, Option.some.injEq] at hu; subst hu; exact hok'
          · simp only [hut, ↓reduceIte] at hu; exact hI.ok u thu hu
        · intro u thu j hu hlu htu
          rw [look] at hu
          by_cases hut : u = t
          · simp only [hut, ↓reduceIte, Option.some.injEq] at hu; subst hu
            rw [hts] at htu; cases htu
            exact ⟨by simp, by simp [List.getD_eq_getElem?_getD], harmed⟩
          · simp only [hut, ↓reduceIte] at hu
            have := hI.holder u thu j hu hlu htu
            exact ⟨by simp; omega, by rw [getD_append_lt _ _ _ this.1]; exact this.2.1, this.2.2⟩
        · intro u v thu thv j huv hu hv hlu hlv htu
          rw [look] at hu hv
          have nobody : ∀ w thw, w ≠ t → s.threads[w]? = some thw → thw.live = true → thw.tls ≠ some s.inUse.length := by
            intro w thw _ hw hlw htw
            have := (hI.holder w thw _ hw hlw htw).1
            omega
          by_cases hut : u = t
          · simp only [hut, ↓reduceIte, Option.some.injEq] at hu; subst hu
            have hvt : v ≠ t := fun h => huv (by rw [hut, h])
            simp only [hvt, ↓reduceIte] at hv
            rw [hts] at htu; cases htu
            exact nobody v thv hvt hv hlv
          · simp only [hut, ↓reduceIte] at hu
            by_cases hvt : v = t
            · simp only [hvt, ↓reduceIte, Option.some.injEq] at hv; subst hv
              rw [hts]
              intro h; cases h
              exact nobody u thu hut hu hlu htu
            · simp only [hvt, ↓reduceIte] at hv
              exact hI.distinct u v thu thv j huv hu hv hlu hlv htu
        · intro j hj hju
          by_cases hjn : j = s.inUse.length
          · subst hjn
            exact ⟨t, th', by rw [look]; simp, hl, hts⟩
          · have hj' : j < s.inUse.length := by simp at hj; omega
            rw [getD_append_lt _ _ _ hj'] at hju
            obtain ⟨u, thu, hu, hlu, htu⟩ := hI.owned j hj' hju
            have hut : u ≠ t := by
              intro h; subst h; rw [hth] at hu; cases hu; rw [htn] at htu; cases htu
            exact ⟨u, thu, by rw [look]; simp [hut]; exact hu, hlu, htu⟩
      | release i hts hiu hgone =>
        subst hiu
        have hhold := hI.holder t th i hth hlive hts
        refine ⟨?_, ?_, ?_, ?_⟩
        · intro u thu hu
          rw [look] at hu
          by_cases hut : u = t
          · simp only [hut, ↓reduceIte, Option.some.injEq] at hu; subst hu; exact hok'
          · simp only [hut, ↓reduceIte] at hu; exact hI.ok u thu hu
        · intro u thu j hu hlu htu
          rw [look] at hu
          by_cases hut : u = t
          · simp only [hut, ↓reduceIte, Option.some.injEq] at hu; subst hu
            rcases hgone with hg | hg
            · rw [hg] at htu; cases htu
            · rw [hg] at hlu; cases hlu
          · simp only [hut, ↓reduceIte] at hu
            have := hI.holder u thu j hu hlu htu
            have hji : j ≠ i := by
              intro h; subst h
              exact hI.distinct u t thu th j hut hu hth hlu hlive htu hts
            refine ⟨by simpa using this.1, ?_, this.2.2⟩
            rw [getD_set]; simp [hji]; exact this.2.1
        · intro u v thu thv j huv hu hv hlu hlv htu
          rw [look] at hu hv
          by_cases hut : u = t
          · simp only [hut, ↓reduceIte, Option.some.injEq] at hu; subst hu
            rcases hgone with hg | hg
            · rw [hg] at htu; cases htu
            · rw [hg] at hlu; cases hlu
          · simp only [hut, ↓reduceIte] at hu
            by_cases hvt : v = t
            · simp only [hvt, ↓reduceIte, Option.some.injEq] at hv; subst hv
              rcases hgone with hg | hg
              · rw [hg]; simp
              · rw [hg] at hlv; cases hlv
            · simp only [hvt, ↓reduceIte] at hv
              exact hI.distinct u v thu thv j huv hu hv hlu hlv htu
        · intro j hj hju
          have hj' : j < s.inUse.length := by simpa using hj
          have hji : j ≠ i := by
            intro h; subst h
            rw [getD_set] at hju; simp [hhold.1] at hju
          have hju' : s.inUse.getD j false = true := by
            rw [getD_set] at hju; simpa [hji] using hju
          obtain ⟨u, thu, hu, hlu, htu⟩ := hI.owned j hj' hju'
          have hut : u ≠ t := by
            intro h; subst h; rw [hth] at hu; cases hu; rw [hts] at htu; cases htu; exact hji rfl
          exact ⟨u, thu, by rw [look]; simp [hut]; exact hu, hlu, htu⟩
    · -- a finished thread does nothing
      have hdone : th.pc = .done := by
        simp only [TThread.live, bne_iff_ne, ne_eq, Bool.not_eq_true, Decidable.not_not] at hlive
        simpa using hlive
      have : stepThread good s.inUse th = (s.inUse, th) := by simp [stepThread, hdone]
      rw [this]
      have hset : s.threads.set t th = s.threads := by
        apply List.ext_getElem?
        intro u
        rw [set_lookup hth]
        by_cases hu : u = t
        · subst hu; simp [hth]
        · simp [hu]
      simp only [hset]
      exact hI

theorem run_inv (sched : List Nat) : ∀ (s : TSys), Inv s → Inv (s.run good sched) := by
  induction sched with
  | nil => intro s h; exact h
  | cons t ts ih => intro s h; exact ih _ (step_inv s t h)

theorem init_inv (scripts : List (List Act)) : Inv (TSys.init scripts) := by
  have hth : ∀ (t : Nat) (th : TThread), (TSys.init scripts).threads[t]? = some th → th.tls = none ∧ th.pc = .idle 0 := by
    intro t th h
    simp only [TSys.init, List.getElem?_map] at h
    cases hs : scripts[t]? with
    | none => simp [hs] at h
    | some sc => simp only [hs, Option.map_some, Option.some.injEq] at h; subst h; exact ⟨rfl, rfl⟩
  refine ⟨?_, ?_, ?_, ?_⟩
  · intro t th h; simp [ThOk, (hth t th h).2]
  · intro t th i h _ hi; rw [(hth t th h).1] at hi; cases hi
  · intro t u th tu i _ h _ _ _ hi; rw [(hth t th h).1] at hi; cases hi
  · intro i hi; simp [TSys.init] at hi

/-- **Each live thread has its own stack** — any number of threads, any scripts, any schedule: two different live threads
never hold the same temporary stack. -/
theorem C14_exclusive_stacks (scripts : List (List Act)) (sched : List Nat) :
    let s := (TSys.init scripts).run good sched
    ∀ (t u : Nat) (th tu : TThread) (i : Nat), t ≠ u → s.threads[t]? = some th → s.threads[u]? = some tu →
      th.live = true → tu.live = true → th.tls = some i → tu.tls ≠ some i :=
  (run_inv sched _ (init_inv scripts)).distinct

/-- **Stacks of finished threads are reused rather than leaked**: a stack that is marked in use has a live thread that
holds it and whose exit detector is armed; consequently once every thread has finished no stack is marked in use. -/
theorem C14_released_on_exit (scripts : List (List Act)) (sched : List Nat) :
    let s := (TSys.init scripts).run good sched
    (∀ i, i < s.inUse.length → s.inUse.getD i false = true →
      ∃ (t : Nat) (th : TThread), s.threads[t]? = some th ∧ th.live = true ∧ th.tls = some i ∧ th.armed = true) ∧
    ((∀ (t : Nat) (th : TThread), s.threads[t]? = some th → th.live = false) →
      ∀ i, i < s.inUse.length → s.inUse.getD i false = false) := by
  intro s
  have hI : Inv s := run_inv sched _ (init_inv scripts)
  refine ⟨?_, ?_⟩
  · intro i hi hiu
    obtain ⟨t, th, h1, h2, h3⟩ := hI.owned i hi hiu
    exact ⟨t, th, h1, h2, h3, (hI.holder t th i h1 h2 h3).2.2⟩
  · intro hall i hi
    cases h : s.inUse.getD i false with
    | false => rfl
    | true =>
      obtain ⟨t, th, h1, h2, _⟩ := hI.owned i hi h
      rw [hall t th h1] at h2; cases h2

/-- a thread only takes over a stack that is free at that moment, and only creates a new one after it has tried every
stack that was in the list when it started looking (**reuse before create**) -/
theorem C14_reuse_before_create (iu : List Bool) (th : TThread) (k i : Nat) (rest : List Nat) (hpc : th.pc = .atCas k (i :: rest)) :
    (iu.getD i true = false → (stepThread good iu th).2.tls = some i ∧ (stepThread good iu th).1 = iu.set i true) ∧
    (iu.getD i true = true → (stepThread good iu th).1 = iu ∧
      (stepThread good iu th).2.pc = (if rest = [] then .atPush k else .atCas k rest)) := by
  unfold stepThread
  rw [hpc]
  refine ⟨?_, ?_⟩
  · intro h
    simp only [h, ↓reduceIte, and_self]
  · intro h
    simp only [h, Bool.true_eq_false, ↓reduceIte]
    cases rest <;> simp

/-- **Everything is freed at program exit**: the repaired nifty counter destroys the list unconditionally -/
theorem C14_all_freed_at_exit (s : TSys) : s.destroyedAtExit good = true := by simp [TSys.destroyedAtExit, good]

/-! ### each repair is necessary (schedules replayed on the pinned code by the harness: same behaviour) -/

/-- D10 (no reset of the thread-local pointer): thread 0 creates a stack through an initializer and destroys the
initializer, thread 1 then takes the stack over while thread 0 still uses it -/
theorem C14_D10_shared_stack :
    let s := (TSys.init [[.initCtor, .initDtor, .get], [.get]]).run { resetTls := false } [0, 0, 0, 0, 0, 1, 1, 1]
    s.exclusive = false := by decide

/-- D11 (adopter never arms its exit detector): thread 0 creates a stack and exits, thread 1 adopts it and exits —
the stack stays marked in use for ever -/
theorem C14_D11_never_released :
    let s := (TSys.init [[.get], [.get]]).run { armOnAdopt := false } [0, 0, 0, 0, 0, 1, 1, 1, 1, 1]
    s.releasedOnExit = false ∧ s.threads.all (fun t => !t.live) = true := by decide

/-- D12: only a worker ever had a stack; at exit the main thread (thread 0) has none, so nothing is destroyed -/
theorem C14_D12_not_destroyed :
    let s := (TSys.init [[], [.get]]).run { destroyAlways := false } [1, 1, 1, 1, 1, 0]
    s.destroyedAtExit { destroyAlways := false } = false := by decide

/-- the same schedules on the repaired code -/
example : ((TSys.init [[.initCtor, .initDtor, .get], [.get]]).run good [0, 0, 0, 0, 0, 1, 1, 1]).exclusive = true := by decide
example : ((TSys.init [[.get], [.get]]).run good [0, 0, 0, 0, 0, 1, 1, 1, 1, 1]).releasedOnExit = true := by decide

/-! **Scope**: destroying a `temporary_allocator` unwinds the thread's stack to the marker taken at its construction; that
this restores top, blocks and capacity for any nesting is `MemVerif.Props.C06.C06_unwind_restores` (the C14 check builds
and audits that module as well). -/

end MemVerif.Props.C14
