import MemVerif.Lemmas.C02CollArr
import MemVerif.Props.C02Coll
import MemVerif.Props.C01CollArr
/-!
C02 for `memory_pool_collection` over the intrusive free lists, **node and array operations and `reserve`**, all
histories:

* every cell the caller holds — nodes and every cell of every array — and every free cell is aligned to
  `alignment_for(node size of its bucket)` (`C02_coll_array_aligned_partial`);
* at the moment an array is handed out its base is so aligned, the node size of no bucket has changed, and its
  `arrCells` consecutive whole cells cover `count * size` bytes, so element `i` is at `base + i*size` inside them
  (`C02_coll_array_handout`);
* **the alignment the traits accept for a request of `size` bytes, `alignment_for(size)`, divides the grid alignment of
  the bucket that serves it** for identity and log2 buckets (`C02_coll_requested_alignment_identity/_log2`): a pointer
  returned for `(size, alignment)` with `alignment ≤ alignment_for(size)` is aligned to every power of two up to
  `alignment_for(size)`.

`…_partial`: `small_node_pool` buckets stay at the correspondence level.
-/
namespace MemVerif.Props.C02CollArr
open MemVerif.Model MemVerif.Gen

/-- **C02 (alignment), collections, node and array operations and `reserve`.** -/
theorem C02_coll_array_aligned_partial (cfg : Cfg) (e : EnvS) (arr arrLen : Nat) (hf : cfg.fence ≤ 2 ^ 32) (g : GCollA) (k : Nat)
    (ops : List COpA) (hfit : ∀ op ∈ ops, op.Fits) (hI : CInv arr arrLen g.c g.live) (hg : g.c.Grid g.live)
    (henv : BlocksOk (g.run cfg e k ops).1.c.arena.used) :
    let g' := (g.run cfg e k ops).1
    (∀ as ∈ g'.live, alignOfNs (g'.c.nsOf as.2) ∣ as.1) ∧
    (∀ l ∈ g'.c.lists, ∀ x ∈ l.cells, alignOfNs l.nodeSize ∣ x) := by
  intro g'
  have h := GCollA.run_grid cfg e hf ops g k hfit hI hg henv
  exact ⟨h.2, fun l hl => (h.1 l hl).cells⟩

/-- **An array at the moment it is handed out**: from any state that satisfies the invariants, `allocate_array(count,
size)` answering `a` means: `a` is aligned for the bucket, no bucket changed its node size, the ledger holds the
`arrCells` consecutive whole cells `a, a + ns, …`, and they cover `count * size` bytes. -/
theorem C02_coll_array_handout (cfg : Cfg) {arr arrLen : Nat} {c : Coll} {live : List (Nat × Nat)} (hI : CInv arr arrLen c live)
    (hg : c.Grid live) (hf : cfg.fence ≤ 2 ^ 32) (count size : Nat) (env : List (Option Nat)) {l : AnyList}
    (hl : c.lists[c.listIndex size]? = some l)
    (hb : BlocksOk (c.allocateArray cfg count size env).st.arena.used) {a : Nat}
    (hout : (c.allocateArray cfg count size env).out = .ok a) :
    let st := (c.allocateArray cfg count size env).st
    alignOfNs (c.nsOf size) ∣ a ∧ (∀ s, st.nsOf s = c.nsOf s) ∧
    (∀ t, t < arrCells (c.nsOf size) count size →
      (a + t * c.nsOf size, size) ∈ ledgerArr st live count size (.ok a) ∧ alignOfNs (c.nsOf size) ∣ a + t * c.nsOf size) ∧
    mul64 count size ≤ arrCells (c.nsOf size) count size * c.nsOf size ∧ 0 < arrCells (c.nsOf size) count size := by
  intro st
  obtain ⟨hk, hlg⟩ := Coll.allocateArray_keeps cfg hI hg hf count size env hb
  rw [hout] at hlg
  have hns := hk.ns hg.1
  have hcl : c.nsOf size = l.nodeSize := by unfold Coll.nsOf; rw [hl]; rfl
  have hpos : 0 < c.nsOf size := by rw [hcl]; exact (hg.1 l (List.mem_of_getElem? hl)).pos
  have hst : ((st.lists[st.listIndex size]?).map AnyList.nodeSize).getD 0 = c.nsOf size := hns size
  have hmem : ∀ t, t < arrCells (c.nsOf size) count size →
      (a + t * c.nsOf size, size) ∈ ledgerArr st live count size (.ok a) := by
    intro t ht
    unfold ledgerArr
    simp only
    rw [hst]
    exact List.mem_append_left _ (List.mem_map.mpr ⟨_, mem_blockNodes.mpr ⟨t, ht, rfl⟩, rfl⟩)
  have hal : ∀ t, t < arrCells (c.nsOf size) count size → alignOfNs (c.nsOf size) ∣ a + t * c.nsOf size := by
    intro t ht
    have := hlg _ (hmem t ht)
    simp only at this
    rwa [hns] at this
  have hcpos : 0 < arrCells (c.nsOf size) count size := cellsOf_pos _ _ hpos
  refine ⟨by simpa using hal 0 hcpos, hns, fun t ht => ⟨hmem t ht, hal t ht⟩, ?_, hcpos⟩
  exact le_cellsOf_mul _ _ hpos

/-! ### the requested alignment -/

theorem min_pow_dvd {j k : Nat} (h : j ≤ k) : min (2 ^ j) 16 ∣ min (2 ^ k) 16 := by
  have e : ∀ n, min (2 ^ n) 16 = 2 ^ (min n 4) := by
    intro n
    rcases Nat.le_total n 4 with h4 | h4
    · rw [Nat.min_eq_left h4, Nat.min_eq_left]
      calc 2 ^ n ≤ 2 ^ 4 := Nat.pow_le_pow_right (by omega) h4
        _ = 16 := by decide
    · have h16 : 16 ≤ 2 ^ n :=
        calc 16 = 2 ^ 4 := by decide
          _ ≤ 2 ^ n := Nat.pow_le_pow_right (by omega) h4
      rw [Nat.min_eq_right h4, Nat.min_eq_right h16]
  rw [e j, e k]
  exact Nat.pow_dvd_pow 2 (by omega)

/-- a log2 bucket's node size is a power of two -/
theorem log2_bucket_pow (i : BitVec 64) : ∃ k, (listNodeSize 8#64 (log2SizeFromIndex i)).toNat = 2 ^ k := by
  unfold listNodeSize log2SizeFromIndex
  split
  · by_cases hi : i.toNat < 64
    · exact ⟨i.toNat, C19.shift_one_toNat i hi⟩
    · rename_i hgt
      exfalso
      have h0 : (1#64 <<< i) = 0#64 := by
        apply BitVec.eq_of_toNat_eq
        have e1 : (1#64 <<< i).toNat = (1 <<< i.toNat) % 2 ^ 64 := by
          simp [BitVec.toNat_shiftLeft]
        rw [e1, Nat.shiftLeft_eq, Nat.one_mul]
        have hd : 2 ^ 64 ∣ 2 ^ i.toNat := Nat.pow_dvd_pow 2 (Nat.le_of_not_lt hi)
        simpa using Nat.mod_eq_zero_of_dvd hd
      rw [h0] at hgt
      exact absurd hgt (by decide)
  · exact ⟨3, by decide⟩

/-- **log2 buckets honour the requested alignment**: `alignment_for(size)` divides `alignment_for(bucket node size)` -/
theorem C02_coll_requested_alignment_log2 {c : Coll} (hs : C01Coll.Sized c) (hp : c.policy = .log2) (size : Nat) (h0 : 0 < size)
    (hsz : size ≤ 2 ^ 63) {l : AnyList} (hl : c.lists[c.listIndex size]? = some l) :
    alignOfNs size ∣ alignOfNs (c.nsOf size) := by
  have hfit := C01Coll.C01_coll_size_fits_log2 hs hp size h0 hsz hl
  have hns := C01Coll.nsOf_eq_bucketNodeSize hs size hl
  rw [hp] at hns
  obtain ⟨k, hk⟩ : ∃ k, c.nsOf size = 2 ^ k := by
    rw [hns]; unfold bucketNodeSize; exact log2_bucket_pow _
  have hlt : size < 2 ^ 64 := by omega
  have hne : BitVec.ofNat 64 size ≠ 0#64 := by
    intro h
    have := congrArg BitVec.toNat h
    rw [BitVec.toNat_ofNat, Nat.mod_eq_of_lt hlt] at this
    simp at this; omega
  obtain ⟨j, q, hd, hdv, _⟩ := C19.C19_alignment_for_decomp _ hne
  have hn : (BitVec.ofNat 64 size).toNat = size := by rw [BitVec.toNat_ofNat, Nat.mod_eq_of_lt hlt]
  have h1 := C19.C19_alignment_for _ j q hd
  rw [hn] at hdv
  have hklt : c.nsOf size < 2 ^ 64 := by rw [hns]; exact BitVec.isLt _
  have hn2 : (BitVec.ofNat 64 (c.nsOf size)).toNat = 2 ^ k * (2 * 0 + 1) := by
    rw [BitVec.toNat_ofNat, Nat.mod_eq_of_lt hklt, hk]; omega
  have h2 := C19.C19_alignment_for _ k 0 hn2
  have hmax : C.max_alignment.toNat = 16 := by decide
  unfold alignOfNs
  rw [h1, h2, hmax]
  apply min_pow_dvd
  have : 2 ^ j ≤ 2 ^ k := by
    have := Nat.le_of_dvd h0 hdv
    omega
  exact (Nat.pow_le_pow_iff_right (by omega)).mp this

/-- **identity buckets honour the requested alignment** -/
theorem C02_coll_requested_alignment_identity {c : Coll} (hs : C01Coll.Sized c) (hp : c.policy = .identity) (size : Nat)
    (h0 : 0 < size) (hsz : size < 2 ^ 64) {l : AnyList} (hl : c.lists[c.listIndex size]? = some l) :
    alignOfNs size ∣ alignOfNs (c.nsOf size) := by
  have hns := C01Coll.nsOf_eq_bucketNodeSize hs size hl
  rw [hp] at hns
  by_cases h8 : 8 ≤ size
  · have := C19.C19_bucket_exact_identity 8#64 (BitVec.ofNat 64 size)
      (by
        have e : (BitVec.ofNat 64 size).toNat = size := by rw [BitVec.toNat_ofNat, Nat.mod_eq_of_lt hsz]
        rw [e]; exact h8)
    rw [this, BitVec.toNat_ofNat, Nat.mod_eq_of_lt hsz] at hns
    rw [hns]
    exact Nat.dvd_refl _
  · rw [hns]
    have key : ∀ s : Fin 8, 0 < s.val →
        alignOfNs s.val ∣ alignOfNs (bucketNodeSize .identity 8#64 (BitVec.ofNat 64 s.val)).toNat := by decide
    exact key ⟨size, by omega⟩ h0

/-- the hypotheses are satisfiable (a test, labelled as a test): a constructed collection (`C01_coll_create`,
`C02_coll_create_grid` give `CInv` and `Grid`) hands out an array of 5 x 24 bytes from its 24-byte bucket — third
stage included (`40 x 16` exceeds the default refill) — and the bases are multiples of 8 resp. 16 -/
def demo : Bool :=
  let cfg : Cfg := { fence := 8, dblDealloc := true, assert := true }
  match Coll.create cfg (.growing 2 1 2000) "ord" .identity true 24 [some 4096] with
  | (some c0, _, _) =>
    let r1 := c0.allocateArray cfg 5 24 [some 65536, some 300000]
    let r2 := r1.st.allocateArray cfg 40 16 [some 65536, some 300000]
    (match r1.out, r2.out with
     | .ok a, .ok b => decide (a % 8 = 0) && decide (b % 16 = 0) && decide (c0.nsOf 24 = 24) && decide (r2.st.nsOf 16 = 16)
     | _, _ => false)
  | _ => false

example : demo = true := by decide

end MemVerif.Props.C02CollArr
