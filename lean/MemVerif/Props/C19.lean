import MemVerif.Lemmas.Arith
import MemVerif.Model.Buckets
/-!
# C19 — size and alignment arithmetic is correct for every input

All statements are about the definitions in `MemVerif.Gen` (regenerated from the C++ source by the
translator on every run), for **every** 64-bit input; `IsPow a k` says the 64-bit value `a` is `2^k`, `k < 64`.
-/
namespace MemVerif.Props.C19
open MemVerif.Gen MemVerif.Bits MemVerif.Arith MemVerif.Model

/-- `is_valid_alignment` accepts exactly the 64 powers of two. -/
theorem C19_valid_alignment_iff (a : BitVec 64) :
    isValidAlignment a = true ↔ ∃ k, IsPow a k := by
  unfold isValidAlignment
  by_cases h0 : a = 0#64
  · subst h0
    simp only [bne_self_eq_false, Bool.false_and, Bool.false_eq_true, false_iff]
    rintro ⟨k, hk, h⟩
    have := two_pow_pos k
    simp at h; omega
  · have hp := isPowerOfTwo_iff a h0
    unfold isPowerOfTwo at hp
    simp only [bne_iff_ne, ne_eq, h0, not_false_eq_true, Bool.and_eq_true, true_and]
    rw [hp]
    constructor
    · rintro ⟨k, hk⟩
      refine ⟨k, ?_, hk⟩
      apply Decidable.byContradiction; intro hc
      have : 2 ^ 64 ≤ 2 ^ k := Nat.pow_le_pow_right (by decide) (by omega)
      have := a.isLt; omega
    · rintro ⟨k, _, hk⟩; exact ⟨k, hk⟩

/-- Rounding up (general form, overflow included): the result is the wrapped sum with its low `k` bits cleared. -/
theorem C19_round_up_wrapping (size a : BitVec 64) (k : Nat) (h : IsPow a k) :
    (roundUp size a).toNat =
      (size.toNat + 2 ^ k - 1) % 2 ^ 64 - ((size.toNat + 2 ^ k - 1) % 2 ^ 64) % 2 ^ k := by
  unfold roundUp
  rw [toNat_and_not_mask h]
  have : ((size + a) - 1#64).toNat = (size.toNat + 2 ^ k - 1) % 2 ^ 64 := by
    rw [BitVec.toNat_sub, BitVec.toNat_add, h.toNat]
    simp only [BitVec.toNat_ofNat]
    have := two_pow_pos k
    have := two_pow_lt h.lt
    have := size.isLt
    omega
  rw [this]

/-- Rounding up gives the least multiple of the alignment that is `≥ size`, whenever that multiple is representable. -/
theorem C19_round_up_least (size a : BitVec 64) (k : Nat) (h : IsPow a k)
    (hno : size.toNat + 2 ^ k - 1 < 2 ^ 64) :
    let r := (roundUp size a).toNat
    r % 2 ^ k = 0 ∧ size.toNat ≤ r ∧ r < size.toNat + 2 ^ k ∧
      ∀ m, m % 2 ^ k = 0 → size.toNat ≤ m → r ≤ m := by
  intro r
  have hr : r = (size.toNat + 2 ^ k - 1) - (size.toNat + 2 ^ k - 1) % 2 ^ k := by
    show (roundUp size a).toNat = _
    rw [C19_round_up_wrapping size a k h, Nat.mod_eq_of_lt hno]
  have hp := two_pow_pos k
  generalize 2 ^ k = A at *
  generalize size.toNat = s at *
  have hdm := Nat.div_add_mod (s + A - 1) A
  have hml := Nat.mod_lt (s + A - 1) hp
  have hrA : r = A * ((s + A - 1) / A) := by omega
  refine ⟨?_, ?_, ?_, ?_⟩
  · rw [hrA]; exact Nat.mul_mod_right _ _
  · omega
  · omega
  · intro m hm hsm
    apply Decidable.byContradiction; intro hlt
    have hm' := Nat.div_add_mod m A
    rw [hm, Nat.add_zero] at hm'
    have hq : m / A < (s + A - 1) / A := by
      apply Nat.lt_of_mul_lt_mul_left (a := A); omega
    have : A * (m / A + 1) ≤ A * ((s + A - 1) / A) := Nat.mul_le_mul_left _ hq
    rw [Nat.mul_add, Nat.mul_one] at this
    omega

/-- `align_offset` is the least non-negative adjustment that aligns the address. -/
theorem C19_align_offset_least (addr a : BitVec 64) (k : Nat) (h : IsPow a k) :
    let off := (alignOffset addr a).toNat
    (addr.toNat + off) % 2 ^ k = 0 ∧ off < 2 ^ k ∧ ∀ d, d < off → (addr.toNat + d) % 2 ^ k ≠ 0 := by
  intro off
  have hp := two_pow_pos k
  have hl := two_pow_lt h.lt
  have hm := toNat_and_mask h addr
  have hoff : off = if addr.toNat % 2 ^ k = 0 then 0 else 2 ^ k - addr.toNat % 2 ^ k := by
    show (alignOffset addr a).toNat = _
    unfold alignOffset
    simp only
    by_cases hz : (addr &&& (a - 1#64)) = 0#64
    · have : addr.toNat % 2 ^ k = 0 := by rw [← hm, hz]; rfl
      simp [hz, this]
    · have hne : addr.toNat % 2 ^ k ≠ 0 := by
        intro hc; apply hz; apply BitVec.eq_of_toNat_eq; rw [hm, hc]; rfl
      have hml := Nat.mod_lt addr.toNat hp
      simp only [bne_iff_ne, ne_eq, hz, not_false_eq_true, ↓reduceIte, hne]
      rw [BitVec.toNat_sub, hm, h.toNat]
      omega
  clear_value off
  generalize 2 ^ k = A at *
  generalize addr.toNat = x at *
  have hdm := Nat.div_add_mod x A
  have hml := Nat.mod_lt x hp
  by_cases hz : x % A = 0
  · simp only [hz, ↓reduceIte] at hoff
    subst hoff
    refine ⟨by simpa using hz, hp, ?_⟩
    intro d hd; omega
  · simp only [hz, ↓reduceIte] at hoff
    refine ⟨?_, by omega, ?_⟩
    · have : x + off = A * (x / A + 1) := by rw [Nat.mul_add, Nat.mul_one]; omega
      rw [this]; exact Nat.mul_mod_right _ _
    · intro d hd hc
      -- x + d lies strictly between two consecutive multiples of A
      have h1 : (x + d) % A = x % A + d := by
        have : x + d = A * (x / A) + (x % A + d) := by omega
        rw [this, Nat.mul_add_mod]; exact Nat.mod_eq_of_lt (by omega)
      omega

/-- `is_aligned` decides divisibility by the alignment. -/
theorem C19_is_aligned_iff (p a : BitVec 64) (k : Nat) (h : IsPow a k) :
    isAligned p a = true ↔ p.toNat % 2 ^ k = 0 := by
  unfold isAligned
  simp only [beq_iff_eq]
  constructor
  · intro hz
    rw [← toNat_and_mask h, hz]; rfl
  · intro hz
    apply BitVec.eq_of_toNat_eq; rw [toNat_and_mask h, hz]; rfl

/-- `alignment_for size` is the largest power of two dividing `size`, capped at `max_alignment`; `0 ↦ 0`. -/
theorem C19_alignment_for (size : BitVec 64) (j q : Nat) (hs : size.toNat = 2 ^ j * (2 * q + 1)) :
    (alignmentFor size).toNat = min (2 ^ j) C.max_alignment.toNat := by
  unfold alignmentFor
  simp only
  have hl := lowbit_toNat size j q hs
  by_cases hgt : (size &&& ~~~(size - 1#64)) > C.max_alignment
  · have : 2 ^ j > C.max_alignment.toNat := by rw [← hl]; exact hgt
    simp only [hgt, decide_true, ↓reduceIte]
    omega
  · have : ¬ 2 ^ j > C.max_alignment.toNat := by rw [← hl]; exact hgt
    simp only [hgt, decide_false, Bool.false_eq_true, ↓reduceIte, hl]
    omega

theorem C19_alignment_for_zero : alignmentFor 0#64 = 0#64 := by decide

/-- the decomposition used by `C19_alignment_for` exists for every non-zero size, and `2^j` is the largest
power of two dividing it -/
theorem C19_alignment_for_decomp (size : BitVec 64) (hs : size ≠ 0#64) :
    ∃ j q, size.toNat = 2 ^ j * (2 * q + 1) ∧ 2 ^ j ∣ size.toNat ∧ ¬ 2 ^ (j + 1) ∣ size.toNat := by
  have hpos : 0 < size.toNat := by
    apply Nat.pos_of_ne_zero; intro h; apply hs; exact BitVec.eq_of_toNat_eq (by simpa using h)
  obtain ⟨j, q, h⟩ := exists_pow_odd _ hpos
  refine ⟨j, q, h, ⟨2 * q + 1, h⟩, ?_⟩
  rintro ⟨c, hc⟩
  rw [h, Nat.pow_succ, Nat.mul_assoc] at hc
  have := Nat.eq_of_mul_eq_mul_left (two_pow_pos j) hc
  omega

/-- `ilog2_base x = ⌊log2 x⌋ + 1` for `x ≠ 0`. -/
theorem ilog2Base_toNat (x : BitVec 64) (hx : x ≠ 0#64) : (ilog2Base x).toNat = Nat.log2 x.toNat + 1 := by
  unfold ilog2Base clz64
  simp only [hx, ↓reduceIte]
  have hlt : Nat.log2 x.toNat < 64 := by
    have hne : x.toNat ≠ 0 := by intro h; apply hx; exact BitVec.eq_of_toNat_eq (by simpa using h)
    exact (Nat.log2_lt hne).2 x.isLt
  rw [BitVec.toNat_sub, BitVec.toNat_setWidth, BitVec.toNat_ofNat]
  have : (C.sizeof_unsigned_long_long * 8#64).toNat = 64 := by decide
  rw [this]
  omega

/-- `ilog2` is the floor of the binary logarithm. -/
theorem C19_ilog2_floor (x : BitVec 64) (hx : x ≠ 0#64) :
    2 ^ (ilog2 x).toNat ≤ x.toNat ∧ x.toNat < 2 ^ ((ilog2 x).toNat + 1) := by
  have hne : x.toNat ≠ 0 := by intro h; apply hx; exact BitVec.eq_of_toNat_eq (by simpa using h)
  have hb := ilog2Base_toNat x hx
  have : (ilog2 x).toNat = Nat.log2 x.toNat := by
    unfold ilog2
    rw [BitVec.toNat_sub, hb]; simp only [BitVec.toNat_ofNat]
    have : Nat.log2 x.toNat < 64 := (Nat.log2_lt hne).2 x.isLt
    omega
  rw [this]
  exact ⟨Nat.log2_self_le hne, Nat.lt_log2_self⟩

/-- `ilog2_ceil` is the ceiling of the binary logarithm. -/
theorem C19_ilog2_ceil (x : BitVec 64) (hx : x ≠ 0#64) :
    x.toNat ≤ 2 ^ (ilog2Ceil x).toNat ∧ ((ilog2Ceil x).toNat = 0 ∨ 2 ^ ((ilog2Ceil x).toNat - 1) < x.toNat) := by
  have hne : x.toNat ≠ 0 := by intro h; apply hx; exact BitVec.eq_of_toNat_eq (by simpa using h)
  have hb := ilog2Base_toNat x hx
  have hlt : Nat.log2 x.toNat < 64 := (Nat.log2_lt hne).2 x.isLt
  have hfl := Nat.log2_self_le hne
  have hfu := @Nat.lt_log2_self x.toNat
  unfold ilog2Ceil
  by_cases hp : isPowerOfTwo x = true
  · obtain ⟨k, hk⟩ := (isPowerOfTwo_iff x hx).1 hp
    have hlog : Nat.log2 x.toNat = k := by rw [hk]; exact Nat.log2_two_pow
    simp only [hp, ↓reduceIte]
    rw [BitVec.toNat_sub, hb]; simp only [BitVec.toNat_ofNat]
    have e : (2 ^ 64 - 1 % 2 ^ 64 + (x.toNat.log2 + 1)) % 2 ^ 64 = k := by omega
    rw [e, hk]
    refine ⟨Nat.le_refl _, ?_⟩
    by_cases hk0 : k = 0
    · left; exact hk0
    · right; exact Nat.pow_lt_pow_right (by decide) (by omega)
  · have hnp : isPowerOfTwo x = false := by simpa using hp
    simp only [hnp, Bool.false_eq_true, ↓reduceIte]
    rw [BitVec.sub_zero, hb]
    refine ⟨Nat.le_of_lt hfu, Or.inr ?_⟩
    simp only [Nat.add_sub_cancel]
    apply Nat.lt_of_le_of_ne hfl
    intro hc
    exact hp ((isPowerOfTwo_iff x hx).2 ⟨_, hc.symm⟩)

theorem ilog2Ceil_toNat_le (x : BitVec 64) (hx : x ≠ 0#64) : (ilog2Ceil x).toNat ≤ 64 := by
  have hne : x.toNat ≠ 0 := by intro h; apply hx; exact BitVec.eq_of_toNat_eq (by simpa using h)
  have hb := ilog2Base_toNat x hx
  have hlt : Nat.log2 x.toNat < 64 := (Nat.log2_lt hne).2 x.isLt
  unfold ilog2Ceil
  rw [BitVec.toNat_sub, hb]
  split <;> simp <;> omega

/-- identity buckets: the chosen list's nodes are at least as large as the request. -/
theorem C19_bucket_fits_identity (minElem s : BitVec 64) :
    s.toNat ≤ (bucketNodeSize .identity minElem s).toNat := by
  unfold bucketNodeSize bucketIndex minSizeIndex listNodeSize Policy.indexFromSize Policy.sizeFromIndex
    identityIndexFromSize identitySizeFromIndex bucketClampCond
  simp only
  by_cases h1 : s < minElem
  · have : s.toNat < minElem.toNat := h1
    simp only [h1, decide_true, ↓reduceIte]
    split <;> omega
  · have h1' : ¬ s.toNat < minElem.toNat := h1
    simp only [h1, decide_false, Bool.false_eq_true, ↓reduceIte]
    split
    · omega
    · rename_i h2
      have : ¬ minElem.toNat < s.toNat := h2
      omega

/-- identity buckets are exact above the minimum element size. -/
theorem C19_bucket_exact_identity (minElem s : BitVec 64) (h : minElem.toNat ≤ s.toNat) :
    bucketNodeSize .identity minElem s = s := by
  unfold bucketNodeSize bucketIndex minSizeIndex listNodeSize Policy.indexFromSize Policy.sizeFromIndex
    identityIndexFromSize identitySizeFromIndex bucketClampCond
  simp only
  have h1 : ¬ s < minElem := by show ¬ s.toNat < minElem.toNat; omega
  simp only [h1, decide_false, Bool.false_eq_true, ↓reduceIte]
  split
  · rfl
  · rename_i h2
    have : ¬ minElem.toNat < s.toNat := h2
    apply BitVec.eq_of_toNat_eq; omega

theorem shift_one_toNat (i : BitVec 64) (hi : i.toNat < 64) : (1#64 <<< i).toNat = 2 ^ i.toNat := by
  have := (isPow_shift i.toNat hi).toNat
  rw [← this]; rfl

/-- log2 buckets: the chosen list's nodes are at least as large as the request (sizes up to `2^63`;
beyond that `1 << 64` is undefined behaviour in the source). -/
theorem C19_bucket_fits_log2 (minElem s : BitVec 64) (hs : s ≠ 0#64) (hm : minElem ≠ 0#64)
    (hs63 : s.toNat ≤ 2 ^ 63) (hm63 : minElem.toNat ≤ 2 ^ 63) :
    s.toNat ≤ (bucketNodeSize .log2 minElem s).toNat := by
  have hc := C19_ilog2_ceil s hs
  have hcm := C19_ilog2_ceil minElem hm
  have lt64 : ∀ x : BitVec 64, x ≠ 0#64 → x.toNat ≤ 2 ^ 63 → (ilog2Ceil x).toNat < 64 := by
    intro x hx h63
    have hcx := C19_ilog2_ceil x hx
    have hle := ilog2Ceil_toNat_le x hx
    apply Decidable.byContradiction; intro hge
    have h64 : (ilog2Ceil x).toNat = 64 := by omega
    rw [h64] at hcx
    rcases hcx.2 with h | h <;> omega
  have hsl := lt64 s hs hs63
  have hml := lt64 minElem hm hm63
  unfold bucketNodeSize bucketIndex minSizeIndex listNodeSize Policy.indexFromSize Policy.sizeFromIndex
    log2IndexFromSize log2SizeFromIndex bucketClampCond
  simp only
  by_cases h1 : ilog2Ceil s < ilog2Ceil minElem
  · have h1' : (ilog2Ceil s).toNat < (ilog2Ceil minElem).toNat := h1
    simp only [h1, decide_true, ↓reduceIte]
    have hmono : 2 ^ (ilog2Ceil s).toNat ≤ 2 ^ (ilog2Ceil minElem).toNat :=
      Nat.pow_le_pow_right (by decide) (Nat.le_of_lt h1')
    split
    · rw [shift_one_toNat _ hml]; omega
    · rename_i h2
      have h2' : ¬ minElem.toNat < (1#64 <<< ilog2Ceil minElem).toNat := h2
      rw [shift_one_toNat _ hml] at h2'
      omega
  · simp only [h1, decide_false, Bool.false_eq_true, ↓reduceIte]
    split
    · rw [shift_one_toNat _ hsl]; exact hc.1
    · rename_i h2
      have h2' : ¬ minElem.toNat < (1#64 <<< ilog2Ceil s).toNat := h2
      rw [shift_one_toNat _ hsl] at h2'
      omega

/-- log2 buckets waste less than half, **except** that no bucket is smaller than the list's minimum node
size (`_partial`: the statement's "less than twice as large" fails for `s ≤ minElem/2`, finding D16). -/
theorem C19_bucket_tight_log2_partial (minElem s : BitVec 64) (m : Nat) (hs : s ≠ 0#64) (hm : IsPow minElem m)
    (hs63 : s.toNat ≤ 2 ^ 63) (hm63 : m ≤ 63) :
    (bucketNodeSize .log2 minElem s).toNat < 2 * s.toNat ∨ bucketNodeSize .log2 minElem s = minElem := by
  have hm0 : minElem ≠ 0#64 := by
    intro h; have h1 := hm.toNat; rw [h] at h1; have := two_pow_pos m; simp only [BitVec.toNat_ofNat, Nat.zero_mod] at h1; omega
  have hc := C19_ilog2_ceil s hs
  have hcm := C19_ilog2_ceil minElem hm0
  have hpm : isPowerOfTwo minElem = true := (isPowerOfTwo_iff minElem hm0).2 ⟨m, hm.toNat⟩
  -- ilog2Ceil minElem = m
  have hmidx : (ilog2Ceil minElem).toNat = m := by
    have h1 := hcm.1
    rw [hm.toNat] at h1 hcm
    have hle : m ≤ (ilog2Ceil minElem).toNat := by
      apply Decidable.byContradiction; intro hlt
      have : 2 ^ (ilog2Ceil minElem).toNat < 2 ^ m := Nat.pow_lt_pow_right (by decide) (by omega)
      omega
    rcases hcm.2 with h | h
    · omega
    · apply Decidable.byContradiction; intro hne
      have : 2 ^ m ≤ 2 ^ ((ilog2Ceil minElem).toNat - 1) := Nat.pow_le_pow_right (by decide) (by omega)
      omega
  have lt64 : (ilog2Ceil s).toNat < 64 := by
    have hle := ilog2Ceil_toNat_le s hs
    apply Decidable.byContradiction; intro hge
    have h64 : (ilog2Ceil s).toNat = 64 := by omega
    rw [h64] at hc
    rcases hc.2 with h | h <;> omega
  have hml : (ilog2Ceil minElem).toNat < 64 := by omega
  unfold bucketNodeSize bucketIndex minSizeIndex listNodeSize Policy.indexFromSize Policy.sizeFromIndex
    log2IndexFromSize log2SizeFromIndex bucketClampCond
  simp only
  have hshm : (1#64 <<< ilog2Ceil minElem) = minElem := by
    apply BitVec.eq_of_toNat_eq; rw [shift_one_toNat _ hml, hmidx, hm.toNat]
  by_cases h1 : ilog2Ceil s < ilog2Ceil minElem
  · right
    simp only [h1, decide_true, ↓reduceIte, hshm]
    split <;> rfl
  · simp only [h1, decide_false, Bool.false_eq_true, ↓reduceIte]
    split
    · left
      rw [shift_one_toNat _ lt64]
      rcases hc.2 with h | h
      · rw [h]; have : 0 < s.toNat := by
          apply Nat.pos_of_ne_zero; intro h0; apply hs; exact BitVec.eq_of_toNat_eq (by simpa using h0)
        omega
      · have : 2 ^ (ilog2Ceil s).toNat = 2 * 2 ^ ((ilog2Ceil s).toNat - 1) := by
          have hpos : 0 < (ilog2Ceil s).toNat := by
            apply Nat.pos_of_ne_zero; intro h0; rw [h0] at h; simp at h
            have := hc.1; rw [h0] at this; omega
          have e : (ilog2Ceil s).toNat = ((ilog2Ceil s).toNat - 1) + 1 := by omega
          rw [e, Nat.pow_succ]; simp; omega
        omega
    · right; rfl

/-- the counterexample behind the `_partial`: with 8-byte minimum nodes a 3-byte request gets an 8-byte node. (D16) -/
theorem C19_bucket_tight_log2_counterexample :
    ¬ ((bucketNodeSize .log2 8#64 3#64).toNat < 2 * (3#64 : BitVec 64).toNat) := by decide

end MemVerif.Props.C19
