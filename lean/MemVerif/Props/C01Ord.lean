import MemVerif.Lemmas.C01PoolG
/-!
# C01 — `memory_pool` over each of the three free lists (unordered, **ordered**, **small node**)

`memory_pool<node_pool>` uses the unordered list in release builds and the address-ordered list when
double-deallocation checking is on (Debug); `memory_pool<array_pool>` always uses the ordered list;
`memory_pool<small_node_pool>` uses the chunked small node list. This file states C01 for all of them at once. Model: `Pool` (Model/Pool.lean) with `list = .free _`, `.ord _` or `.small _`, run by the
ghost-instrumented history semantics of `Model/PoolRun.lean` (`GPool`, `POp`; see `Props/C01.lean`).

Invariant `PInvG ns o p live` (`Lemmas/C01PoolG.lean`):
* the list's own structural invariant `AnyList.SInv` — unordered: `capacity = length`; ordered: `OrdList.Inv`
  (node addresses strictly ascending = list order, proxies are not nodes, `capacity = length`, and the cached insert
  position `(last_dealloc_prev_, last_dealloc_)` is a pair of *adjacent* list positions); small: `SmallOk` (free
  chains duplicate-free and within the chunk, chunk and list counters exact, chunk ring in ascending address order
  with disjoint extents, both chunk cursors on the proxy or on a chunk, every chunk inside a used block, every live
  node on the node grid of a chunk);
* the partition invariant `CellInv` over the list's free cells: free cells and the cells of all live allocations are
  pairwise disjoint, every one inside the usable part of a used block.

Environment (`EnvOkG`, hypothesis on the final used-block list, which contains every block ever held): blocks are well
formed and pairwise disjoint (`BlocksOk`), and the proxy words `[B, B + 16)` of the ordered list (two proxy nodes)
or the small list (proxy chunk header) — members of the pool object — lie outside every block (`ObjOut`): the pool object is not placed inside memory that its own block
source hands out afterwards.

What the ordered-list proof adds to the unordered one: `find_pos` (cursor-guided two-ended search, D14 repair
included) finds the insert position for every released node/array and for every new block
(`findPos_valid'`), `insert_impl` splices runs in keeping order and cursor (`splice_run_inv`), `allocate(n)`
removes a contiguous segment and repairs the cursor in its three cases (`OrdList.allocateBytes_run`).
What the small-list proof adds: the two-cursor chunk search finds the chunk of every live node from every cursor
state (`findChunk_complete`), the three pointer checks never fire for a live node, `insert` builds chunks in
ascending order inside the block (`smallInsertChunks_geo`) and splices them into the ring keeping it sorted.
All theorems: every configuration (assertions, double-free check on or off), every environment, every node size,
every history; the one extra hypothesis `POp.Fits` is forced by D21 (`C01.C01_pool_allocArray_overflow_cex`).
-/
namespace MemVerif.Props.C01Ord
open MemVerif.Model

/-- the invariant of an instrumented pool, with the node size and list object it was created with -/
def GInvG (ns : Nat) (o : AnyList.ListObj) (g : GPool) : Prop := PInvG ns o g.p g.live

/-- The constructor of a pool over the **ordered** list establishes the invariant, whatever the outcome of its block
request: `B` is the address of the list's begin proxy (`0 < B`; the end proxy is the next word). -/
theorem C01_ordpool_create (cfg : Cfg) (src : Src) (nodeSize B : Nat) (hB : 0 < B) (arrays : Bool)
    (env : List (Option Nat))
    (henv : EnvOkG (.ordered B) (Pool.create cfg src (.ord (OrdList.new nodeSize B (B + 8))) arrays env).st.arena.used) :
    GInvG (intrusiveNodeSize nodeSize) (.ordered B)
      ⟨(Pool.create cfg src (.ord (OrdList.new nodeSize B (B + 8))) arrays env).st, []⟩ :=
  Pool.create_invG cfg src (.ord (OrdList.new nodeSize B (B + 8))) arrays env (OrdList.new_inv nodeSize B hB) rfl
    (intrusiveNodeSize_pos nodeSize) henv

/-- the same for the unordered list (no list object to keep out of the blocks) -/
theorem C01_freepool_create (cfg : Cfg) (src : Src) (nodeSize : Nat) (arrays : Bool) (env : List (Option Nat))
    (henv : EnvOkG .unordered (Pool.create cfg src (.free (FreeList.new nodeSize)) arrays env).st.arena.used) :
    GInvG (intrusiveNodeSize nodeSize) .unordered ⟨(Pool.create cfg src (.free (FreeList.new nodeSize)) arrays env).st, []⟩ :=
  Pool.create_invG cfg src (.free (FreeList.new nodeSize)) arrays env rfl rfl (intrusiveNodeSize_pos nodeSize) henv

/-- the same for the **small node list** (`P` = address of the proxy chunk header inside the pool object) -/
theorem C01_smallpool_create (cfg : Cfg) (src : Src) (nodeSize P : Nat) (hns : 0 < nodeSize) (arrays : Bool)
    (env : List (Option Nat))
    (henv : EnvOkG (.small P) (Pool.create cfg src (.small (SmallList.new nodeSize P)) arrays env).st.arena.used) :
    GInvG nodeSize (.small P) ⟨(Pool.create cfg src (.small (SmallList.new nodeSize P)) arrays env).st, []⟩ :=
  Pool.create_invG cfg src (.small (SmallList.new nodeSize P)) arrays env (SmallList.new_ok nodeSize P hns) rfl hns henv

/-- **The invariant is inductive**: preserved by every history of node/array allocations, `try_` variants and
releases, for both intrusive lists. `_partial`: `hfit`, see the header. -/
theorem C01_ipool_invariant_partial (cfg : Cfg) (e : EnvS) (ns : Nat) (o : AnyList.ListObj) (g : GPool) (k : Nat)
    (ops : List POp) (hI : GInvG ns o g) (hfit : ∀ op ∈ ops, op.Fits ns)
    (henv : EnvOkG o (g.run cfg e k ops).1.p.arena.used) :
    GInvG ns o (g.run cfg e k ops).1 :=
  GPool.run_invG cfg e ops g k hI hfit henv

/-- **C01 (live allocations), intrusive pools.** At the end of any contract-respecting history — hence at every
point of it — the byte ranges handed out and not yet released are pairwise disjoint and each lies inside the usable
part of a block the pool holds. -/
theorem C01_ipool_live_disjoint_inside_partial (cfg : Cfg) (e : EnvS) (ns : Nat) (o : AnyList.ListObj) (g : GPool) (k : Nat)
    (ops : List POp) (hI : GInvG ns o g) (hfit : ∀ op ∈ ops, op.Fits ns)
    (henv : EnvOkG o (g.run cfg e k ops).1.p.arena.used) :
    (g.run cfg e k ops).1.live.Pairwise (fun r s => r.1 + r.2 ≤ s.1 ∨ s.1 + s.2 ≤ r.1) ∧
    ∀ r ∈ (g.run cfg e k ops).1.live, ∃ b ∈ (g.run cfg e k ops).1.p.arena.used,
      b.usable.base ≤ r.1 ∧ r.1 + r.2 ≤ b.usable.base + b.usable.size := by
  have h := GPool.run_invG cfg e ops g k hI hfit henv
  exact ⟨h.cell.live_disjoint, h.cell.live_inside⟩

/-- **C01 (frame), intrusive pools.** Every free cell `[x, x + ns)` — the only memory into which the allocator
writes (link words: the next pointer, or the xor of both neighbours; debug fill patterns) — is disjoint from every
live byte range; free cells are pairwise disjoint and inside used blocks. -/
theorem C01_ipool_frame_partial (cfg : Cfg) (e : EnvS) (ns : Nat) (o : AnyList.ListObj) (g : GPool) (k : Nat)
    (ops : List POp) (hI : GInvG ns o g) (hfit : ∀ op ∈ ops, op.Fits ns)
    (henv : EnvOkG o (g.run cfg e k ops).1.p.arena.used) :
    let g' := (g.run cfg e k ops).1
    (∀ x ∈ g'.p.list.cells, ∀ r ∈ g'.live, x + ns ≤ r.1 ∨ r.1 + r.2 ≤ x) ∧
      g'.p.list.cells.Pairwise (fun x y => x + ns ≤ y ∨ y + ns ≤ x) ∧
      ∀ x ∈ g'.p.list.cells, ∃ b ∈ g'.p.arena.used, b.usable.base ≤ x ∧ x + ns ≤ b.usable.base + b.usable.size := by
  intro g'
  have h := GPool.run_invG cfg e ops g k hI hfit henv
  exact ⟨h.cell.frame, h.cell.free_cells.1, h.cell.free_cells.2⟩

/-- **The ordered list stays well formed** along every history: at the end the pool's list is an ordered list whose
nodes are strictly ascending, whose capacity counter equals the number of nodes, and whose cached insert position is
an adjacent pair of list positions — the precondition under which `find_pos` is correct
(`C16.C16_ordered_valid_never_reported`, `C04.C04_ordered_release_valid`). -/
theorem C01_ordpool_list_wellformed_partial (cfg : Cfg) (e : EnvS) (ns B : Nat) (g : GPool) (k : Nat)
    (ops : List POp) (hI : GInvG ns (.ordered B) g) (hfit : ∀ op ∈ ops, op.Fits ns)
    (henv : EnvOkG (.ordered B) (g.run cfg e k ops).1.p.arena.used) :
    ∃ l : OrdList, (g.run cfg e k ops).1.p.list = .ord l ∧ l.B = B ∧ l.ns = ns ∧ l.Inv := by
  have h := GPool.run_invG cfg e ops g k hI hfit henv
  cases hl : (g.run cfg e k ops).1.p.list with
  | free fl => have := h.objEq; rw [hl] at this; simp [AnyList.obj] at this
  | small sl => have := h.objEq; rw [hl] at this; simp [AnyList.obj] at this
  | ord l =>
    refine ⟨l, rfl, ?_, ?_, ?_⟩
    · have := h.objEq; rw [hl] at this; simpa [AnyList.obj] using this
    · have := h.nsEq; rw [hl] at this; simpa [AnyList.nodeSize] using this
    · have := h.sinv; rw [hl] at this; simpa [AnyList.SInv] using this

/-- **The small node list stays well formed** along every history: free chains duplicate-free and in range, counters
exact, the chunk ring sorted with valid cursors — the preconditions of the C16 theorems about the chunk search
(`C16_small_valid_never_reported`, `C16_small_invalid_reported`). -/
theorem C01_smallpool_list_wellformed_partial (cfg : Cfg) (e : EnvS) (ns P : Nat) (g : GPool) (k : Nat)
    (ops : List POp) (hI : GInvG ns (.small P) g) (hfit : ∀ op ∈ ops, op.Fits ns)
    (henv : EnvOkG (.small P) (g.run cfg e k ops).1.p.arena.used) :
    ∃ l : SmallList, (g.run cfg e k ops).1.p.list = .small l ∧ l.P = P ∧ l.ns = ns ∧
      SmallOk l (g.run cfg e k ops).1.p.arena.used (g.run cfg e k ops).1.live := by
  have h := GPool.run_invG cfg e ops g k hI hfit henv
  cases hl : (g.run cfg e k ops).1.p.list with
  | free fl => have := h.objEq; rw [hl] at this; simp [AnyList.obj] at this
  | ord ol => have := h.objEq; rw [hl] at this; simp [AnyList.obj] at this
  | small l =>
    refine ⟨l, rfl, ?_, ?_, ?_⟩
    · have := h.objEq; rw [hl] at this; simpa [AnyList.obj] using this
    · have := h.nsEq; rw [hl] at this; simpa [AnyList.nodeSize] using this
    · have := h.sinv; rw [hl] at this; simpa [AnyList.SInv] using this

/-- **C01 at every point of a history**, intrusive pools: split any history as `ops1 ++ ops2`; under the environment
hypothesis on the end of the whole history the state after `ops1` satisfies the invariant. -/
theorem C01_ipool_every_point_partial (cfg : Cfg) (e : EnvS) (ns : Nat) (o : AnyList.ListObj) (g : GPool) (k : Nat)
    (ops1 ops2 : List POp) (hI : GInvG ns o g) (hfit : ∀ op ∈ ops1 ++ ops2, op.Fits ns)
    (henv : EnvOkG o (g.run cfg e k (ops1 ++ ops2)).1.p.arena.used) :
    GInvG ns o (g.run cfg e k ops1).1 := by
  have henv' : EnvOkG o (g.run cfg e k ops1).1.p.arena.used := by
    rw [GPool.run_append] at henv
    exact henv.suffix (GPool.run_used_suffix cfg e ops2 _ _)
  exact GPool.run_invG cfg e ops1 g k hI (fun op h => hfit op (List.mem_append_left _ h)) henv'

/-- A valid release never fails, in any configuration: releasing the `i`-th live allocation of a pool over either
intrusive list answers `done` (no invalid-pointer report, no assertion, no crash) and keeps the invariant.
For the ordered list this is the statement that `find_pos` finds the position of every pointer the pool handed out,
from every cursor state reachable in any history. -/
theorem C01_ipool_release_succeeds (cfg : Cfg) (ns : Nat) (o : AnyList.ListObj) (g : GPool) (i a b : Nat)
    (hI : GInvG ns o g) (ho : ObjOut o g.p.arena.used) (hi : g.live[i]? = some (a, b)) :
    let r := if b > ns then g.p.deallocateBytes cfg a b else g.p.deallocateNode cfg a
    r.out = .done ∧ GInvG ns o ⟨r.st, g.live.eraseIdx i⟩ := by
  intro r
  by_cases hgt : b > ns
  · have := Pool.deallocateBytes_invG cfg hI ho hi hgt
    simp only [r, if_pos hgt]
    exact ⟨this.2, this.1⟩
  · have := Pool.deallocateNode_invG cfg hI ho hi (by omega)
    simp only [r, if_neg hgt]
    exact ⟨this.2, this.1⟩

/-! ### non-vacuity -/

/-- The hypotheses are jointly satisfiable for an **ordered** pool (Debug configuration: assertions and
double-free check on) on a history that grows the pool (second block *below* the first one, so the new block's
nodes are spliced in front), takes nodes and arrays, fails a `try_`, and releases out of order; the list object
(proxies at 64 and 72) lies outside both blocks. Five live allocations at the end. -/
example :
    let cfg : Cfg := { fence := 8, dblDealloc := true, assert := true }
    let e : EnvS := fun k => if k = 0 then some 5000 else if k = 1 then some 1000 else none
    let ops : List POp := [.allocNode, .allocArray 3, .allocArray 6, .tryAllocArray 2, .dealloc 1, .allocNode,
      .allocArray 7, .dealloc 3, .allocArray 2, .allocNode, .tryAllocArray 100]
    let c := Pool.create cfg (.growing 2 1 96) (.ord (OrdList.new 8 64 72)) true [e 0]
    let g0 : GPool := ⟨c.st, []⟩
    let g := (g0.run cfg e 1 ops).1
    EnvOkG (.ordered 64) c.st.arena.used ∧ (∀ op ∈ ops, op.Fits (intrusiveNodeSize 8)) ∧
      EnvOkG (.ordered 64) g.p.arena.used ∧ g.p.arena.used.length = 2 ∧ g.live.length = 5 := by
  decide

/-- … and for a **small node pool** (4-byte nodes; the first block holds one chunk of 3 nodes, the pool grows into a
second block placed *below* the first one, so the new chunk is spliced in front of the ring), with releases out of
order and a refused array request; the proxy chunk header (at 64) lies outside both blocks. -/
example :
    let cfg : Cfg := {}
    let e : EnvS := fun k => if k = 0 then some 5000 else if k = 1 then some 1000 else none
    let ops : List POp := [.allocNode, .allocNode, .allocNode, .allocNode, .dealloc 3, .dealloc 0, .tryAllocNode,
      .allocNode, .dealloc 1, .allocArray 2]
    let c := Pool.create cfg (.growing 2 1 60) (.small (SmallList.new 4 64)) false [e 0]
    let g0 : GPool := ⟨c.st, []⟩
    let g := (g0.run cfg e 1 ops).1
    EnvOkG (.small 64) c.st.arena.used ∧ (∀ op ∈ ops, op.Fits 4) ∧
      EnvOkG (.small 64) g.p.arena.used ∧ g.p.arena.used.length = 2 ∧ g.live = [(1052, 4), (5056, 4), (5052, 4)] := by
  decide

end MemVerif.Props.C01Ord
