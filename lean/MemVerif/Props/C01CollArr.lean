import MemVerif.Lemmas.C01CollArr
import MemVerif.Props.C01Coll
/-!
C01 for `memory_pool_collection` over the intrusive free lists, **node and array operations**
(`allocate_node`, `try_allocate_node`, `deallocate_node`, `allocate_array`, `try_allocate_array`, `deallocate_array`,
`reserve`),
every history, every bucket policy, every configuration (fence size up to `2^32`).

The ledger is a list of cells: a node is one cell, an array of `k` cells of its bucket is entered as its `k` consecutive
cells (`arrEntries`), so "live allocations are pairwise disjoint, apart from all free memory and the list array, inside
held blocks" (`C01Coll.live_facts`) speaks about every cell of every array too; `C01_coll_array_cells` says the cells
of an array are consecutive, whole and as many as `count * size` bytes need.

`…_partial`: collections whose buckets are `small_node_pool` lists stay at the correspondence level (they have no
array support at all); `count * size` is the library's own `size_t` product (finding D21: it may wrap for absurd counts).
-/
namespace MemVerif.Props.C01CollArr
open MemVerif.Model MemVerif.Gen

/-- **C01 (invariant), collections, node and array operations.** -/
theorem C01_coll_array_invariant_partial (cfg : Cfg) (e : EnvS) (arr arrLen : Nat) (hf : cfg.fence ≤ 2 ^ 32) (g : GCollA) (k : Nat)
    (ops : List COpA) (hfit : ∀ op ∈ ops, op.Fits) (hI : CInv arr arrLen g.c g.live)
    (henv : BlocksOk (g.run cfg e k ops).1.c.arena.used) :
    CInv arr arrLen (g.run cfg e k ops).1.c (g.run cfg e k ops).1.live :=
  GCollA.run_inv cfg e hf ops g k hfit hI henv

/-- **C01 (live allocations), collections, node and array operations**: at the end of any history — hence at every
point — all cells the caller holds (nodes and the cells of arrays) are pairwise disjoint, apart from every free cell of
every bucket and from the list array, and inside held blocks. -/
theorem C01_coll_array_live_disjoint_inside_partial (cfg : Cfg) (e : EnvS) (arr arrLen : Nat) (hf : cfg.fence ≤ 2 ^ 32)
    (g : GCollA) (k : Nat) (ops : List COpA) (hfit : ∀ op ∈ ops, op.Fits) (hI : CInv arr arrLen g.c g.live)
    (henv : BlocksOk (g.run cfg e k ops).1.c.arena.used) :
    let g' := (g.run cfg e k ops).1
    (g'.live.map fun as => (as.1, g'.c.nsOf as.2)).Pairwise (fun r s => r.1 + r.2 ≤ s.1 ∨ s.1 + s.2 ≤ r.1) ∧
    (∀ as ∈ g'.live, ∃ b ∈ g'.c.arena.used, b.usable.base ≤ as.1 ∧ as.1 + g'.c.nsOf as.2 ≤ b.usable.base + b.usable.size) ∧
    (∀ as ∈ g'.live, ∀ l ∈ g'.c.lists, ∀ x ∈ l.cells, as.1 + g'.c.nsOf as.2 ≤ x ∨ x + l.nodeSize ≤ as.1) ∧
    (∀ as ∈ g'.live, as.1 + g'.c.nsOf as.2 ≤ arr ∨ arr + arrLen ≤ as.1) :=
  C01Coll.live_facts (g := ⟨(g.run cfg e k ops).1.c, (g.run cfg e k ops).1.live⟩) (GCollA.run_inv cfg e hf ops g k hfit hI henv)

/-- **An array is whole and contiguous**: the cells entered for an array of `count * size` bytes at `a` are the
`ceil(count*size / ns)` (one, if it fits a node) consecutive cells `a, a + ns, …` of its bucket — together at least
`count * size` bytes when the product does not wrap. -/
theorem C01_coll_array_cells (ns a s count size : Nat) (hns : 0 < ns) :
    (∀ x, (x, s) ∈ arrEntries ns a s (arrCells ns count size) ↔ ∃ t, t < arrCells ns count size ∧ x = a + t * ns) ∧
    mul64 count size ≤ arrCells ns count size * ns := by
  constructor
  · intro x
    unfold arrEntries
    constructor
    · intro hx
      obtain ⟨y, hy, he⟩ := List.mem_map.mp hx
      obtain ⟨t, ht, rfl⟩ := mem_blockNodes.mp hy
      exact ⟨t, ht, (Prod.mk.inj he).1.symm⟩
    · rintro ⟨t, ht, rfl⟩
      exact List.mem_map.mpr ⟨_, mem_blockNodes.mpr ⟨t, ht, rfl⟩, rfl⟩
  · unfold arrCells cellsOf
    split
    · omega
    · exact le_ceilNodes_mul _ _ hns

/-- **Releasing an array the caller holds always succeeds** and removes exactly its cells from the ledger. -/
theorem C01_coll_array_release_succeeds (cfg : Cfg) {arr arrLen : Nat} {c : Coll} {live : List (Nat × Nat)}
    (h : CInv arr arrLen c live) {a count s : Nat} {l : AnyList} (hl : c.lists[c.listIndex s]? = some l)
    (hsub : ∀ x ∈ arrEntries l.nodeSize a s (arrCells l.nodeSize count s), x ∈ live) :
    (c.deallocateArray cfg a count s).out = .done ∧ (c.deallocateArray cfg a count s).ev = [] ∧
      CInv arr arrLen (c.deallocateArray cfg a count s).st (removeEntries live (arrEntries l.nodeSize a s (arrCells l.nodeSize count s))) :=
  Coll.deallocateArray_inv cfg h hl hsub

/-- the hypotheses are satisfiable (a test, labelled as a test): an `array_pool` collection (ordered lists, identity
buckets, fences) through a history with arrays of several buckets, growth, releases in another order -/
def demo : Bool :=
  let cfg : Cfg := { fence := 8, dblDealloc := true, assert := true }
  let e : EnvS := fun k => if k = 0 then some 4096 else if k = 1 then some 65536 else if k = 2 then some 300000 else none
  let ops : List COpA := [.allocArray 3 16, .node (.allocNode 16), .allocArray 5 24, .tryAllocArray 2 16, .deallocArray 2,
    .allocArray 40 16, .node (.allocNode 24), .deallocArray 0, .allocArray 4 8, .node (.dealloc 0), .tryAllocArray 1000 8,
    .reserve 20 500]
  match Coll.create cfg (.growing 2 1 2000) "ord" .identity true 24 [e 0] with
  | (some c0, _, _) =>
    let g := (GCollA.run cfg e { c := c0 } 1 ops).1
    decide (BlocksOk c0.arena.used) && decide (BlocksOk g.c.arena.used) && decide (g.arrs.length = 3) && decide (10 < g.live.length)
  | _ => false

example : demo = true := by decide

end MemVerif.Props.C01CollArr
