import MemVerif.Model.Pool
import MemVerif.Lemmas.StackArith
import MemVerif.Lemmas.C05
/-!
# C03 — allocation failure is always signalled, never returned as null or absorbed

Statements over the executable models of `static_allocator`, `memory_stack`, `iteration_allocator`, `memory_pool`,
`memory_pool_collection` (every list type, every block source, every configuration, every upstream environment —
an upstream failure is an environment answering `none`).
`Out` = `ok addr | null | throws e | …`; `crash`/`handler`/`envMissing` are model outcomes for contract violations
and never occur on the traces validated against the implementation.
-/
namespace MemVerif.Props.C03
open MemVerif.Model

/-! ### the `try_` functions never throw and never grow the allocator -/

theorem C03_try_stack (cfg : Cfg) (s : MemStack) (size align : Nat) :
    (∀ e, (s.tryAllocate cfg size align).2 ≠ .throws e) ∧ (s.tryAllocate cfg size align).1.arena = s.arena := by
  unfold MemStack.tryAllocate
  split
  · exact ⟨(fun _ h => Out.noConfusion h), rfl⟩
  · split
    · exact ⟨(fun _ h => Out.noConfusion h), rfl⟩
    · exact ⟨(fun _ h => Out.noConfusion h), rfl⟩

theorem C03_try_iter (cfg : Cfg) (it : Iter) (size align : Nat) :
    (∀ e, (it.tryAllocate cfg size align).2 ≠ .throws e) ∧ (it.tryAllocate cfg size align).1.src = it.src ∧
      (it.tryAllocate cfg size align).1.block = it.block := by
  unfold Iter.tryAllocate
  simp only
  split
  · exact ⟨(fun _ h => Out.noConfusion h), rfl, rfl⟩
  · exact ⟨(fun _ h => Out.noConfusion h), rfl, rfl⟩

theorem C03_try_pool_node (p : Pool) :
    (∀ e, p.tryAllocateNode.out ≠ .throws e) ∧ p.tryAllocateNode.ev = [] ∧ p.tryAllocateNode.st.arena = p.arena := by
  unfold Pool.tryAllocateNode
  split
  · exact ⟨(fun _ h => Out.noConfusion h), rfl, rfl⟩
  · split
    · exact ⟨(fun _ h => Out.noConfusion h), rfl, rfl⟩
    · exact ⟨(fun _ h => Out.noConfusion h), rfl, rfl⟩

theorem C03_try_pool_array (p : Pool) (bytes : Nat) :
    (∀ e, (p.tryAllocateArrayBytes bytes).out ≠ .throws e) ∧ (p.tryAllocateArrayBytes bytes).ev = [] ∧
      (p.tryAllocateArrayBytes bytes).st.arena = p.arena := by
  unfold Pool.tryAllocateArrayBytes
  split
  · exact ⟨(fun _ h => Out.noConfusion h), rfl, rfl⟩
  · split
    · exact ⟨(fun _ h => Out.noConfusion h), rfl, rfl⟩
    · exact ⟨(fun _ h => Out.noConfusion h), rfl, rfl⟩
    · exact ⟨(fun _ h => Out.noConfusion h), rfl, rfl⟩

/-- `insert_rest`/`try_reserve_memory` never touch the arena -/
theorem insertRest_arena (cfg : Cfg) (c c' : Coll) (i : Nat) (h : c.insertRest cfg i = some c') : c'.arena = c.arena := by
  unfold Coll.insertRest at h
  simp only at h
  split at h
  · split at h
    · cases h; rfl
    · split at h
      · split at h
        · cases h; rfl
        · cases h
      · cases h; rfl
  · cases h

theorem tryReserve_arena (cfg : Cfg) (c c' : Coll) (i cap : Nat) (h : c.tryReserve cfg i cap = some c') : c'.arena = c.arena := by
  unfold Coll.tryReserve at h
  split at h
  · split at h
    · exact insertRest_arena cfg c c' i h
    · split at h
      · cases h; rfl
      · cases h
  · cases h

/-- whichever way `c1` was obtained in `try_allocate_node`/`try_allocate_array`, the arena is the original one -/
theorem tryStep_arena (cfg : Cfg) (c c1 : Coll) (b : Bool) (i dc : Nat)
    (h : (if b = true then c.tryReserve cfg i dc else some c) = some c1) : c1.arena = c.arena := by
  split at h
  · exact tryReserve_arena cfg c c1 i dc h
  · cases h; rfl

theorem C03_try_coll_node (cfg : Cfg) (c : Coll) (size : Nat) :
    (∀ e, (c.tryAllocateNode cfg size).out ≠ .throws e) ∧ (c.tryAllocateNode cfg size).ev = [] ∧
      (c.tryAllocateNode cfg size).st.arena = c.arena := by
  unfold Coll.tryAllocateNode
  refine ⟨?_, ?_, ?_⟩
  all_goals (simp only []; repeat' split)
  all_goals (first | rfl | (intro e h; exact Out.noConfusion h) | skip)
  all_goals (first | (have hA := tryStep_arena cfg c _ _ _ _ (by assumption); simpa [Coll.setList] using hA) | skip)

theorem C03_try_coll_array (cfg : Cfg) (c : Coll) (count size : Nat) :
    (∀ e, (c.tryAllocateArray cfg count size).out ≠ .throws e) ∧ (c.tryAllocateArray cfg count size).ev = [] ∧
      (c.tryAllocateArray cfg count size).st.arena = c.arena := by
  unfold Coll.tryAllocateArray
  refine ⟨?_, ?_, ?_⟩
  all_goals (simp only []; repeat' split)
  all_goals (first | rfl | (intro e h; exact Out.noConfusion h) | skip)
  all_goals (first | (have hA := tryStep_arena cfg c _ _ _ _ (by assumption); simpa [Coll.setList] using hA) | skip)

/-! ### the throwing functions never return null -/

theorem C03_stack_never_null (cfg : Cfg) (s : MemStack) (size align : Nat) (env : List (Option Nat)) :
    (s.allocate cfg size align env).2.1 ≠ .null := by
  unfold MemStack.allocate
  simp only
  split
  · intro h; cases h
  · intro h; cases h
  · split
    · intro h; cases h
    · intro h; cases h
    · split
      · intro h; cases h
      · intro h; cases h

theorem C03_static_never_null (cfg : Cfg) (s : Static) (size align : Nat) : (s.allocateNode cfg size align).2 ≠ .null := by
  unfold Static.allocateNode
  split <;> (intro h; cases h)

theorem C03_iter_never_null (cfg : Cfg) (it : Iter) (size align : Nat) : (it.allocate cfg size align).2 ≠ .null := by
  unfold Iter.allocate
  simp only
  split <;> (intro h; cases h)

theorem allocateBlock_not_null (cfg : Cfg) (p : Pool) (env : List (Option Nat)) : (p.allocateBlock cfg env).out ≠ .null := by
  unfold Pool.allocateBlock
  split
  · intro h; cases h
  · intro h; cases h
  · split <;> (intro h; cases h)

theorem C03_pool_node_never_null (cfg : Cfg) (p : Pool) (env : List (Option Nat)) : (p.allocateNode cfg env).out ≠ .null := by
  unfold Pool.allocateNode
  simp only
  split
  · split <;> (intro h; cases h)
  · rename_i hne
    split
    · exact allocateBlock_not_null cfg p env
    · intro h; cases h

theorem C03_pool_array_never_null (cfg : Cfg) (p : Pool) (bytes : Nat) (env : List (Option Nat)) :
    (p.allocateArrayBytes cfg bytes env).out ≠ .null := by
  unfold Pool.allocateArrayBytes
  simp only
  split
  · intro h; cases h
  · intro h; cases h
  · split
    · split <;> (intro h; cases h)
    · exact allocateBlock_not_null cfg p env

/-! ### a huge request is rejected, not wrapped (the D20 repair) -/

/-- Whatever the (64-bit) size, a request that does not fit between the top and the end is answered with null:
there is no size for which the bounds check wraps around. -/
theorem C03_oversize_rejected {cur end_ size k fence : Nat} (hk : k < 64) (hce : cur ≤ end_) (he : end_ < 2 ^ 64)
    (hs : size < 2 ^ 64) (hf : cur + fence + fence + 2 ^ k < 2 ^ 64) (hbig : end_ - cur < size) :
    fixedAllocate cur end_ size (2 ^ k) fence = none := by
  cases h : fixedAllocate cur end_ size (2 ^ k) fence with
  | none => rfl
  | some pc =>
    obtain ⟨p, c⟩ := pc
    have := fixedAllocate_spec hk hce he hs hf h
    omega

/-! ### a failed request leaves the allocator as it was -/

theorem C03_stack_failure_preserves (cfg : Cfg) (s s' : MemStack) (size align : Nat) (env : List (Option Nat)) (e : Exn)
    (ev : List UpEv) (hr : s.allocate cfg size align env = (s', .throws e, ev)) (hne : e ≠ .badSize) :
    s'.cur = s.cur ∧ s'.arena.used = s.arena.used ∧ s'.arena.cached = s.arena.cached ∧ s'.leak = s.leak := by
  unfold MemStack.allocate at hr
  simp only at hr
  split at hr
  · cases hr
  · cases hr
  · split at hr
    · cases hr
    · rename_i a e' ev' env' hab
      have hk := failure_keeps_blocks _ _ _ _ _ _ hab
      simp only [Prod.mk.injEq] at hr
      obtain ⟨h1, _, _⟩ := hr
      subst h1
      exact ⟨rfl, hk.1, hk.2.1, rfl⟩
    · split at hr
      · simp only [Prod.mk.injEq, Out.throws.injEq] at hr
        exact absurd hr.2.1.symm hne
      · cases hr

theorem allocateBlock_throws (cfg : Cfg) (p : Pool) (env : List (Option Nat)) (e : Exn)
    (h : (p.allocateBlock cfg env).out = .throws e) :
    (p.allocateBlock cfg env).st.list = p.list ∧ (p.allocateBlock cfg env).st.arena.used = p.arena.used := by
  unfold Pool.allocateBlock at h ⊢
  cases hab : p.arena.allocateBlock env with
  | envMissing => simp only [hab] at h; cases h
  | fail a e' ev env' =>
    have hk := failure_keeps_blocks _ _ _ _ _ _ hab
    exact ⟨rfl, hk.1⟩
  | ok a b ev env' =>
    simp only [hab] at h
    split at h <;> cases h

/-- a failed `allocate_node` of a pool (out_of_fixed_memory, or the upstream's exception) leaves the free list and the
blocks as they were -/
theorem C03_pool_failure_preserves (cfg : Cfg) (p : Pool) (env : List (Option Nat)) (e : Exn)
    (h : (p.allocateNode cfg env).out = .throws e) :
    (p.allocateNode cfg env).st.list = p.list ∧ (p.allocateNode cfg env).st.arena.used = p.arena.used := by
  unfold Pool.allocateNode at h ⊢
  simp only at h ⊢
  by_cases he : p.list.empty = true
  · simp only [he, ↓reduceIte] at h ⊢
    cases hb : (p.allocateBlock cfg env).out with
    | throws e' =>
      simp only [hb] at h ⊢
      exact allocateBlock_throws cfg p env e' hb
    | done =>
      simp only [hb] at h
      split at h <;> cases h
    | ok _ => simp only [hb] at h; cases h
    | null => simp only [hb] at h; cases h
    | bool _ => simp only [hb] at h; cases h
    | marker _ _ _ => simp only [hb] at h; cases h
    | num _ => simp only [hb] at h; cases h
    | handler _ => simp only [hb] at h; cases h
    | crash => simp only [hb] at h; cases h
    | envMissing => simp only [hb] at h; cases h
  · simp only [he, Bool.false_eq_true, ↓reduceIte] at h
    split at h <;> cases h

end MemVerif.Props.C03
