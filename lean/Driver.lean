import MemVerif.Gen.Arith
import MemVerif.Gen.Guards
import MemVerif.Model.Buckets
import MemVerif.Drv.Stack
import MemVerif.Drv.Pool
import MemVerif.Drv.Cover
import MemVerif.Model.Debug
import MemVerif.Model.ExcSafe
import MemVerif.Model.Joint
import MemVerif.Model.Compose
import MemVerif.Model.Temp
import MemVerif.Model.Container
/-!
Line-protocol driver: reads one operation per line on stdin, runs the executable model, prints the
model's result in the harness' canonical format. `tools/` diff the two streams.
-/
open MemVerif MemVerif.Gen MemVerif.Model MemVerif.Drv

def b2s (b : Bool) : String := if b then "1" else "0"
def bv (s : String) : Option (BitVec 64) := s.toNat?.map (BitVec.ofNat 64)

def arith (fn : String) (args : List String) : Option String :=
  match fn, args.map bv with
  | "is_valid_alignment", [some a] => some (b2s (isValidAlignment a))
  | "round_up", [some s, some a] => some (toString (roundUp s a).toNat)
  | "align_offset", [some s, some a] => some (toString (alignOffset s a).toNat)
  | "is_aligned", [some s, some a] => some (b2s (isAligned s a))
  | "alignment_for", [some s] => some (toString (alignmentFor s).toNat)
  | "is_power_of_two", [some s] => some (b2s (isPowerOfTwo s))
  | "ilog2_base", [some s] => some (toString (ilog2Base s).toNat)
  | "ilog2", [some s] => some (toString (ilog2 s).toNat)
  | "ilog2_ceil", [some s] => some (toString (ilog2Ceil s).toNat)
  | "log2_index_from_size", [some s] => some (toString (log2IndexFromSize s).toNat)
  | "log2_size_from_index", [some s] => some (toString (log2SizeFromIndex s).toNat)
  | "identity_index_from_size", [some s] => some (toString (identityIndexFromSize s).toNat)
  | "identity_size_from_index", [some s] => some (toString (identitySizeFromIndex s).toNat)
  | "free_min_block_size", [some a, some b] => some (toString (freeListMinBlockSize a b).toNat)
  | "ordered_min_block_size", [some a, some b] => some (toString (orderedListMinBlockSize a b).toNat)
  | "small_min_block_size", [some a, some b] => some (toString (smallListMinBlockSize a b).toNat)
  | "small_chunk_count", [some a] => some (toString (smallChunkCount a).toNat)
  | "implementation_offset", [] => some (toString implementationOffset.toNat)
  | "free_usable_size", [some a, some b] => some (toString (freeListUsableSize a b).toNat)
  | "ordered_usable_size", [some a, some b] => some (toString (orderedListUsableSize a b).toNat)
  | "small_usable_size", [some a, some b] => some (toString (smallListUsableSize a b).toNat)
  | "grow_block_size", [some n, some d, some b] =>
      some (toString (growBlockSize (n.setWidth 32) (d.setWidth 32) b).toNat)
  -- bucket node size of a collection: policy (0 identity, 1 log2), min element size, request size
  | "bucket_node_size", [some p, some m, some s] =>
      some (toString (bucketNodeSize (if p = 0#64 then .identity else .log2) m s).toNat)
  | "bucket_rel_index", [some p, some m, some s] =>
      let pol := if p = 0#64 then Policy.identity else Policy.log2
      some (toString (bucketIndex pol m s - minSizeIndex pol m).toNat)
  | "stack_allocation_fits", [some f, some o, some s, some r] => some (b2s (stackAllocationFits f o s r))
  | _, _ => none

/-- C17: `ll <allocator> <size> <fence> <off:val,...|->` -> the handler calls of `deallocate_node` -/
def llLine (args : List String) : Option String :=
  match args with
  | [_, size, fence, pokes] =>
    let ws : List (Nat × Nat) := if pokes = "-" then [] else
      (pokes.splitOn ",").filterMap fun t => match t.splitOn ":" with
        | [o, v] => some (nat! o, nat! v)
        | _ => none
    let r := llFreeReports (nat! size) (nat! fence) (poke (llNew (nat! size) (nat! fence)) ws)
    some (" ".intercalate ("reports" :: r.map toString))
  | _ => none

def optNat (s : String) : Option Nat := if s = "-" then none else s.toNat?

/-- C20: the event log of one helper call (followed by the deleter / `reset()` when it succeeded) -/
def spLine (args : List String) : Option String :=
  match args with
  | [h, s, a, f] =>
    if h = "unique" || h = "shared" then
      let fail := f = "1"
      some (evsStr (allocateUnique (nat! s) (nat! a) fail ++ (if fail then [] else deleteUnique (nat! s) (nat! a))))
    else none
  | ["uarr", n, s, a, k] =>
    let fail := optNat k
    some (evsStr (allocateUniqueArray (nat! n) (nat! s) (nat! a) fail ++
      (if fail.isSome then [] else deleteUniqueArray (nat! n) (nat! s) (nat! a))))
  | "joint" :: o :: e :: a :: st :: k :: n1 :: n2 :: n3 :: _ =>
    let fail := optNat k
    let ms := [nat! n1, nat! n2, nat! n3]
    some (evsStr (jointCreate (nat! o) (nat! e) (nat! a) ms (nat! st) fail ++
      (if fail.isSome then [] else jointReset (nat! o) (nat! e) (nat! a) ms (nat! st))))
  | _ => none

/-- C11: where three member arrays of a joint object end up -/
def jtLine (args : List String) : Option String :=
  match args with
  | [o, e, s, a, form, n1, n2, n3] =>
    let obj := 65536
    let objSize := nat! o
    let j0 := Joint.create obj objSize (nat! e)
    let range := form = "range"
    let step (acc : Option (Joint × List String)) (n : Nat) : Option (Joint × List String) :=
      match acc with
      | none => none
      | some (j, offs) =>
        let r := if range then j.arrayRange n (nat! s) (nat! a) else j.arraySized n (nat! s) (nat! a)
        match r.2 with
        | .ok p => some (r.1, offs ++ [if range && n = 0 then "-" else toString (p - obj)])
        | _ => none
    match [nat! n1, nat! n2, nat! n3].foldl step (some (j0, [])) with
    | none => some "throw out_of_fixed_memory"
    | some (j, offs) =>
      some s!"ok {" ".intercalate offs} top={j.top - obj} left={j.capacityLeft} release={j.releaseSize objSize}"
  | _ => none

/-- C11: a history of `joint_allocator::allocate_node` / `deallocate_node` calls (`a:<size>:<align>`, `d:<index>`) -/
def jhLine (args : List String) : Option String :=
  match args with
  | o :: e :: ops =>
    let obj := 65536
    let objSize := nat! o
    let j0 := Joint.create obj objSize (nat! e)
    let step (acc : Joint × List (Nat × Nat) × List String) (t : String) : Joint × List (Nat × Nat) × List String :=
      let (j, recs, outs) := acc
      match t.splitOn ":" with
      | ["a", s, a] =>
        match j.allocate (nat! s) (nat! a) with
        | (j', .ok p) => (j', recs ++ [(p, nat! s)], outs ++ [toString (p - obj)])
        | (j', _) => (j', recs ++ [(0, nat! s)], outs ++ ["oofm"])
      | ["d", k] =>
        match recs[nat! k]? with
        | some (p, s) => (j.deallocate p s, recs, outs ++ ["-"])
        | none => (j, recs, outs ++ ["bad-index"])
      | _ => (j, recs, outs ++ ["bad-op"])
    let (j, _, outs) := ops.foldl step (j0, [], [])
    some s!"ok {" ".intercalate outs} top={j.top - obj} left={j.capacityLeft}"
  | _ => none

/-- prefix form of a composition: `L <i> <a|n>` | `fb x y` | `al <m> x` | `tr x` | `sg <max> x y` | `st x` | `any x` -/
def parseExpr : Nat → List String → Option (AExpr × List String)
  | 0, _ => none
  | fuel + 1, ts =>
    match ts with
    | "L" :: i :: k :: rest => some (.leaf (nat! i) (k = "a"), rest)
    | "fb" :: rest =>
      (parseExpr fuel rest).bind fun (d, r1) => (parseExpr fuel r1).map fun (f, r2) => (.fallback d f, r2)
    | "al" :: m :: rest => (parseExpr fuel rest).map fun (a, r) => (.aligned (nat! m) a, r)
    | "tr" :: rest => (parseExpr fuel rest).map fun (a, r) => (.tracked a, r)
    | "sg" :: m :: rest =>
      (parseExpr fuel rest).bind fun (x, r1) => (parseExpr fuel r1).map fun (y, r2) => (.segregator (nat! m) x y, r2)
    | "st" :: rest => (parseExpr fuel rest).map fun (a, r) => (.storage a, r)
    | "any" :: rest => (parseExpr fuel rest).map fun (a, r) => (.anyRef a, r)
    | _ => none

def callsStr (l : List LeafCall) : String := " ".intercalate (l.map LeafCall.str)
def trackStr (l : List TrackEv) : String := " ".intercalate (l.map TrackEv.str)

/-- C08/C09: one user-level operation through the current composition; returns (result, leaf calls, tracker events) -/
def cmpLine (e : AExpr) (args : List String) (answers : List Bool) : Option (String × String × String) :=
  let owner (ts : List String) : Nat := nat! ((hdr ts "owner").getD "0")
  let doAlloc (t : Bool) (r : Req) : String × String × String :=
    let x := route t e r answers
    ((if x.ok then "ok" else if t then "throw" else "null"), callsStr x.calls, trackStr x.track)
  let doDealloc (t : Bool) (r : Req) (o : Nat) : String × String × String :=
    let (c, ok, tr) := release t e r o
    ((if t then "done" else if ok then "true" else "false"), callsStr c, trackStr tr)
  let mk (a c s al : String) : Req := if a = "1" then Req.array (nat! c) (nat! s) (nat! al) else Req.node (nat! s) (nat! al)
  match args with
  | ["maxima"] => some ((maxima harnessLeafMaxima e).str, "", "")
  | ["alloc", a, c, s, al] => some (doAlloc true (mk a c s al))
  | ["try_alloc", a, c, s, al] => some (doAlloc false (mk a c s al))
  | "dealloc" :: a :: c :: s :: al :: rest => some (doDealloc true (mk a c s al) (owner rest))
  | "try_dealloc" :: a :: c :: s :: al :: rest => some (doDealloc false (mk a c s al) (owner rest))
  | ["std_alloc", n, s, al] => some (doAlloc true (stdReq (nat! n) (nat! s) (nat! al)))
  | "std_dealloc" :: n :: s :: al :: rest => some (doDealloc true (stdReq (nat! n) (nat! s) (nat! al)) (owner rest))
  | ["mra_alloc", b, al, mx] => some (doAlloc true (mraReq (nat! b) (nat! al) (nat! mx)))
  | "mra_dealloc" :: b :: al :: mx :: rest => some (doDealloc true (mraReq (nat! b) (nat! al) (nat! mx)) (owner rest))
  | _ => none

structure DState where
  stack : StackSt := {}
  pool : PoolSt := {}
  expr : Option AExpr := none
  tsys : TSys := { threads := [] }
  conts : List Cont := []
  ctraits : ATraits := {}
  fixes : Fixes := {}
  cov : List (String × Nat) := []

/-- one trace line in, the model's line out -/
def step (ds : DState) (line : String) : DState × String :=
  let secs := sections line
  let op := toks (secs.getD 0 "")
  match op with
  | "arith" :: fn :: rest =>
      let args := rest.takeWhile (· ≠ "=>")
      match arith fn args with
      | some r => (ds, s!"arith {" ".intercalate (fn :: args)} => {r}")
      | none => (ds, s!"bad-op {line}")
  | ["ns", c, sz, al] =>
      let r := stdNodeRequest c (nat! sz) (nat! al)
      let k := (nodeSizeConst c (nat! sz) (nat! al)).getD 0
      (ds, mkLine s!"ns {c} {sz} {al}" "" s!"req={r} const={k}" "" "-")
  | "cteq" :: kind :: _ =>
      -- typed handles: equal iff same allocator object; the type-erased `any` handle compares always equal (finding D23)
      let diff := if kind = "any" then "1" else "0"
      (ds, mkLine s!"cteq {kind} same=1 diff={diff}" "" "-" "" "-")
  | ["ct", _kind, op, i, j] =>
      let bindStr (cs : List Cont) : String := "bind=" ++ String.ofList (cs.map fun c => if c.alloc = 0 then 'A' else 'B')
      let obs := secs.getD 4 ""
      if op = "init" then
        let cs : List Cont := [⟨0, []⟩, ⟨1, []⟩, ⟨0, []⟩, ⟨1, []⟩]
        ({ ds with conts := cs }, mkLine (secs.getD 0 "") "" (bindStr cs) "" obs)
      else
        let cop : Option COp :=
          if op = "insert" then some (.insert (nat! i)) else if op = "erase" then some (.erase (nat! i))
          else if op = "clear" then some (.clear (nat! i)) else if op = "copy_assign" then some (.copyAssign (nat! i) (nat! j))
          else if op = "move_assign" then some (.moveAssign (nat! i) (nat! j)) else if op = "swap" then some (.swap (nat! i) (nat! j))
          else if op = "copy_ctor" then some (.copyCtor (nat! i) (nat! j)) else if op = "move_ctor" then some (.moveCtor (nat! i) (nat! j))
          else if op = "splice" then some (.splice (nat! i) (nat! j)) else none
        match cop.bind (cstep ds.ctraits ds.conts) with
        | some cs => ({ ds with conts := cs }, mkLine (secs.getD 0 "") "" (bindStr cs) "" obs)
        | none => (ds, mkLine (secs.getD 0 "") "" "precondition-violated" "" obs)
  | "tmt" :: "scripts" :: rest =>
      let parts := (" ".intercalate rest).splitOn ";"
      let scripts := parts.map fun p => (toks p).filterMap fun a =>
        if a = "get" then some Act.get else if a = "ictor" then some Act.initCtor else if a = "idtor" then some Act.initDtor else none
      ({ ds with tsys := TSys.init scripts }, line.trimAscii.toString)
  | ["tmt", "init"] => (ds, mkLine "tmt init" "" "-" "" ds.tsys.str)
  | ["tmt", "step", t] =>
      let s' := ds.tsys.step ds.fixes (nat! t)
      let pt := ((s'.threads[nat! t]?).map fun th => th.pc.point).getD "?"
      ({ ds with tsys := s' }, mkLine s!"tmt step {t}" "" pt "" s'.str)
  | "cmpexpr" :: rest =>
      match parseExpr 64 rest with
      | some (e, []) => ({ ds with expr := some e }, line.trimAscii.toString)
      | _ => (ds, s!"bad-op {line}")
  | "header" :: rest =>
      let subj := (hdr rest "subject").getD ""
      let fx : Fixes := match hdr rest "tmpfix" with
        | some f => { resetTls := f.toList.getD 0 '1' == '1', armOnAdopt := f.toList.getD 1 '1' == '1', destroyAlways := f.toList.getD 2 '1' == '1' }
        | none => {}
      let tb (k : String) : Bool := (hdr rest k).getD "1" = "1"
      let tr : ATraits := { pocca := tb "pocca", pocma := tb "pocma", pocs := tb "pocs" }
      ({ ds with stack := { cfg := parseCfg rest, subject := subj }, pool := { cfg := parseCfg rest }, fixes := fx, ctraits := tr },
       line.trimAscii.toString)
  | subj :: rest =>
      let env := parseEnv (secs.getD 1 "")
      let obsState := secs.getD 4 ""
      let fin (st : StackSt) (r : String × String × String) : DState × String :=
        ({ ds with stack := st }, mkLine (secs.getD 0 "") (secs.getD 1 "") r.1 r.2.1 r.2.2)
      let labels : List String :=
        if subj = "pool" then poolLabels ds.pool rest else if subj = "coll" then collLabels ds.pool rest
        else if subj = "stack" then stackLabels ds.stack rest else []
      let ds := { ds with cov := labels.foldl bump ds.cov }
      let fin (st : StackSt) (r : String × String × String) : DState × String :=
        ({ ds with stack := st }, mkLine (secs.getD 0 "") (secs.getD 1 "") r.1 r.2.1 r.2.2)
      if subj = "stack" then
        let (st, res, up, sts) := stackStep ds.stack rest env obsState
        fin st (res, up, sts)
      else if subj = "iter" then
        let (st, res, up, sts) := iterStep ds.stack rest env obsState
        fin st (res, up, sts)
      else if subj = "static" then
        let (st, res, up, sts) := staticStep ds.stack rest
        fin st (res, up, sts)
      else if subj = "cmp" then
        match ds.expr with
        | none => (ds, s!"bad-op {line}")
        | some e =>
          let answers : List Bool := (toks (secs.getD 1 "")).map fun t => t == "1"
          match cmpLine e rest answers with
          | some (res, calls, tr) => (ds, mkLine (secs.getD 0 "") (secs.getD 1 "") res calls tr)
          | none => (ds, s!"bad-op {line}")
      else if subj = "sp" then
        match spLine rest with
        | some r => (ds, mkLine (secs.getD 0 "") "" r "" "-")
        | none => (ds, s!"bad-op {line}")
      else if subj = "jt" then
        match jtLine rest with
        | some r => (ds, mkLine (secs.getD 0 "") "" r "" "-")
        | none => (ds, s!"bad-op {line}")
      else if subj = "jh" then
        match jhLine rest with
        | some r => (ds, mkLine (secs.getD 0 "") "" r "" "-")
        | none => (ds, s!"bad-op {line}")
      else if subj = "ll" then
        match llLine rest with
        | some r => (ds, mkLine (secs.getD 0 "") "" r "" "-")
        | none => (ds, s!"bad-op {line}")
      else if subj = "src" then
        let (st, res, up, sts) := srcStep ds.stack rest env
        fin st (res, up, sts)
      else if subj = "arena" then
        let (st, res, up, sts) := arenaStep ds.stack rest env
        fin st (res, up, sts)
      else if subj = "pool" then
        let (st, res, up, sts) := poolStep ds.pool rest env
        ({ ds with pool := st }, mkLine (secs.getD 0 "") (secs.getD 1 "") res up sts)
      else if subj = "coll" then
        let (st, res, up, sts) := collStep ds.pool rest env
        ({ ds with pool := st }, mkLine (secs.getD 0 "") (secs.getD 1 "") res up sts)
      else if subj = "oracle-fail" || subj = "summary" then (ds, line.trimAscii.toString)
      else (ds, s!"bad-op {line}")
  | [] => (ds, "")

partial def loop (h : IO.FS.Stream) (out : IO.FS.Stream) (ds : DState) : IO Unit := do
  let line ← h.getLine
  if line.isEmpty then
    if !ds.cov.isEmpty then
      (← IO.getStderr).putStrLn ("coverage " ++ " ".intercalate (ds.cov.map fun (k, n) => s!"{k}={n}"))
    return ()
  let (ds', o) := step ds line
  out.putStrLn o
  loop h out ds'

def main : IO Unit := do
  let stdin ← IO.getStdin
  let stdout ← IO.getStdout
  loop stdin stdout {}
