import MemVerif.Gen.Arith
import MemVerif.Gen.Guards
import MemVerif.Model.Buckets
/-!
Line-protocol driver: reads one operation per line on stdin, runs the executable model, prints the
model's result in the harness' canonical format. `tools/` diff the two streams.
-/
open MemVerif MemVerif.Gen MemVerif.Model

def b2s (b : Bool) : String := if b then "1" else "0"
def bv (s : String) : Option (BitVec 64) := s.toNat?.map (BitVec.ofNat 64)

def arith (fn : String) (args : List String) : Option String :=
  match fn, args.map bv with
  | "is_valid_alignment", [some a] => some (b2s (isValidAlignment a))
  | "round_up", [some s, some a] => some (toString (roundUp s a).toNat)
  | "align_offset", [some s, some a] => some (toString (alignOffset s a).toNat)
  | "is_aligned", [some s, some a] => some (b2s (isAligned s a))
  | "alignment_for", [some s] => some (toString (alignmentFor s).toNat)
  | "is_power_of_two", [some s] => some (b2s (isPowerOfTwo s))
  | "ilog2_base", [some s] => some (toString (ilog2Base s).toNat)
  | "ilog2", [some s] => some (toString (ilog2 s).toNat)
  | "ilog2_ceil", [some s] => some (toString (ilog2Ceil s).toNat)
  | "log2_index_from_size", [some s] => some (toString (log2IndexFromSize s).toNat)
  | "log2_size_from_index", [some s] => some (toString (log2SizeFromIndex s).toNat)
  | "identity_index_from_size", [some s] => some (toString (identityIndexFromSize s).toNat)
  | "identity_size_from_index", [some s] => some (toString (identitySizeFromIndex s).toNat)
  | "free_min_block_size", [some a, some b] => some (toString (freeListMinBlockSize a b).toNat)
  | "ordered_min_block_size", [some a, some b] => some (toString (orderedListMinBlockSize a b).toNat)
  | "small_min_block_size", [some a, some b] => some (toString (smallListMinBlockSize a b).toNat)
  | "small_chunk_count", [some a] => some (toString (smallChunkCount a).toNat)
  | "implementation_offset", [] => some (toString implementationOffset.toNat)
  | "free_usable_size", [some a, some b] => some (toString (freeListUsableSize a b).toNat)
  | "ordered_usable_size", [some a, some b] => some (toString (orderedListUsableSize a b).toNat)
  | "small_usable_size", [some a, some b] => some (toString (smallListUsableSize a b).toNat)
  | "grow_block_size", [some n, some d, some b] =>
      some (toString (growBlockSize (n.setWidth 32) (d.setWidth 32) b).toNat)
  -- bucket node size of a collection: policy (0 identity, 1 log2), min element size, request size
  | "bucket_node_size", [some p, some m, some s] =>
      some (toString (bucketNodeSize (if p = 0#64 then .identity else .log2) m s).toNat)
  | "bucket_rel_index", [some p, some m, some s] =>
      let pol := if p = 0#64 then Policy.identity else Policy.log2
      some (toString (bucketIndex pol m s - minSizeIndex pol m).toNat)
  | "fixed_stack_rejects", [some f, some o, some s, some r] => some (b2s (fixedStackRejects f o s r))
  | _, _ => none

def step (line : String) : String :=
  let toks := (line.trimAscii.toString.splitOn " ").filter (· ≠ "")
  match toks with
  | "arith" :: fn :: rest =>
      let args := rest.takeWhile (· ≠ "=>")
      match arith fn args with
      | some r => s!"arith {" ".intercalate (fn :: args)} => {r}"
      | none => s!"bad-op {line}"
  | [] => ""
  | _ => s!"bad-op {line}"

partial def loop (h : IO.FS.Stream) (out : IO.FS.Stream) : IO Unit := do
  let line ← h.getLine
  if line.isEmpty then return ()
  out.putStrLn (step line)
  loop h out

def main : IO Unit := do
  let stdin ← IO.getStdin
  let stdout ← IO.getStdout
  loop stdin stdout
